// Explorable system: memory_pool_collection<node_pool|array_pool|small_node_pool, identity|log2>
// over growing / constant / fixed block sources; member, traits and composable interface families.
#include "asys.hpp"
#include "listwalk.hpp"

#include <foonathan/memory/allocator_traits.hpp>
#include <foonathan/memory/memory_pool_collection.hpp>

using namespace verif;

struct coll_params
{
    std::size_t maxns = 32, bs = 288;
    std::size_t maxns2 = 0; // max_node_size of the object constructed in slot 1 (0: same as slot 0): moves between differently shaped collections
    int         fam = 0;
    bool        tries = false, bad = false;
    std::vector<long> sizes;                   // node sizes requested
    std::vector<std::pair<long, long>> arrays; // count x size
};
static coll_params PP;

struct named_req
{
    alloc_req   r;
    std::string name, kind;
};
static std::vector<named_req> ALLOCS;

template <class PoolType, class Buckets, class Src>
struct coll_policy
{
    using object  = fm::memory_pool_collection<PoolType, Buckets, Src>;
    using list_t  = typename PoolType::type;
    using traits  = fm::allocator_traits<object>;
    using ctraits = fm::composable_allocator_traits<object>;
    struct extra_t
    {
        u32 dummy;
    };

    static void init_extra(extra_t&) {}
    static void construct(void* where)
    {
        // the generic system sets the upstream's current owner to the slot under construction
        bool second = PP.maxns2 && g_up() && g_up()->cur_owner == 1;
        ::new (where) object(second ? PP.maxns2 : PP.maxns, PP.bs);
    }
    //=== deliberately invalid calls (C16): release an already free node of the first requested size again ===//
    static int nbad()
    {
        return 4;
    }
    static std::string bad_kind(int)
    {
        return "double_free";
    }
    template <class W>
    static u8* bad_ptr(W&, int s, int i)
    {
        if (!list_kind<list_t>::double_free_checked)
            return nullptr;
        auto& o = asys<coll_policy>::obj(s);
        std::vector<u8*> fr;
        collect_free(o.pools_.get(std::size_t(PP.sizes[0])), fr);
        if (fr.empty())
            return nullptr;
        if (i <= 1)
            return std::size_t(i) < fr.size() ? fr[std::size_t(i)] : nullptr;
        if (i == 2)
            return fr.size() > 2 ? fr.back() : nullptr;
        return fr.size() > 4 ? fr[fr.size() / 2] : nullptr;
    }
    template <class W>
    static std::string bad_name(W& w, int s, int i)
    {
        u8* p = bad_ptr(w, s, i);
        return fmt("deallocate_node(already free node at offset %ld, %ld)", p ? long(p - w.arena) : -1L, PP.sizes[0]);
    }
    template <class W>
    static bool bad_enabled(W& w, int s, int i)
    {
        return bad_ptr(w, s, i) != nullptr;
    }
    template <class W>
    static void bad_call(W& w, int s, int i)
    {
        asys<coll_policy>::obj(s).deallocate_node(bad_ptr(w, s, i), std::size_t(PP.sizes[0]));
    }
    template <class W>
    static u64 digest(W&, int s)
    {
        auto& o = asys<coll_policy>::obj(s);
        u64   d = u64(o.capacity_left()) ^ (u64(o.arena_.size()) << 40);
        for (std::size_t i = 0; i < o.pools_.no_elements_; ++i)
            d = d * 31 + o.pools_.array_[i].capacity();
        return d;
    }
    static bool fills_new()
    {
        return true;
    }
    static bool has_leak_check()
    {
        return true;
    }
    static std::size_t block_header()
    {
        return fm::detail::memory_block_stack::implementation_offset();
    }
    static int nalloc()
    {
        return int(ALLOCS.size());
    }
    static std::string alloc_name(int i)
    {
        return ALLOCS[i].name;
    }
    static std::string alloc_kind(int i)
    {
        return ALLOCS[i].kind;
    }
    static verif::alloc_req make_req(extra_t&, int, int i)
    {
        return ALLOCS[i].r;
    }
    static bool alloc_enabled(extra_t&, int, int)
    {
        return true;
    }
    static bool release_enabled(extra_t&, shadow_t<MAXL>&, int)
    {
        return true;
    }

    static void* do_alloc(object& o, const verif::alloc_req& r)
    {
        switch (r.fam)
        {
        case 0:
            if (r.kind == 0)
                return r.is_try ? o.try_allocate_node(r.size) : o.allocate_node(r.size);
            return r.is_try ? o.try_allocate_array(r.count, r.size) : o.allocate_array(r.count, r.size);
        case 1:
            if (r.kind == 0)
                return traits::allocate_node(o, r.size, r.align);
            return traits::allocate_array(o, r.count, r.size, r.align);
        default:
            if (r.kind == 0)
                return ctraits::try_allocate_node(o, r.size, r.align);
            return ctraits::try_allocate_array(o, r.count, r.size, r.align);
        }
    }
    static bool do_release(object& o, void* p, const live_t& l, bool try_)
    {
        switch (l.fam)
        {
        case 0:
            if (l.kind == 0)
            {
                if (try_)
                    return o.try_deallocate_node(p, l.size);
                o.deallocate_node(p, l.size);
                return true;
            }
            if (try_)
                return o.try_deallocate_array(p, l.count, l.size);
            o.deallocate_array(p, l.count, l.size);
            return true;
        case 1:
            if (l.kind == 0)
                traits::deallocate_node(o, p, l.size, l.align);
            else
                traits::deallocate_array(o, p, l.count, l.size, l.align);
            return true;
        default:
            if (l.kind == 0)
                return ctraits::try_deallocate_node(o, p, l.size, l.align);
            return ctraits::try_deallocate_array(o, p, l.count, l.size, l.align);
        }
    }

    static int nextra()
    {
        return 0;
    }
    static std::string extra_kind(int)
    {
        return "";
    }
    static std::string extra_name(extra_t&, int)
    {
        return "";
    }
    static bool extra_enabled(extra_t&, shadow_t<MAXL>&, int, int)
    {
        return false;
    }
    template <class W>
    static void extra_apply(W&, int, int)
    {
    }
    static void after_alloc(extra_t&, const live_t&) {}
    static void after_release(extra_t&, const live_t&) {}
    static void after_move(extra_t&, int, int) {}
    static void after_swap(extra_t&) {}
    static void after_destroy(extra_t&, int) {}

    struct obs
    {
        std::size_t cap;      // capacity of the bucket of the request
        std::size_t list_ns;  // node size of that bucket
        std::size_t capleft;  // arena bytes not in lists
        std::size_t next_block;
        std::size_t max_node, max_array, max_align;
        const void* top;
        bool        empty;
    };
    template <class W>
    static obs observe_for(W&, int s, std::size_t size)
    {
        auto& o = asys<coll_policy>::obj(s);
        obs   b{};
        std::size_t q = size > o.max_node_size() ? o.max_node_size() : size;
        auto& pool   = o.pools_.get(q);
        b.cap        = pool.capacity();
        b.list_ns    = pool.node_size();
        b.empty      = pool.empty();
        b.capleft    = o.capacity_left();
        b.next_block = o.arena_.next_block_size();
        b.max_node   = traits::max_node_size(o);
        b.max_array  = traits::max_array_size(o);
        b.max_align  = traits::max_alignment(o);
        b.top        = o.stack_.top();
        return b;
    }
    // the generic code observes before it knows the request; observe everything lazily instead:
    // we record the capacities of all buckets of the alphabet
    struct obs_all
    {
        obs per[8];
        int n;
    };
    template <class W>
    static obs_all observe(W& w, int s)
    {
        obs_all a{};
        a.n = 0;
        for (auto sz : PP.sizes)
            if (a.n < 8)
                a.per[a.n++] = observe_for(w, s, std::size_t(sz));
        return a;
    }
    static int size_index(u32 size)
    {
        for (std::size_t i = 0; i < PP.sizes.size() && i < 8; ++i)
            if (u32(PP.sizes[i]) == size)
                return int(i);
        return -1;
    }
    static std::size_t nodes_of(const obs& b, u8 kind, u32 bytes)
    {
        if (kind == 0 || bytes <= b.list_ns)
            return 1;
        return (bytes + b.list_ns - 1) / b.list_ns;
    }

    template <class W>
    static void check_alloc(W& w, int s, const verif::alloc_req& r, const live_t& l, const obs_all& before_all)
    {
        auto& t  = T();
        int   si = size_index(r.size);
        if (si < 0)
            return;
        const obs& before = before_all.per[si];
        auto  after  = observe_for(w, s, r.size);
        auto  taken  = nodes_of(before, r.kind, l.bytes);
        bool  reserved = t.up_allocs != 0 || after.top != before.top;
        if (!reserved)
        {
            if (after.cap + taken < before.cap)
                t.fail("M-capacity", "nodes-lost-on-alloc",
                       fmt("allocation took %zu node(s) but the bucket shrank from %zu to %zu", taken, before.cap, after.cap));
            if (after.cap + taken != before.cap)
                t.fail("M-counters", "capacity-delta-alloc",
                       fmt("allocation of %zu node(s) changed pool_capacity_left from %zu to %zu", taken, before.cap, after.cap));
            if (after.capleft != before.capleft)
                t.fail("M-counters", "capacity-left-delta-alloc", "capacity_left() changed although no memory was moved into a pool");
        }
        else
        {
            t.event("reserved_from_arena");
            if (after.cap + taken < before.cap)
                t.fail("M-capacity", "nodes-lost-on-alloc",
                       fmt("allocation took %zu node(s), bucket went from %zu to %zu despite a reservation", taken, before.cap, after.cap));
            if (t.up_allocs)
            {
                auto& b = w.h.up.blk[w.h.up.nblk - 1];
                if (b.size != before.next_block + block_header())
                    t.fail("M-counters", "next-block-size",
                           fmt("next_capacity() announced %zu usable bytes but %u bytes were requested upstream", before.next_block, b.size));
            }
            if (r.kind == 0 && !before.empty)
                t.fail("M-nogrow", "grew-with-free-node", "single node request reserved memory although its free list still held a node");
            // an array that needs ONE node of its bucket is a single node request as well (pools without array support always reserve)
            if (r.kind == 1 && taken == 1 && !before.empty && !std::is_same<PoolType, fm::small_node_pool>::value)
                t.fail("M-nogrow", "grew-with-free-node",
                       fmt("array request of %u x %u bytes needs one node of %zu bytes and reserved memory although its free list still held a node", r.count, r.size,
                           before.list_ns));
        }
        if (r.size > before.max_node)
            t.fail("M-maxima", "above-max-node-size", fmt("request of node size %u succeeded, max_node_size() was %zu", r.size, before.max_node));
        if (r.fam >= 1)
        {
            if (r.kind == 1 && std::size_t(r.count) * r.size > before.max_array)
                t.fail("M-maxima", "above-max-array-size", fmt("array of %u bytes succeeded, max_array_size() was %zu", r.count * r.size, before.max_array));
            if (r.align > before.max_align)
                t.fail("M-maxima", "above-max-alignment", fmt("alignment %u succeeded, max_alignment() was %zu", r.align, before.max_align));
        }
        // the returned node must really be big enough: bucket node size >= requested size
        if (before.list_ns < r.size && r.size <= before.max_node)
            t.fail("M-inside", "bucket-too-small", fmt("bucket with nodes of %zu bytes chosen for a request of %u bytes", before.list_ns, r.size));
    }
    template <class W>
    static void check_failed_alloc(W& w, int s, const verif::alloc_req& r, const obs_all& before_all, int)
    {
        auto& t  = T();
        int   si = size_index(r.size);
        if (si < 0)
            return;
        const obs& before = before_all.per[si];
        if (r.is_try && r.kind == 0 && !before.empty && r.size <= before.max_node && r.align <= before.max_align)
            t.fail("M-try", "try-null-with-free-node", "try_allocate_node returned null although its free list held a node");
        auto after = observe_for(w, s, r.size);
        // a failed request may move the rest of the current block into the request's pool, nothing else: arena memory that
        // disappears from capacity_left() without a node becoming available is capacity that no operation consumed (C18)
        if (t.up_allocs == 0 && after.capleft < before.capleft && after.cap <= before.cap)
            t.fail("M-counters", "capacity-lost-by-failed-alloc",
                   fmt("capacity_left() went from %zu to %zu across a failed request although no node was added to the pool of %zu-byte nodes (%zu free before and after)",
                       before.capleft, after.capleft, before.list_ns, before.cap));
        if (t.up_allocs == 0 && after.next_block != before.next_block)
            t.fail("M-counters", "next-capacity-changed-by-failed-alloc",
                   fmt("the next block size went from %zu to %zu across a request that failed and obtained no block", before.next_block, after.next_block));
    }
    template <class W>
    static void check_release(W& w, int s, const live_t& l, const obs_all& before_all)
    {
        auto& t  = T();
        int   si = size_index(l.size);
        if (si < 0)
            return;
        const obs& before = before_all.per[si];
        auto  after = observe_for(w, s, l.size);
        auto  taken = nodes_of(before, l.kind, l.bytes);
        if (after.cap < before.cap + taken)
            t.fail("M-capacity", "nodes-lost-on-release",
                   fmt("release of %zu node(s) raised the bucket only from %zu to %zu", taken, before.cap, after.cap));
        if (after.cap != before.cap + taken)
            t.fail("M-counters", "capacity-delta-release",
                   fmt("release of %zu node(s) changed pool_capacity_left from %zu to %zu", taken, before.cap, after.cap));
        if (after.capleft != before.capleft)
            t.fail("M-counters", "capacity-left-delta-release", "capacity_left() changed during a release");
        if (cfg_fill)
        {
            const int link = list_walk<list_t>::link_bytes;
            for (u32 i = 0; i < l.bytes; ++i)
            {
                if (int(i % before.list_ns) < link)
                    continue;
                if (w.arena[l.off + i] != 0xDD)
                {
                    t.fail("M-fillfree", "not-freed-pattern",
                           fmt("byte %u of memory released to the pool (offset %u) is 0x%02X, not 0xDD", i, l.off, w.arena[l.off + i]));
                    break;
                }
            }
        }
    }
    template <class W>
    static void check_structure(W& w, int s)
    {
        auto& o = asys<coll_policy>::obj(s);
        // the array of free lists itself must not be handed out
        auto arr = reinterpret_cast<u8*>(o.pools_.array_);
        if (arr && w.h.up.in_arena(arr))
        {
            u32 off = w.h.up.offset_of(arr);
            u32 n   = u32(o.pools_.no_elements_ * sizeof(list_t));
            if (w.h.overlaps_live(off, n))
            {
                T().fail("M-disjoint", "overlap-internal", "a live allocation overlaps the collection's array of free lists");
                return;
            }
        }
        for (std::size_t i = 0; i < o.pools_.no_elements_; ++i)
        {
            list_walk<list_t>::check(w, s, o.pools_.array_[i]);
            if (!T().violations.empty())
                return;
        }
        // arena top inside current block
        auto top = reinterpret_cast<const u8*>(o.stack_.top());
        auto end = reinterpret_cast<const u8*>(o.block_end());
        if (top > end)
            T().fail("M-inside", "arena-top-past-end", "the collection's arena cursor is past the end of its block");
    }
};

static void build_allocs()
{
    ALLOCS.clear();
    auto add = [&](u8 kind, u32 count, u32 size, u32 align, bool is_try, u8 fam, const std::string& name,
                   const std::string& kd) {
        alloc_req r{};
        r.kind   = kind;
        r.count  = count;
        r.size   = size;
        r.align  = align;
        r.is_try = is_try;
        r.fam    = fam;
        ALLOCS.push_back({r, name, kd});
    };
    if (PP.fam == 0)
    {
        for (auto sz : PP.sizes)
        {
            add(0, 1, u32(sz), 0, false, 0, fmt("allocate_node(%ld)", sz), "node");
            if (PP.tries)
                add(0, 1, u32(sz), 0, true, 0, fmt("try_allocate_node(%ld)", sz), "try_node");
        }
        for (auto& cs : PP.arrays)
        {
            add(1, u32(cs.first), u32(cs.second), 0, false, 0, fmt("allocate_array(%ld,%ld)", cs.first, cs.second), "array");
            if (PP.tries)
                add(1, u32(cs.first), u32(cs.second), 0, true, 0, fmt("try_allocate_array(%ld,%ld)", cs.first, cs.second), "try_array");
        }
    }
    else
    {
        bool ct = PP.fam == 2;
        auto nm = ct ? "ctraits::try_" : "traits::";
        for (auto sz : PP.sizes)
            add(0, 1, u32(sz), 1, ct, u8(PP.fam), fmt("%sallocate_node(%ld,1)", nm, sz), ct ? "try_node" : "node");
        for (auto& cs : PP.arrays)
            add(1, u32(cs.first), u32(cs.second), 1, ct, u8(PP.fam), fmt("%sallocate_array(%ld,%ld,1)", nm, cs.first, cs.second),
                ct ? "try_array" : "array");
    }
}

template <class PT, class BK, class Src>
static int run(const argmap& a, const std::string& name)
{
    return run_system<asys<coll_policy<PT, BK, Src>>>(a, name);
}

int main(int argc, char** argv)
{
    argmap a(argc, argv);
    read_common(a);
    PP.maxns = std::size_t(a.n("maxns", 32));
    PP.maxns2 = std::size_t(a.n("maxns2", 0));
    PP.bs    = std::size_t(a.n("bs", 288));
    PP.tries = a.n("tries", 0) != 0;
    std::string fam = a.s("fam", "member");
    PP.fam   = fam == "member" ? 0 : fam == "traits" ? 1 : 2;
    PP.sizes = a.list("sizes");
    if (PP.sizes.empty())
        PP.sizes.push_back(16);
    {
        std::string v = a.s("arrays");
        std::size_t p = 0;
        while (p < v.size())
        {
            auto e = v.find(',', p);
            if (e == std::string::npos)
                e = v.size();
            auto x = v.find('x', p);
            if (x != std::string::npos && x < e)
            {
                long c = std::atol(v.substr(p, x - p).c_str()), sz = std::atol(v.substr(x + 1, e - x - 1).c_str());
                PP.arrays.push_back({c, sz});
                bool have = false;
                for (auto q : PP.sizes)
                    have = have || q == sz;
                if (!have)
                    PP.sizes.push_back(sz);
            }
            p = e + 1;
        }
    }
    build_allocs();
    std::string type = a.s("type", "node"), src = a.s("src", "constant"), bk = a.s("buckets", "log2");
    std::string name = a.s("name", "coll/" + type + "/" + bk + "/" + src);
#define DISPATCH2(PT, BK)                                                                          \
    if (src == "growing")                                                                          \
        return run<PT, BK, src_growing>(a, name);                                                  \
    if (src == "constant")                                                                         \
        return run<PT, BK, src_constant>(a, name);                                                 \
    return run<PT, BK, src_fixed>(a, name);
#define DISPATCH(PT)                                                                               \
    if (bk == "log2")                                                                              \
    {                                                                                              \
        DISPATCH2(PT, fm::log2_buckets)                                                            \
    }                                                                                              \
    DISPATCH2(PT, fm::identity_buckets)
    if (type == "node")
    {
        DISPATCH(fm::node_pool)
    }
    if (type == "array")
    {
        DISPATCH(fm::array_pool)
    }
    DISPATCH(fm::small_node_pool)
}
