// C13: thread_safe_allocator / allocator_storage<Policy, Mutex> serialises all access to the wrapped
// allocator. Deciding step: every schedule (up to a preemption bound) of small multi-threaded programs
// over ALL forwarding members + the lock() proxy, executed on the real allocator_storage code with an
// instrumented Mutex (scheduling points, owner) and an instrumented stateful RawAllocator (checks the
// owner on entry, in-call flag, split read-modify-write of its state). No hook in the library.
//
//   h_tsafe --storage direct|ref|any --alloc stateful|stateless --shape 2x1|2x2|3x1|3x2
//           [--part k/n] [--bound B] --tier quick|thorough --out f
//   h_tsafe --replay '{"storage":..,"alloc":..,"prog":[[..],[..]],"schedule":[..]}'
// Built with -DTSAFE_TSAN -fsanitize=thread the same bodies run free (std::mutex, plain allocator):
//   h_tsafe --tsan [--iters N] --tier .. --out f         (side run, sampling, not deciding)
#define VERIF_NO_WRAP_ABORT_DEF
#include "../engine/core.hpp"
#ifndef TSAFE_TSAN
#include "../engine/sched.hpp"
#endif

#include <foonathan/memory/allocator_storage.hpp>
#include <foonathan/memory/threading.hpp>
#include <foonathan/memory/tracking.hpp>
#include <foonathan/memory/fallback_allocator.hpp>

#include <atomic>
#include <map>
#include <dirent.h>
#include <poll.h>
#include <sys/wait.h>
#include <memory>
#include <mutex>
#include <optional>
#include <set>
#include <thread>

namespace fm = foonathan::memory;
using namespace verif;

//=== the call alphabet: every forwarding member of allocator_storage + the proxy ===//
enum op_t
{
    ALLOC_NODE,
    ALLOC_ARRAY,
    DEALLOC_NODE,
    DEALLOC_ARRAY,
    TRY_ALLOC_NODE,
    TRY_ALLOC_ARRAY,
    TRY_DEALLOC_NODE,
    TRY_DEALLOC_ARRAY,
    MAX_NODE,
    MAX_ARRAY,
    MAX_ALIGN,
    PROXY,       // auto p = st.lock(); p->allocate_node(); p->deallocate_node();
    PROXY_CONST, // const st: auto p = st.lock(); p->max_node_size(); p->max_alignment();
    PROXY_MOVED, // proxy move-constructed into another object, source destroyed, then two calls
    N_OPS,
    // not part of any enumerated program (they break documented preconditions); used by --selftest only
    SELF_NESTED = N_OPS, // lock() while the same thread already holds the proxy: self-deadlock on a non-recursive mutex
    SELF_RACY,           // calls the wrapped allocator directly through get_allocator() (documented as NOT locking)
    N_ALL_OPS
};
static const char* const OP_NAME[N_ALL_OPS] = {"allocate_node",     "allocate_array",     "deallocate_node",
                                           "deallocate_array",  "try_allocate_node",  "try_allocate_array",
                                           "try_deallocate_node", "try_deallocate_array", "max_node_size",
                                           "max_array_size",    "max_alignment",      "lock()",
                                           "lock()const",       "lock()moved",        "selftest:nested-lock",
                                           "selftest:get_allocator()"};
static const int         OP_ENTRIES[N_ALL_OPS] = {1, 1, 1, 1, 1, 1, 1, 1, 1, 1, 1, 2, 2, 2, 2, 1}; // entries into the wrapped allocator
enum
{
    N_MEMBERS = 11 // members of the wrapped allocator (= first 11 ops)
};

//=== observation state of one execution ===//
#ifndef TSAFE_TSAN
struct imutex;
#endif
struct obs
{
#ifndef TSAFE_TSAN
    std::vector<imutex*> mutexes; // instrumented mutexes constructed during this execution
#endif
    long counter = 0; // THE state of the wrapped allocator (split read-modify-write)
    int  in_call = 0;
    long entries = 0, entries_by[N_MEMBERS] = {};
    long nolock = 0, overlap = 0;
    int  first_nolock = -1, first_overlap = -1;
    long lock_calls = 0; // lock()/try_lock() calls on any instrumented mutex
    bool aborted    = false;
    // composed allocators (tracked_allocator): the part WITHOUT state of its own (empty tracker / stateless inner
    // allocator) is still part of a stateful allocator, so its entries must happen under the lock as well
    long        aux_entries = 0, aux_next = 0;
    const char* nolock_site = nullptr; // where the first unlocked entry happened, if not in the allocator proper
};
static obs* G = nullptr;

alignas(16) static char ARENA[16 * 64];
static char DUMMY[64];

#ifndef TSAFE_TSAN
//=== instrumented Mutex: sched::mutex + registration in the current execution ===//
struct imutex : sched::mutex
{
    imutex() noexcept
    {
        if (G)
            G->mutexes.push_back(this);
    }
    void lock()
    {
        if (G)
            ++G->lock_calls;
        sched::mutex::lock();
    }
    bool try_lock()
    {
        if (G)
            ++G->lock_calls;
        return sched::mutex::try_lock();
    }
};
// A second Mutex type: an EMPTY class whose lock()/unlock() operate on a process-wide mutex (here: the
// instrumented mutex object of the current execution). "All mutex types" includes such user mutexes; the
// wrapper must call them like any other.
static imutex* g_emutex_target = nullptr;
struct emutex
{
    void lock()
    {
        g_emutex_target->lock();
    }
    bool try_lock()
    {
        return g_emutex_target->try_lock();
    }
    void unlock()
    {
        g_emutex_target->unlock();
    }
};
static_assert(std::is_empty<emutex>::value, "emutex must be an empty class");
static void yield_point(const char* tag)
{
    sched::point(tag);
}
static bool mutex_owned_by_me(const obs& s)
{
    return s.mutexes.size() == 1 && s.mutexes[0]->owner == sched::self();
}
#else
using imutex = std::mutex;
struct emutex // empty class locking a process-wide std::mutex
{
    static std::mutex& target()
    {
        static std::mutex m;
        return m;
    }
    void lock()
    {
        target().lock();
    }
    bool try_lock()
    {
        return target().try_lock();
    }
    void unlock()
    {
        target().unlock();
    }
};
static void yield_point(const char*) {}
#endif

// entry into a part of the wrapped allocator that HAS state: owner check, in-call flag, split read-modify-write
static long enter_state(obs& s, int member, const char* site)
{
#ifndef TSAFE_TSAN
    ++s.entries;
    ++s.entries_by[member];
    if (!mutex_owned_by_me(s))
    {
        ++s.nolock;
        if (s.first_nolock < 0)
        {
            s.first_nolock = member;
            s.nolock_site  = site;
        }
    }
    if (s.in_call)
    {
        ++s.overlap;
        if (s.first_overlap < 0)
            s.first_overlap = member;
    }
    ++s.in_call;
#endif
    long old = s.counter; // read
    yield_point("rmw");   // ... another thread may run here if nothing serialises us
    s.counter = old + 1;  // write
#ifndef TSAFE_TSAN
    --s.in_call;
#endif
    (void)member;
    (void)site;
    return old;
}
// entry into the stateless part of a composed stateful allocator: owner check only
static void enter_aux(int member, const char* site)
{
#ifndef TSAFE_TSAN
    obs& s = *G;
    ++s.aux_entries;
    if (!mutex_owned_by_me(s))
    {
        ++s.nolock;
        if (s.first_nolock < 0)
        {
            s.first_nolock = member;
            s.nolock_site  = site;
        }
    }
#endif
    (void)member;
    (void)site;
    yield_point("aux-call");
}

//=== instrumented stateful RawAllocator (composable: has try_*) ===//
// Two flavours with identical instrumentation:
//   ialloc: carries a pointer to its state (an ordinary stateful allocator)
//   ealloc: EMPTY class that declares is_stateful = true_type; its state is global (like an allocator forwarding
//           to a global pool). allocator_traits honours the typedef, so the wrapper must lock for it as well.
struct ptr_state
{
    obs* o;
    ptr_state() noexcept : o(nullptr) {} // only reached when a (wrongly) stateless composition default-constructs its parts
    explicit ptr_state(obs* s) noexcept : o(s) {}
    obs& state() const noexcept
    {
        return o ? *o : *G;
    }
};
struct global_state
{
    obs& state() const noexcept
    {
        return *G;
    }
};

template <class State>
struct iallocT : State
{
    using is_stateful = std::true_type;
    iallocT() noexcept = default;
    explicit iallocT(obs* s) noexcept : State(s) {}
    iallocT(iallocT&& other) noexcept : State(static_cast<State&&>(other)) {}
    iallocT& operator=(iallocT&& other) noexcept
    {
        State::operator=(static_cast<State&&>(other));
        return *this;
    }

    long enter(int member) const
    {
        return enter_state(this->state(), member, nullptr);
    }
    static void* slot(long i) noexcept
    {
        return ARENA + 16 * (i % 64);
    }

    void* allocate_node(std::size_t, std::size_t)
    {
        return slot(enter(ALLOC_NODE));
    }
    void* allocate_array(std::size_t, std::size_t, std::size_t)
    {
        return slot(enter(ALLOC_ARRAY));
    }
    void deallocate_node(void*, std::size_t, std::size_t) noexcept
    {
        enter(DEALLOC_NODE);
    }
    void deallocate_array(void*, std::size_t, std::size_t, std::size_t) noexcept
    {
        enter(DEALLOC_ARRAY);
    }
    void* try_allocate_node(std::size_t, std::size_t) noexcept
    {
        return slot(enter(TRY_ALLOC_NODE));
    }
    void* try_allocate_array(std::size_t, std::size_t, std::size_t) noexcept
    {
        return slot(enter(TRY_ALLOC_ARRAY));
    }
    bool try_deallocate_node(void*, std::size_t, std::size_t) noexcept
    {
        enter(TRY_DEALLOC_NODE);
        return true;
    }
    bool try_deallocate_array(void*, std::size_t, std::size_t, std::size_t) noexcept
    {
        enter(TRY_DEALLOC_ARRAY);
        return true;
    }
    std::size_t max_node_size() const
    {
        enter(MAX_NODE);
        return 1024;
    }
    std::size_t max_array_size() const
    {
        enter(MAX_ARRAY);
        return 1024;
    }
    std::size_t max_alignment() const
    {
        enter(MAX_ALIGN);
        return 16;
    }
};
using ialloc = iallocT<ptr_state>;
using ealloc = iallocT<global_state>;
static_assert(std::is_empty<ealloc>::value && fm::allocator_traits<ealloc>::is_stateful::value,
              "ealloc must be an empty class that is nevertheless stateful");
static_assert(fm::is_composable_allocator<ealloc>::value, "");

//=== composed allocators: tracked_allocator<Tracker, RawAllocator> ===//
// tk_sf: tracker WITH state (split read-modify-write in every callback) over a stateless allocator
// tk_es: empty tracker over the stateful instrumented allocator
// Both are stateful as a whole (tracked_allocator::is_stateful), so every callback of the tracker and every member of
// the inner allocator must run under the wrapper's lock. (Deliberately no static_assert on is_stateful here: a tree
// that gets this wrong must be caught by the oracle, with a schedule, not by a build failure.)
struct itracker
{
    obs* o; // non-empty: this tracker is state
    itracker() noexcept : o(nullptr) {}
    explicit itracker(obs* s) noexcept : o(s) {}
    obs& state() const noexcept
    {
        return o ? *o : *G;
    }
    void on_node_allocation(void*, std::size_t, std::size_t) noexcept
    {
        enter_state(state(), ALLOC_NODE, "tracker callback on_node_allocation");
    }
    void on_array_allocation(void*, std::size_t, std::size_t, std::size_t) noexcept
    {
        enter_state(state(), ALLOC_ARRAY, "tracker callback on_array_allocation");
    }
    void on_node_deallocation(void*, std::size_t, std::size_t) noexcept
    {
        enter_state(state(), DEALLOC_NODE, "tracker callback on_node_deallocation");
    }
    void on_array_deallocation(void*, std::size_t, std::size_t, std::size_t) noexcept
    {
        enter_state(state(), DEALLOC_ARRAY, "tracker callback on_array_deallocation");
    }
    void on_allocator_growth(void*, std::size_t) noexcept {}
    void on_allocator_shrinking(void*, std::size_t) noexcept {}
};
struct etracker
{
    void on_node_allocation(void*, std::size_t, std::size_t) noexcept
    {
        enter_aux(ALLOC_NODE, "empty tracker's callback on_node_allocation");
    }
    void on_array_allocation(void*, std::size_t, std::size_t, std::size_t) noexcept
    {
        enter_aux(ALLOC_ARRAY, "empty tracker's callback on_array_allocation");
    }
    void on_node_deallocation(void*, std::size_t, std::size_t) noexcept
    {
        enter_aux(DEALLOC_NODE, "empty tracker's callback on_node_deallocation");
    }
    void on_array_deallocation(void*, std::size_t, std::size_t, std::size_t) noexcept
    {
        enter_aux(DEALLOC_ARRAY, "empty tracker's callback on_array_deallocation");
    }
    void on_allocator_growth(void*, std::size_t) noexcept {}
    void on_allocator_shrinking(void*, std::size_t) noexcept {}
};
// stateless allocator used INSIDE a stateful composition: checks the owner on entry
struct csalloc
{
    using is_stateful = std::false_type;
    static void* fresh() noexcept
    {
#ifndef TSAFE_TSAN
        return ARENA + 16 * ((G->aux_next++) % 64);
#else
        return ARENA;
#endif
    }
    void* allocate_node(std::size_t, std::size_t)
    {
        enter_aux(ALLOC_NODE, "stateless inner allocator allocate_node");
        return fresh();
    }
    void* allocate_array(std::size_t, std::size_t, std::size_t)
    {
        enter_aux(ALLOC_ARRAY, "stateless inner allocator allocate_array");
        return fresh();
    }
    void deallocate_node(void*, std::size_t, std::size_t) noexcept
    {
        enter_aux(DEALLOC_NODE, "stateless inner allocator deallocate_node");
    }
    void deallocate_array(void*, std::size_t, std::size_t, std::size_t) noexcept
    {
        enter_aux(DEALLOC_ARRAY, "stateless inner allocator deallocate_array");
    }
    void* try_allocate_node(std::size_t, std::size_t) noexcept
    {
        enter_aux(TRY_ALLOC_NODE, "stateless inner allocator try_allocate_node");
        return fresh();
    }
    void* try_allocate_array(std::size_t, std::size_t, std::size_t) noexcept
    {
        enter_aux(TRY_ALLOC_ARRAY, "stateless inner allocator try_allocate_array");
        return fresh();
    }
    bool try_deallocate_node(void*, std::size_t, std::size_t) noexcept
    {
        enter_aux(TRY_DEALLOC_NODE, "stateless inner allocator try_deallocate_node");
        return true;
    }
    bool try_deallocate_array(void*, std::size_t, std::size_t, std::size_t) noexcept
    {
        enter_aux(TRY_DEALLOC_ARRAY, "stateless inner allocator try_deallocate_array");
        return true;
    }
    std::size_t max_node_size() const
    {
        enter_aux(MAX_NODE, "stateless inner allocator max_node_size");
        return 1024;
    }
    std::size_t max_array_size() const
    {
        enter_aux(MAX_ARRAY, "stateless inner allocator max_array_size");
        return 1024;
    }
    std::size_t max_alignment() const
    {
        enter_aux(MAX_ALIGN, "stateless inner allocator max_alignment");
        return 16;
    }
};


//=== stateless RawAllocator: nothing to protect; counts entries in the execution's obs ===//
struct salloc
{
    using is_stateful = std::false_type;
    static void touch(int member)
    {
#ifndef TSAFE_TSAN
        if (G)
        {
            ++G->entries;
            ++G->entries_by[member];
        }
#endif
        (void)member;
        yield_point("stateless-call");
    }
    void* allocate_node(std::size_t, std::size_t)
    {
        touch(ALLOC_NODE);
        return ARENA;
    }
    void* allocate_array(std::size_t, std::size_t, std::size_t)
    {
        touch(ALLOC_ARRAY);
        return ARENA;
    }
    void deallocate_node(void*, std::size_t, std::size_t) noexcept
    {
        touch(DEALLOC_NODE);
    }
    void deallocate_array(void*, std::size_t, std::size_t, std::size_t) noexcept
    {
        touch(DEALLOC_ARRAY);
    }
    void* try_allocate_node(std::size_t, std::size_t) noexcept
    {
        touch(TRY_ALLOC_NODE);
        return ARENA;
    }
    void* try_allocate_array(std::size_t, std::size_t, std::size_t) noexcept
    {
        touch(TRY_ALLOC_ARRAY);
        return ARENA;
    }
    bool try_deallocate_node(void*, std::size_t, std::size_t) noexcept
    {
        touch(TRY_DEALLOC_NODE);
        return true;
    }
    bool try_deallocate_array(void*, std::size_t, std::size_t, std::size_t) noexcept
    {
        touch(TRY_DEALLOC_ARRAY);
        return true;
    }
    std::size_t max_node_size() const
    {
        touch(MAX_NODE);
        return 1024;
    }
    std::size_t max_array_size() const
    {
        touch(MAX_ARRAY);
        return 1024;
    }
    std::size_t max_alignment() const
    {
        touch(MAX_ALIGN);
        return 16;
    }
};

static_assert(fm::is_composable_allocator<ialloc>::value, "instrumented allocator must be composable");
static_assert(fm::is_composable_allocator<salloc>::value, "stateless allocator must be composable");
static_assert(fm::allocator_traits<ialloc>::is_stateful::value, "");
static_assert(!fm::allocator_traits<salloc>::is_stateful::value, "");
static_assert(std::is_same<fm::thread_safe_allocator<ialloc, imutex>,
                           fm::allocator_storage<fm::direct_storage<ialloc>, imutex>>::value,
              "thread_safe_allocator is allocator_storage<direct_storage, Mutex>");

//=== the three storage policies; one fresh object per execution, shared by all its threads ===//
template <class A>
A make_alloc(obs* o);
template <>
ialloc make_alloc<ialloc>(obs* o)
{
    return ialloc(o);
}
template <>
salloc make_alloc<salloc>(obs*)
{
    return salloc();
}
template <>
ealloc make_alloc<ealloc>(obs*)
{
    return ealloc();
}
// stateless default allocator of a fallback_allocator that refuses everything, so that every call reaches the fallback
struct rsalloc : csalloc
{
    void* try_allocate_node(std::size_t, std::size_t) noexcept
    {
        enter_aux(TRY_ALLOC_NODE, "stateless default allocator try_allocate_node");
        return nullptr;
    }
    void* try_allocate_array(std::size_t, std::size_t, std::size_t) noexcept
    {
        enter_aux(TRY_ALLOC_ARRAY, "stateless default allocator try_allocate_array");
        return nullptr;
    }
    bool try_deallocate_node(void*, std::size_t, std::size_t) noexcept
    {
        enter_aux(TRY_DEALLOC_NODE, "stateless default allocator try_deallocate_node");
        return false;
    }
    bool try_deallocate_array(void*, std::size_t, std::size_t, std::size_t) noexcept
    {
        enter_aux(TRY_DEALLOC_ARRAY, "stateless default allocator try_deallocate_array");
        return false;
    }
};
static_assert(std::is_empty<rsalloc>::value && !fm::allocator_traits<rsalloc>::is_stateful::value, "");
// fallback_allocator: statefulness comes from ONE of its two parts
using fb_sf = fm::fallback_allocator<rsalloc, ialloc>; // stateless default (always refuses), STATEFUL fallback
using fb_fs = fm::fallback_allocator<ialloc, csalloc>; // stateful default (always succeeds), stateless fallback
template <>
fb_sf make_alloc<fb_sf>(obs* o)
{
    return fb_sf(rsalloc(), ialloc(o));
}
template <>
fb_fs make_alloc<fb_fs>(obs* o)
{
    return fb_fs(ialloc(o), csalloc());
}
// allocator_adapter<A> = allocator_storage<direct_storage<A>, no_mutex>: a stateful allocator that happens to be an
// allocator_storage instantiation itself; wrapped again (directly / by reference / type-erased) it must be locked
using adp = fm::allocator_adapter<ialloc>;
static_assert(std::is_same<adp, fm::allocator_storage<fm::direct_storage<ialloc>, fm::no_mutex>>::value, "");
template <>
adp make_alloc<adp>(obs* o)
{
    return adp(ialloc(o));
}
using tk_sf = fm::tracked_allocator<itracker, csalloc>; // stateful tracker over a stateless allocator
using tk_es = fm::tracked_allocator<etracker, ialloc>;  // empty tracker over a stateful allocator
template <>
tk_sf make_alloc<tk_sf>(obs* o)
{
    return tk_sf(itracker(o), csalloc());
}
template <>
tk_es make_alloc<tk_es>(obs* o)
{
    return tk_es(etracker(), ialloc(o));
}

template <class A, class M = imutex>
struct direct_holder
{
    using mutex_type = M;
    fm::thread_safe_allocator<A, M> st;
    explicit direct_holder(obs* o) : st(make_alloc<A>(o)) {}
};
template <class A, class M = imutex>
struct ref_holder
{
    using mutex_type = M;
    A                                                    a;
    fm::allocator_storage<fm::reference_storage<A>, M> st;
    explicit ref_holder(obs* o) : a(make_alloc<A>(o)), st(a) {}
};
template <class A, class M = imutex>
struct any_holder
{
    using mutex_type = M;
    A                                                                   a;
    fm::allocator_storage<fm::reference_storage<fm::any_allocator>, M> st; // any_allocator_reference + Mutex
    explicit any_holder(obs* o) : a(make_alloc<A>(o)), st(a) {}
};

//=== one call ===//
template <class St>
void do_op(St& st, int op, std::vector<void*>& ret)
{
    switch (op)
    {
    case ALLOC_NODE:
        ret.push_back(st.allocate_node(8, 8));
        break;
    case ALLOC_ARRAY:
        ret.push_back(st.allocate_array(3, 8, 8));
        break;
    case DEALLOC_NODE:
        st.deallocate_node(DUMMY, 8, 8);
        break;
    case DEALLOC_ARRAY:
        st.deallocate_array(DUMMY, 3, 8, 8);
        break;
    case TRY_ALLOC_NODE:
        ret.push_back(st.try_allocate_node(8, 8));
        break;
    case TRY_ALLOC_ARRAY:
        ret.push_back(st.try_allocate_array(3, 8, 8));
        break;
    case TRY_DEALLOC_NODE:
        (void)st.try_deallocate_node(DUMMY, 8, 8);
        break;
    case TRY_DEALLOC_ARRAY:
        (void)st.try_deallocate_array(DUMMY, 3, 8, 8);
        break;
    case MAX_NODE:
        (void)st.max_node_size();
        break;
    case MAX_ARRAY:
        (void)st.max_array_size();
        break;
    case MAX_ALIGN:
        (void)st.max_alignment();
        break;
    case PROXY:
    {
        auto  p = st.lock();
        void* n = p->allocate_node(8, 8);
        ret.push_back(n);
        p->deallocate_node(n, 8, 8);
        break;
    }
    case PROXY_CONST:
    {
        const St& c = st;
        auto      p = c.lock();
        (void)p->max_node_size();
        (void)p->max_alignment();
        break;
    }
    case SELF_NESTED:
    {
        auto p = st.lock();
        (void)p->max_node_size();
        auto q = st.lock(); // never acquired
        (void)q->max_node_size();
        break;
    }
    case SELF_RACY:
        (void)st.get_allocator().max_node_size();
        break;
    case PROXY_MOVED:
    {
        using proxy = decltype(st.lock());
        std::optional<proxy> dst;
        {
            proxy src = st.lock();
            dst.emplace(std::move(src));
        } // the moved-from proxy dies here, the new one is still in use
        void* n = (*dst)->allocate_node(8, 8);
        ret.push_back(n);
        (*dst)->deallocate_node(n, 8, 8);
        break;
    }
    }
}

// A type-erased HANDLE created from the (lvalue) thread safe storage object: any_allocator_reference href(st).
// It must refer to the storage object itself, so that calls through it take the storage's mutex; threads with an odd
// id work through the handle, the others use the storage object directly.
template <class Base>
struct handle_holder : Base
{
    fm::any_allocator_reference href;
    explicit handle_holder(obs* o) : Base(o), href(this->st) {}
};
template <class H>
void run_op(H& h, int, int op, std::vector<void*>& ret)
{
    do_op(h.st, op, ret);
}
template <class Base>
void run_op(handle_holder<Base>& h, int thread, int op, std::vector<void*>& ret)
{
    if (thread & 1)
        do_op(h.href, op, ret);
    else
        do_op(h.st, op, ret);
}

using program = std::vector<std::vector<int>>;

// tracked_allocator with the stateful tracker: entries with state = tracker callbacks (none for the max_* queries)
static const int TK_SF_ENTRIES[N_ALL_OPS] = {1, 1, 1, 1, 1, 1, 1, 1, 0, 0, 0, 2, 0, 2, 0, 0};
static int       expected_entries(const program& p, bool tracker_is_state = false)
{
    int n = 0;
    for (auto& t : p)
        for (int o : t)
            n += tracker_is_state ? TK_SF_ENTRIES[o] : OP_ENTRIES[o];
    return n;
}
static std::string prog_json(const program& p, bool names)
{
    jarr a;
    for (auto& t : p)
    {
        jarr b;
        for (int o : t)
            names ? b.str(OP_NAME[o]) : b.raw(std::to_string(o));
        a.raw(b.done());
    }
    return a.done();
}

//=== tiny reader for the replay value ===//
static std::string json_str(const std::string& j, const std::string& key, const std::string& d)
{
    auto p = j.find("\"" + key + "\"");
    if (p == std::string::npos)
        return d;
    p = j.find(':', p);
    p = j.find('"', p);
    auto e = j.find('"', p + 1);
    return j.substr(p + 1, e - p - 1);
}
// parses [1,2] or [[1,2],[3]] following "key":
static std::vector<std::vector<int>> json_ints(const std::string& j, const std::string& key)
{
    std::vector<std::vector<int>> r;
    auto                          p = j.find("\"" + key + "\"");
    if (p == std::string::npos)
        return r;
    p = j.find('[', p);
    if (p == std::string::npos)
        return r;
    std::size_t q = p + 1;
    while (q < j.size() && (j[q] == ' ' || j[q] == '\n'))
        ++q;
    bool nested = q < j.size() && j[q] == '[';
    if (!nested)
        r.emplace_back();
    int depth = 0;
    for (; p < j.size(); ++p)
    {
        char c = j[p];
        if (c == '[')
        {
            if (++depth == 2 && nested)
                r.emplace_back();
        }
        else if (c == ']')
        {
            if (--depth == 0)
                break;
        }
        else if (c >= '0' && c <= '9')
        {
            int v = 0;
            while (p < j.size() && j[p] >= '0' && j[p] <= '9')
                v = v * 10 + (j[p++] - '0');
            --p;
            r.back().push_back(v);
        }
    }
    return r;
}

struct argmap
{
    std::map<std::string, std::string> m;
    argmap(int argc, char** argv)
    {
        for (int i = 1; i < argc; ++i)
        {
            std::string a = argv[i];
            if (a.rfind("--", 0) == 0)
            {
                std::string k = a.substr(2), v = "1";
                if (i + 1 < argc && std::string(argv[i + 1]).rfind("--", 0) != 0)
                    v = argv[++i];
                m[k] = v;
            }
        }
    }
    std::string s(const std::string& k, const std::string& d = "") const
    {
        auto i = m.find(k);
        return i == m.end() ? d : i->second;
    }
    long n(const std::string& k, long d) const
    {
        auto i = m.find(k);
        return i == m.end() ? d : std::atol(i->second.c_str());
    }
    bool has(const std::string& k) const
    {
        return m.count(k) != 0;
    }
};

//=== program enumeration ===//
// 2x1: T0=[a] T1=[b]               all multisets {a,b}                 (thread symmetry)
// 2x2: T0=[a,b] T1=[b,a]           all ordered pairs (a,b)
// 3x1: T0=[a] T1=[b] T2=[c]        all multisets {a,b,c}
// 3x2: quick: T0=[a,b] T1=[b,a] T2=[a,b] for all ordered pairs (a,b); thorough: T0=[a,b] T1=[b,c] T2=[c,a] all a<=b<=c
// 4x1 / 2x3: thorough extras (see below)
static std::vector<program> programs(const std::string& shape, bool thorough)
{
    std::vector<program> r;
    const int            N = N_OPS;
    if (shape == "2x1")
    {
        for (int a = 0; a < N; ++a)
            for (int b = a; b < N; ++b)
                r.push_back({{a}, {b}});
    }
    else if (shape == "2x2")
    {
        for (int a = 0; a < N; ++a)
            for (int b = 0; b < N; ++b)
                r.push_back({{a, b}, {b, a}});
    }
    else if (shape == "3x1")
    {
        for (int a = 0; a < N; ++a)
            for (int b = a; b < N; ++b)
                for (int c = b; c < N; ++c)
                    r.push_back({{a}, {b}, {c}});
    }
    else if (shape == "4x1") // T0=[a] T1=[b] T2=[c] T3=[d], all multisets
    {
        for (int a = 0; a < N; ++a)
            for (int b = a; b < N; ++b)
                for (int c = b; c < N; ++c)
                    for (int d = c; d < N; ++d)
                        r.push_back({{a}, {b}, {c}, {d}});
    }
    else if (shape == "2x3") // T0=[a,b,c] T1=[c,b,a], all ordered triples
    {
        for (int a = 0; a < N; ++a)
            for (int b = 0; b < N; ++b)
                for (int c = 0; c < N; ++c)
                    r.push_back({{a, b, c}, {c, b, a}});
    }
    else if (shape == "3x2")
    {
        if (!thorough)
        {
            for (int a = 0; a < N; ++a)
                for (int b = 0; b < N; ++b)
                    r.push_back({{a, b}, {b, a}, {a, b}});
        }
        else
            for (int a = 0; a < N; ++a)
                for (int b = a; b < N; ++b)
                    for (int c = b; c < N; ++c)
                        r.push_back({{a, b}, {b, c}, {c, a}});
    }
    return r;
}

struct violation
{
    std::string tag, detail;
};

#ifndef TSAFE_TSAN
//=====================================================================================================
// deciding run: scheduler
//=====================================================================================================
extern "C" void __wrap_abort(void)
{
    if (sched::in_execution())
    {
        if (G)
            G->aborted = true;
        sched::kill_self();
    }
    __real_abort();
    for (;;)
    {
    }
}

struct pworld_base : sched::world
{
    obs                o;
    program            prog;
    std::vector<void*> ret[sched::max_threads];
    std::unique_ptr<imutex> process_wide_mutex; // what the empty Mutex type locks (one per execution)
    int                threads() override
    {
        return int(prog.size());
    }
    sched::u64 state_hash() override
    {
        sched::u64 h = sched::u64(o.counter) | (sched::u64(o.in_call) << 16) | (sched::u64(o.entries + 31 * o.aux_entries) << 24);
        int        owner = o.mutexes.empty() ? -7 : o.mutexes[0]->owner;
        return h ^ (sched::u64(owner + 8) << 40);
    }
};

template <class Holder>
struct pworld : pworld_base
{
    std::unique_ptr<Holder> h;
    explicit pworld(const program& p)
    {
        prog = p;
        G    = &o;
        if (std::is_same<typename Holder::mutex_type, emutex>::value)
        {
            process_wide_mutex.reset(new imutex); // registers itself in o.mutexes
            g_emutex_target = process_wide_mutex.get();
        }
        h.reset(new Holder(&o)); // constructs the allocator_storage (and with it its mutex) outside the scheduler
    }
    void run_thread(int id) override
    {
        for (int op : prog[std::size_t(id)])
            run_op(*h, id, op, ret[id]);
    }
};

struct run_cfg
{
    std::string storage = "direct", alloc = "stateful", mutex = "inst";
    // alloc: stateful | stateless | empty (empty class, is_stateful) | tracked-sf (stateful tracker over stateless
    //        allocator) | tracked-es (empty tracker over stateful allocator) | fallback-sf (fallback_allocator<stateless
    //        default, stateful fallback>) | fallback-fs (the reverse) | adapter (allocator_adapter<stateful>) | handle (stateful;
    //        odd threads work through an any_allocator_reference made from the storage object);  mutex: inst | empty
};

// allocator_adapter flavour: behind reference_storage and the type-erased reference. (Embedded directly,
// thread_safe_allocator<allocator_adapter<A>, M> inherits from two mutex_storage<> bases; on a tree where both become
// mutex_storage<no_mutex> that is ill-formed, and a build failure is a poorer verdict than a schedule.)
template <template <class, class> class Holder>
struct adapter_maker
{
    static pworld_base* make(const program& p)
    {
        return new pworld<Holder<adp, imutex>>(p);
    }
};
template <>
struct adapter_maker<direct_holder>
{
    static pworld_base* make(const program&)
    {
        std::fprintf(stderr, "--alloc adapter is run with --storage ref|any\n");
        std::exit(2);
    }
};
template <template <class, class> class Holder>
static pworld_base* make_world_for(const run_cfg& c, const program& p)
{
    if (c.mutex == "empty")
    {
        if (c.alloc == "stateful")
            return new pworld<Holder<ialloc, emutex>>(p);
        std::fprintf(stderr, "the empty mutex type is only combined with --alloc stateful\n");
        std::exit(2);
    }
    if (c.alloc == "stateful")
        return new pworld<Holder<ialloc, imutex>>(p);
    if (c.alloc == "stateless")
        return new pworld<Holder<salloc, imutex>>(p);
    if (c.alloc == "empty")
        return new pworld<Holder<ealloc, imutex>>(p);
    if (c.alloc == "tracked-sf")
        return new pworld<Holder<tk_sf, imutex>>(p);
    if (c.alloc == "tracked-es")
        return new pworld<Holder<tk_es, imutex>>(p);
    if (c.alloc == "fallback-sf")
        return new pworld<Holder<fb_sf, imutex>>(p);
    if (c.alloc == "adapter")
        return adapter_maker<Holder>::make(p);
    if (c.alloc == "handle")
        return new pworld<handle_holder<Holder<ialloc, imutex>>>(p);
    if (c.alloc == "fallback-fs")
        return new pworld<Holder<fb_fs, imutex>>(p);
    std::fprintf(stderr, "unknown alloc %s\n", c.alloc.c_str());
    std::exit(2);
}
static pworld_base* make_world(const run_cfg& c, const program& p)
{
    if (c.storage == "direct")
        return make_world_for<direct_holder>(c, p);
    if (c.storage == "ref")
        return make_world_for<ref_holder>(c, p);
    if (c.storage == "any")
        return make_world_for<any_holder>(c, p);
    std::fprintf(stderr, "unknown storage %s\n", c.storage.c_str());
    std::exit(2);
}

// the oracle; everything it demands is a sentence of C13
static void judge(const run_cfg& c, pworld_base& w, const sched::run_result& r, std::vector<violation>& v,
                  std::vector<std::string>& herr)
{
    obs& o        = w.o;
    bool stateful = c.alloc != "stateless"; // "stateful" and "empty" (empty class, is_stateful = true_type)
    if (r.diverged)
        herr.push_back("schedule diverged on replay");
    if (r.horizon)
        herr.push_back("horizon reached (there is no loop in these programs)");
    if (r.threw)
        v.push_back({"exception", "an exception escaped a thread body"});
    if (o.aborted)
        v.push_back({"abort", "the library called abort() (assertion / unreachable) inside a forwarding member"});
    if (r.deadlock)
    {
        std::string who;
        for (int i = 0; i < w.threads(); ++i)
            if ((r.blocked_at_end >> i) & 1u)
                who += fmt(" T%d", i);
        int owner = o.mutexes.empty() ? -9 : o.mutexes[0]->owner;
        v.push_back({"deadlock", "no enabled thread; blocked in lock():" + who + fmt("; mutex owner T%d", owner)});
    }
    if (stateful)
    {
        if (o.mutexes.size() > 1)
            herr.push_back(fmt("expected exactly one instrumented mutex in the allocator_storage object, found %zu",
                               o.mutexes.size()));
        if (o.nolock)
            v.push_back({"no-lock", fmt("%ld entr%s into the wrapped allocator while the mutex was not held by the calling "
                                        "thread (first: %s)%s",
                                        o.nolock, o.nolock == 1 ? "y" : "ies",
                                        o.nolock_site ? o.nolock_site : OP_NAME[o.first_nolock],
                                        o.mutexes.empty()
                                            ? "; the allocator_storage object embeds no Mutex at all although the allocator is stateful"
                                            : (c.mutex == "empty" && o.lock_calls == 0
                                                   ? "; the user's Mutex type (an empty class locking a process-wide mutex) was never called"
                                                   : ""))});
        if (o.overlap)
            v.push_back({"overlap", fmt("two threads were inside the wrapped allocator at once (%ld times, first in %s)",
                                        o.overlap, OP_NAME[o.first_overlap])});
    }
    else
    {
        if (c.storage != "any" && (o.lock_calls || !o.mutexes.empty()))
            v.push_back({"stateless-locked", fmt("stateless allocator: %ld lock calls, %zu mutex objects (must be 0 / 0)",
                                                 o.lock_calls, o.mutexes.size())});
    }
    if (!r.complete || o.aborted)
        return; // final-state clauses need a complete execution
    int exp = expected_entries(w.prog, c.alloc == "tracked-sf");
    if (o.entries != exp)
        herr.push_back(fmt("program makes %d calls but %ld reached the wrapped allocator", exp, o.entries));
    if (stateful)
    {
        if (o.counter != o.entries)
            v.push_back({"lost-update", fmt("state of the wrapped allocator after %ld calls is %ld (no sequential order of the "
                                            "calls gives that)",
                                            o.entries, o.counter)});
        std::set<void*> seen;
        bool            dup = false;
        for (int i = 0; i < w.threads(); ++i)
            for (void* p : w.ret[i])
                dup = dup || !seen.insert(p).second;
        if (dup)
            v.push_back({"c01-duplicate", "two allocations made through the wrapper returned the same address"});
        for (auto m : o.mutexes)
        {
            if (m->owner != sched::none)
                v.push_back({"mutex-left-locked", fmt("mutex still owned by T%d after all threads finished", m->owner)});
            if (m->locks != m->unlocks)
                v.push_back({"lock-unlock-mismatch", fmt("%llu lock vs %llu unlock operations", (unsigned long long)m->locks,
                                                         (unsigned long long)m->unlocks)});
            if (m->bad_unlocks)
                v.push_back({"unlock-by-non-owner", fmt("%llu unlock() calls by a thread that did not own the mutex",
                                                        (unsigned long long)m->bad_unlocks)});
        }
    }
}

static std::string tags_of(const std::vector<violation>& v)
{
    std::string s;
    for (auto& x : v)
        s += x.tag + ";";
    return s;
}

static std::string case_json(const run_cfg& c, const program& p, const std::vector<sched::u8>& sch)
{
    jarr s;
    for (auto x : sch)
        s.raw(std::to_string(int(x)));
    return jobj()
        .str("storage", c.storage)
        .str("alloc", c.alloc)
        .str("mutex", c.mutex)
        .raw("prog", prog_json(p, false))
        .raw("calls", prog_json(p, true))
        .raw("schedule", s.done())
        .done();
}

static int replay_case(const std::string& js)
{
    run_cfg c;
    c.storage = json_str(js, "storage", "direct");
    c.alloc   = json_str(js, "alloc", "stateful");
    c.mutex   = json_str(js, "mutex", "inst");
    program p = json_ints(js, "prog");
    auto    s = json_ints(js, "schedule");
    std::vector<sched::u8> prefix;
    if (!s.empty())
        for (int x : s[0])
            prefix.push_back(sched::u8(x));
    std::printf("storage=%s alloc=%s mutex=%s program=%s\n", c.storage.c_str(), c.alloc.c_str(), c.mutex.c_str(), prog_json(p, true).c_str());
    auto                     w = make_world(c, p);
    auto                     r = sched::run(*w, prefix);
    std::vector<violation>   v;
    std::vector<std::string> herr;
    if (r.diverged)
    {
        // the recorded schedule does not exist in this tree (the code between the scheduling points changed):
        // decide the program itself instead - enumerate all of its schedules and show the first violating one
        std::printf("the recorded schedule is not feasible on this tree; enumerating all schedules of the program instead\n");
        sched::explore_options eo;
        eo.max_preemptions = 1000;
        eo.max_steps       = 400;
        eo.deadline        = now_s() + 120;
        std::vector<sched::u8> found;
        bool                   have = false;
        auto st = sched::explore(
            eo, [&] { return static_cast<sched::world*>(make_world(c, p)); },
            [&](sched::world& w0, const sched::run_result& r0, const sched::item&) {
                std::vector<violation>   v0;
                std::vector<std::string> h0;
                judge(c, static_cast<pworld_base&>(w0), r0, v0, h0);
                if (v0.empty() && h0.empty())
                    return true;
                found = sched::choices_of(r0);
                have  = true;
                return false;
            });
        std::printf("%llu schedules executed%s\n", (unsigned long long)st.executions, have ? ", one violates:" : ", none violates");
        if (!have)
        {
            std::fflush(stdout);
            std::_Exit(st.finished ? 0 : 3);
        }
        prefix = found;
        w      = make_world(c, p);
        r      = sched::run(*w, prefix);
    }
    judge(c, *w, r, v, herr);
    for (std::size_t i = 0; i < r.trace.size(); ++i)
    {
        auto& st = r.trace[i];
        std::printf("  step %2zu: run T%d from '%s'%s   (enabled:", i, int(st.chosen), st.tag, st.cost ? " [preemption]" : "");
        for (int t = 0; t < 8; ++t)
            if ((st.enabled >> t) & 1u)
                std::printf(" T%d", t);
        std::printf(")\n");
    }
    std::printf("end: %s, %d preemptions; allocator entries=%ld state=%ld, unlocked entries=%ld, overlaps=%ld, lock calls=%ld\n",
                r.complete ? "complete" : (r.deadlock ? "DEADLOCK" : "incomplete"), r.preemptions, w->o.entries, w->o.counter,
                w->o.nolock, w->o.overlap, w->o.lock_calls);
    for (auto m : w->o.mutexes)
        std::printf("mutex: owner=%d locks=%llu unlocks=%llu bad_unlocks=%llu\n", m->owner, (unsigned long long)m->locks,
                    (unsigned long long)m->unlocks, (unsigned long long)m->bad_unlocks);
    for (auto& e : herr)
        std::printf("HARNESS ERROR: %s\n", e.c_str());
    for (auto& x : v)
        std::printf("VIOLATED [%s] %s\n", x.tag.c_str(), x.detail.c_str());
    if (v.empty())
        std::printf("no violation\n");
    std::fflush(stdout);
    std::_Exit(v.empty() ? (herr.empty() ? 0 : 3) : 1);
}

//=====================================================================================================
// "stateless allocators ... are safe to use concurrently as they are": the only shared state of the
// stateless low-level allocators is the global leak balance global_leak_checker_impl<...>::allocated_.
// Built with -DTSAFE_LL the harness is linked with src/{heap,malloc,new}_allocator.cpp and
// src/virtual_memory.cpp compiled from the working tree with engine/atomic_shim.hpp force-included (in front
// of libfm.a): every std::atomic operation of those TUs calls verif_atomic_point() first, which is a
// scheduling point here. All schedules of small programs of allocate_node;deallocate_node pairs are
// enumerated; after every schedule the balance must be back where it started.
//=====================================================================================================
extern "C" void verif_atomic_point(const char* what, const void*, int)
{
    if (sched::in_execution())
        sched::point(what);
}

#if defined(TSAFE_LL) && FOONATHAN_MEMORY_DEBUG_LEAK_CHECK
#include <foonathan/memory/heap_allocator.hpp>
#include <foonathan/memory/malloc_allocator.hpp>
#include <foonathan/memory/new_allocator.hpp>
#include <foonathan/memory/virtual_memory.hpp>

template <class A, class Handler>
struct ll_kind
{
    using alloc   = A;
    using checker = fm::detail::global_leak_checker_impl<Handler>;
    static std::ptrdiff_t balance()
    {
        return checker::allocated_.load();
    }
};
using ll_heap   = ll_kind<fm::heap_allocator, fm::detail::lowlevel_allocator_leak_handler<fm::detail::heap_allocator_impl>>;
using ll_malloc = ll_kind<fm::malloc_allocator, fm::detail::lowlevel_allocator_leak_handler<fm::detail::malloc_allocator_impl>>;
using ll_new    = ll_kind<fm::new_allocator, fm::detail::lowlevel_allocator_leak_handler<fm::detail::new_allocator_impl>>;
using ll_virt   = ll_kind<fm::virtual_memory_allocator, fm::detail::virtual_memory_allocator_leak_handler>;
static_assert(!fm::allocator_traits<fm::heap_allocator>::is_stateful::value
                  && !fm::allocator_traits<fm::virtual_memory_allocator>::is_stateful::value,
              "low-level allocators are stateless");

// The process-wide new-handler is shared state of new_allocator (its retry protocol reads it): std::get_new_handler /
// std::set_new_handler are defined here (the executable's definitions win over libstdc++'s) with a scheduling point in
// front, and operator new(nothrow) fails once for a thread that asked for it. A handler that "frees memory" is installed:
// every request must then succeed in every schedule and the handler must still be installed afterwards.
static std::atomic<std::new_handler> g_new_handler{nullptr};
static std::atomic<long>             g_nh_calls{0}, g_new_failures{0};
static thread_local int              t_fail_new = 0;
namespace std
{
    new_handler set_new_handler(new_handler h) noexcept
    {
        if (sched::in_execution())
            sched::point("new_handler.exchange");
        return g_new_handler.exchange(h);
    }
    new_handler get_new_handler() noexcept
    {
        if (sched::in_execution())
            sched::point("new_handler.load");
        return g_new_handler.load();
    }
} // namespace std
void* operator new(std::size_t n, const std::nothrow_t&) noexcept
{
    if (t_fail_new)
    {
        t_fail_new = 0;
        ++g_new_failures;
        return nullptr;
    }
    return std::malloc(n ? n : 1);
}
static void ll_freeing_handler()
{
    ++g_nh_calls; // "frees memory": the failure was one-shot, the retry succeeds
}

struct ll_world_base : pworld_base
{
    std::ptrdiff_t start = 0;
    long           atomic_points = 0;
    virtual std::ptrdiff_t balance() = 0;
    virtual void           extra_judge(std::vector<violation>&) {}
};
// op 0: own allocator object (they are all the same stateless thing); op 1: through ONE shared thread_safe_allocator
template <class K>
struct ll_world : ll_world_base
{
    std::unique_ptr<fm::thread_safe_allocator<typename K::alloc, imutex>> shared;
    explicit ll_world(const program& p)
    {
        prog = p;
        G    = &o;
        shared.reset(new fm::thread_safe_allocator<typename K::alloc, imutex>(typename K::alloc()));
        start = K::balance();
        g_new_handler.store(ll_freeing_handler);
        g_nh_calls     = 0;
        g_new_failures = 0;
    }
    std::ptrdiff_t balance() override
    {
        return K::balance();
    }
    sched::u64 state_hash() override
    {
        return sched::u64(K::balance() - start) * 1000003u + (g_new_handler.load() == ll_freeing_handler ? 0u : 7u)
               + sched::u64(g_nh_calls.load()) * 131u + sched::u64(g_new_failures.load()) * 17u;
    }
    void run_thread(int id) override
    {
        for (int op : prog[std::size_t(id)])
        {
            if (op == 0 || op == 2)
            {
                if (op == 2)
                    t_fail_new = 1; // the next operator new(nothrow) of this thread fails once
                typename K::alloc a;
                void*             n = a.allocate_node(64, 8);
                a.deallocate_node(n, 64, 8);
                t_fail_new = 0;
            }
            else
            {
                void* n = shared->allocate_node(64, 8);
                shared->deallocate_node(n, 64, 8);
            }
        }
    }
};
//=== the library's five process-wide handler registries (src/error.cpp, src/debugging.cpp compiled with the atomic shim) ===//
// Concurrent registrations: every set_*_handler() returns the handler it replaced. With n threads registering n different
// handlers on top of a known base handler, the n returned values plus the handler installed at the end are a permutation of
// {base, h1..hn} in every schedule (an exchange); a load followed by a store hands the same previous handler to two threads
// and loses a registered handler.
#include <foonathan/memory/debugging.hpp>
#include <foonathan/memory/error.hpp>
template <int I> static void hr_oom(const fm::allocator_info&, std::size_t) {}
template <int I> static void hr_bad(const fm::allocator_info&, std::size_t, std::size_t) {}
template <int I> static void hr_leak(const fm::allocator_info&, std::ptrdiff_t) {}
template <int I> static void hr_ptr(const fm::allocator_info&, const void*) {}
template <int I> static void hr_ovf(const void*, std::size_t, const void*) {}
static const char* const HR_NAMES[] = {"out_of_memory", "bad_allocation_size", "leak", "invalid_pointer", "buffer_overflow"};
typedef void (*hr_any)();
static hr_any hr_handler(int reg, int i)
{
#define HR_PICK(F) (i == 0 ? (hr_any)F<0> : i == 1 ? (hr_any)F<1> : i == 2 ? (hr_any)F<2> : (hr_any)F<3>)
    switch (reg)
    {
    case 0: return HR_PICK(hr_oom);
    case 1: return HR_PICK(hr_bad);
    case 2: return HR_PICK(hr_leak);
    case 3: return HR_PICK(hr_ptr);
    default: return HR_PICK(hr_ovf);
    }
#undef HR_PICK
}
static hr_any hr_set(int reg, hr_any h)
{
    switch (reg)
    {
    case 0: return (hr_any)fm::out_of_memory::set_handler((fm::out_of_memory::handler)h);
    case 1: return (hr_any)fm::bad_allocation_size::set_handler((fm::bad_allocation_size::handler)h);
    case 2: return (hr_any)fm::set_leak_handler((fm::leak_handler)h);
    case 3: return (hr_any)fm::set_invalid_pointer_handler((fm::invalid_pointer_handler)h);
    default: return (hr_any)fm::set_buffer_overflow_handler((fm::buffer_overflow_handler)h);
    }
}
struct hr_world : ll_world_base
{
    hr_any prev[4] = {nullptr, nullptr, nullptr, nullptr};
    int    reg     = 0;
    explicit hr_world(const program& p)
    {
        prog = p;
        G    = &o;
        reg  = p[0][0] - 10;
        g_new_handler.store(ll_freeing_handler);
        hr_set(reg, hr_handler(reg, 0)); // base handler
    }
    ~hr_world() override {}
    std::ptrdiff_t balance() override
    {
        return 0;
    }
    sched::u64 state_hash() override
    {
        sched::u64 h = 1469598103934665603ull;
        for (auto p : prev)
            h = (h ^ sched::u64(reinterpret_cast<std::uintptr_t>(p))) * 1099511628211ull;
        return h;
    }
    void run_thread(int id) override
    {
        for (int op : prog[std::size_t(id)])
            prev[id] = hr_set(op - 10, hr_handler(op - 10, id + 1));
    }
    void extra_judge(std::vector<violation>& v) override
    {
        int    n       = int(prog.size());
        hr_any current = hr_set(reg, hr_handler(reg, 0));
        int    seen[4] = {0, 0, 0, 0};
        auto   count   = [&](hr_any h) {
            for (int i = 0; i <= n; ++i)
                if (h == hr_handler(reg, i))
                    ++seen[i];
        };
        for (int t = 0; t < n; ++t)
            count(prev[t]);
        count(current);
        for (int i = 0; i <= n; ++i)
            if (seen[i] != 1)
            {
                v.push_back({std::string("handler-registration-lost/") + HR_NAMES[reg],
                             fmt("%d threads registered %d different %s handlers on top of a base handler: handler #%d (0 = base) was handed back / is "
                                 "installed %d time(s) instead of exactly once: a registration was lost (the registry is not updated with one atomic exchange)",
                                 n, n, HR_NAMES[reg], i, seen[i])});
                break;
            }
    }
};
static std::vector<program> hr_programs()
{
    std::vector<program> r;
    for (int reg = 0; reg < 5; ++reg)
    {
        r.push_back({{10 + reg}, {10 + reg}});
        r.push_back({{10 + reg}, {10 + reg}, {10 + reg}});
    }
    return r;
}

static const char* const LL_KINDS[] = {"heap_allocator", "malloc_allocator", "new_allocator", "virtual_memory_allocator", "handler_registries"};
static ll_world_base* make_ll(const std::string& kind, const program& p)
{
    if (kind == LL_KINDS[4])
        return new hr_world(p);
    if (kind == LL_KINDS[0])
        return new ll_world<ll_heap>(p);
    if (kind == LL_KINDS[1])
        return new ll_world<ll_malloc>(p);
    if (kind == LL_KINDS[2])
        return new ll_world<ll_new>(p);
    return new ll_world<ll_virt>(p);
}
static std::string ll_prog_names(const program& p)
{
    jarr a;
    for (auto& t : p)
    {
        jarr b;
        for (int o : t)
            b.str(o >= 10 ? std::string("register a new ") + HR_NAMES[o - 10] + " handler"
                  : o == 2 ? "own object, operator new fails once, a new-handler that frees memory is installed: allocate_node;deallocate_node"
                  : o      ? "shared thread_safe_allocator: allocate_node;deallocate_node"
                           : "own object: allocate_node;deallocate_node");
        a.raw(b.done());
    }
    return a.done();
}
static void judge_ll(const std::string& kind, ll_world_base& w, const sched::run_result& r, std::vector<violation>& v,
                     std::vector<std::string>& herr)
{
    if (r.diverged)
        herr.push_back("schedule diverged on replay");
    if (r.horizon)
        herr.push_back("horizon reached");
    if (r.threw)
        v.push_back({"exception", "an exception escaped a thread body"});
    if (w.o.aborted)
        v.push_back({"abort", "the library called abort()"});
    if (r.deadlock)
        v.push_back({"deadlock", "no enabled thread"});
    if (w.o.lock_calls || !w.o.mutexes.empty())
        v.push_back({"stateless-locked", fmt("%s is stateless: %ld lock calls, %zu mutex objects (must be 0 / 0)", kind.c_str(),
                                             w.o.lock_calls, w.o.mutexes.size())});
    if (r.complete && g_new_handler.load() != ll_freeing_handler)
        v.push_back({"new-handler-lost", fmt("the installed new-handler was replaced (%s) by concurrent requests to %s: the process-wide handler is "
                                             "shared state that a stateless allocator must not modify", g_new_handler.load() ? "by another" : "uninstalled", kind.c_str())});
    if (r.complete && !w.o.aborted)
        w.extra_judge(v);
    if (r.complete && !w.o.aborted)
    {
        std::ptrdiff_t d = w.balance() - w.start;
        if (d != 0)
            v.push_back({"leak-balance", fmt("every node was returned, yet the shared leak balance of %s moved by %td bytes (an update "
                                             "of the global counter was lost): used concurrently without a lock it is not safe as it is",
                                             kind.c_str(), d)});
    }
}
static std::string ll_case_json(const std::string& kind, const program& p, const std::vector<sched::u8>& sch)
{
    jarr s;
    for (auto x : sch)
        s.raw(std::to_string(int(x)));
    return jobj().boolean("ll", true).str("kind", kind).raw("prog", prog_json(p, false)).raw("calls", ll_prog_names(p)).raw("schedule", s.done()).done();
}
static std::vector<program> ll_programs_new_failure()
{
    // operator new fails in two / three threads at about the same time (new_allocator only)
    return {{{2}, {2}}, {{2}, {0}}, {{2, 2}, {2}}, {{2}, {2}, {2}}};
}
static std::vector<program> ll_programs()
{
    std::vector<program> r;
    for (int a = 0; a < 2; ++a)
        for (int b = a; b < 2; ++b)
            r.push_back({{a}, {b}});
    for (int a = 0; a < 2; ++a)
        for (int b = 0; b < 2; ++b)
            r.push_back({{a, b}, {b, a}});
    for (int a = 0; a < 2; ++a)
        for (int b = a; b < 2; ++b)
            for (int c = b; c < 2; ++c)
                r.push_back({{a}, {b}, {c}});
    return r;
}

// explores all schedules of (kind, p); returns the first violating complete schedule (if any) in `found`
template <class OnExec>
static sched::explore_stats ll_explore(const std::string& kind, const program& p, int bound, OnExec on)
{
    sched::explore_options eo;
    eo.max_preemptions = bound;
    eo.max_steps       = 400;
    eo.deadline        = now_s() + 600;
    return sched::explore(
        eo, [&] { return static_cast<sched::world*>(make_ll(kind, p)); },
        [&](sched::world& w0, const sched::run_result& r, const sched::item&) { return on(static_cast<ll_world_base&>(w0), r); });
}

static int ll_replay(const std::string& js)
{
    std::string kind = json_str(js, "kind", LL_KINDS[0]);
    program     p    = json_ints(js, "prog");
    auto        s    = json_ints(js, "schedule");
    std::vector<sched::u8> prefix;
    if (!s.empty())
        for (int x : s[0])
            prefix.push_back(sched::u8(x));
    std::printf("%s, program=%s\n", kind.c_str(), ll_prog_names(p).c_str());
    auto w = make_ll(kind, p);
    auto r = sched::run(*w, prefix);
    if (r.diverged)
    {
        std::printf("the recorded schedule is not feasible on this tree; enumerating all schedules of the program instead\n");
        bool                   have = false;
        std::vector<sched::u8> found;
        auto st = ll_explore(kind, p, 1000, [&](ll_world_base& w1, const sched::run_result& r1) {
            std::vector<violation>   v1;
            std::vector<std::string> h1;
            judge_ll(kind, w1, r1, v1, h1);
            if (v1.empty() && h1.empty())
                return true;
            have  = true;
            found = sched::choices_of(r1);
            return false;
        });
        std::printf("%llu schedules executed%s\n", (unsigned long long)st.executions, have ? ", one violates:" : ", none violates");
        if (!have)
        {
            std::fflush(stdout);
            std::_Exit(st.finished ? 0 : 3);
        }
        w = make_ll(kind, p);
        r = sched::run(*w, found);
    }
    std::vector<violation>   v;
    std::vector<std::string> herr;
    judge_ll(kind, *w, r, v, herr);
    std::printf("schedule: %s\nleak balance: %td at the start, %td at the end\n", sched::format_schedule(r).c_str(), w->start, w->balance());
    for (auto& e : herr)
        std::printf("HARNESS ERROR: %s\n", e.c_str());
    for (auto& x : v)
        std::printf("VIOLATED [%s] %s\n", x.tag.c_str(), x.detail.c_str());
    if (v.empty())
        std::printf("no violation\n");
    std::fflush(stdout);
    std::_Exit(v.empty() ? (herr.empty() ? 0 : 3) : 1);
}

static int ll_main(const argmap& a)
{
    double                   t0 = now_s();
    sched::pin_to_free_cpu();
    sched::u64               executions = 0, transitions = 0, states = 0, nprogs = 0, all_sched = 0, atomic_steps = 0;
    std::vector<sched::u64>  by_pre;
    std::vector<std::string> herr_list;
    std::set<std::string>    classes;
    std::map<std::string, int> viol_count;
    std::map<std::string, long> atomic_by_kind;
    jarr                     samples, viols;
    auto                     progs0 = ll_programs();
    for (const char* kind : LL_KINDS)
    {
        auto progs = progs0;
        if (std::string(kind) == "handler_registries")
            progs = hr_programs();
        if (std::string(kind) == "new_allocator")
            for (auto& q : ll_programs_new_failure())
                progs.push_back(q);
        for (std::size_t pi = 0; pi < progs.size(); ++pi)
        {
            const program& p = progs[pi];
            ++nprogs;
            bool sampled = false;
            auto st      = ll_explore(kind, p, 1000, [&](ll_world_base& w, const sched::run_result& r) {
                std::vector<violation>   v;
                std::vector<std::string> herr;
                judge_ll(kind, w, r, v, herr);
                for (auto& s : r.trace)
                    if (std::strncmp(s.tag, "atomic.", 7) == 0)
                    {
                        ++atomic_steps;
                        ++atomic_by_kind[kind];
                    }
                classes.insert(fmt("%s|%zu|%d", kind, pi, r.preemptions));
                if (!sampled && pi == 4 && r.preemptions == 2)
                {
                    sampled = true;
                    samples.raw(jobj().str("allocator", kind).raw("program", ll_prog_names(p)).str("schedule", sched::format_schedule(r)).num("leak_balance_change", (long long)(w.balance() - w.start)).done());
                }
                for (auto& e : herr)
                    if (herr_list.size() < 20)
                        herr_list.push_back(std::string(kind) + ": " + e);
                if (v.empty())
                    return herr.empty();
                auto                     sch = sched::choices_of(r);
                auto                     w2  = make_ll(kind, p);
                auto                     r2  = sched::run(*w2, sch);
                std::vector<violation>   v2;
                std::vector<std::string> herr2;
                judge_ll(kind, *w2, r2, v2, herr2);
                if (tags_of(v) != tags_of(v2))
                    herr_list.push_back(std::string(kind) + ": violation not reproducible: '" + tags_of(v) + "' vs '" + tags_of(v2) + "'");
                else
                    for (auto& x : v)
                        if (viol_count[x.tag]++ < 4)
                            viols.raw(jobj()
                                          .str("tag", x.tag)
                                          .str("detail", x.detail + " | program " + ll_prog_names(p) + " | schedule " + sched::format_schedule(r))
                                          .raw("input", ll_case_json(kind, p, sch))
                                          .done());
                if (r2.clean)
                    delete w2;
                return false;
            });
            executions += st.executions;
            transitions += st.transitions;
            states += st.states;
            if (st.all_schedules)
                ++all_sched;
            if (by_pre.size() < st.by_preemptions.size())
                by_pre.resize(st.by_preemptions.size());
            for (std::size_t i = 0; i < st.by_preemptions.size(); ++i)
                by_pre[i] += st.by_preemptions[i];
            if (st.divergences)
                herr_list.push_back(std::string(kind) + ": " + st.stop_reason);
        }
    }
    for (const char* kind : LL_KINDS)
        if (atomic_by_kind[kind] == 0)
            herr_list.push_back(std::string("vacuous: no scheduling point came from an atomic operation of ") + kind
                                + " (its library TU is not reached through the atomic shim, e.g. the calls were inlined)");
    while (!by_pre.empty() && by_pre.back() == 0)
        by_pre.pop_back();
    jarr bp, he;
    for (auto x : by_pre)
        bp.raw(std::to_string(x));
    for (auto& e : herr_list)
        he.str(e);
    jobj vc;
    for (auto& kv : viol_count)
        vc.num(kv.first, kv.second);
    bool any_viol = !viol_count.empty();
    jobj extra;
    extra.num("states", (long long)states)
        .num("transitions", (long long)transitions)
        .num("traces_validated_against_impl", (long long)executions)
        .num("programs", (long long)nprogs)
        .num("programs_with_all_schedules_enumerated", (long long)all_sched)
        .num("alternatives_pruned_by_bound", 0)
        .num("preemption_bound", -1)
        .num("preemption_bound_completed", -1)
        .boolean("no_bound_needed", all_sched == nprogs)
        .raw("executions_by_preemptions", bp.done())
        .num("executions_with_contended_mutex", 0)
        .num("decisions_at_atomic_operations", (long long)atomic_steps)
        .num("decisions_at_atomic_operations_heap", atomic_by_kind[LL_KINDS[0]])
        .num("decisions_at_atomic_operations_malloc", atomic_by_kind[LL_KINDS[1]])
        .num("decisions_at_atomic_operations_new", atomic_by_kind[LL_KINDS[2]])
        .num("decisions_at_atomic_operations_virtual", atomic_by_kind[LL_KINDS[3]])
        .raw("allocator_entries_by_member", "{}")
        .raw("violating_programs_by_tag", vc.done())
        .dbl("executions_per_s", double(executions) / (now_s() - t0 + 1e-9))
        .str("storage", "own object / thread_safe_allocator")
        .str("alloc", "lowlevel")
        .str("shape", "ll");
    jobj out;
    out.num("evaluations", (long long)executions)
        .num("distinct_nontrivial", (long long)classes.size())
        .str("rule", "one evaluation = one complete schedule of 2-3 threads x 1-2 (allocate_node; deallocate_node) pairs on "
                     "heap/malloc/new/virtual_memory allocator (own objects and one shared thread_safe_allocator), scheduling point "
                     "before every atomic operation of the library's low-level allocator TUs; all schedules, no bound; class = "
                     "(allocator, program, preemptions)")
        .raw("samples", samples.done())
        .boolean("exhaustive", (all_sched == nprogs || any_viol) && herr_list.empty())
        .num("excluded", 0)
        .dbl("wall_s", now_s() - t0)
        .raw("violations", viols.done())
        .raw("harness_errors", he.done())
        .raw("extra", extra.done());
    FILE* f = std::fopen(a.s("out", "/dev/stdout").c_str(), "w");
    std::fputs((out.done() + "\n").c_str(), f);
    std::fclose(f);
    std::fflush(nullptr);
    std::_Exit(0);
}
#define TSAFE_HAVE_LL 1
#endif

// --selftest: the machinery must find what it claims to find (on programs outside the property's contract)
static int selftest(const argmap& a)
{
    double                   t0 = now_s();
    std::vector<std::string> herr;
    sched::u64               execs = 0;
    jarr                     samples;
    run_cfg                  c;
    auto all = [&](const program& p, const char* what, auto pred, bool want_all, bool want_some) {
        sched::explore_options eo;
        eo.max_preemptions = 1000;
        eo.max_steps       = 400;
        sched::u64 hit = 0, n = 0;
        std::string first;
        auto st = sched::explore(
            eo, [&] { return static_cast<sched::world*>(make_world(c, p)); },
            [&](sched::world& w0, const sched::run_result& r, const sched::item&) {
                std::vector<violation>   v;
                std::vector<std::string> h;
                judge(c, static_cast<pworld_base&>(w0), r, v, h);
                ++n;
                if (pred(v))
                {
                    if (!hit++)
                        first = sched::format_schedule(r);
                }
                return true;
            });
        execs += st.executions;
        if (!st.all_schedules)
            herr.push_back(std::string(what) + ": enumeration did not finish: " + st.stop_reason);
        if (want_all && hit != n)
            herr.push_back(fmt("%s: expected in every schedule, seen in %llu of %llu", what, (unsigned long long)hit, (unsigned long long)n));
        if (want_some && (hit == 0 || hit == n))
            herr.push_back(fmt("%s: expected in some but not all schedules, seen in %llu of %llu", what, (unsigned long long)hit, (unsigned long long)n));
        samples.raw(jobj().str("selftest", what).raw("program", prog_json(p, true)).num("schedules", (long long)n).num("schedules_showing_it", (long long)hit).str("first", first).done());
    };
    auto has = [](const char* tag) {
        return [tag](const std::vector<violation>& v) {
            for (auto& x : v)
                if (x.tag == tag)
                    return true;
            return false;
        };
    };
    for (const char* storage : {"direct", "ref", "any"})
    {
        c.storage = storage;
        // a thread that locks twice deadlocks in every schedule
        all({{SELF_NESTED}, {ALLOC_NODE}}, "self-deadlock is reported", has("deadlock"), true, false);
        // unlocked access: entry check fires always; overlap / lost update / duplicate address only under some schedules
        all({{SELF_RACY}, {ALLOC_NODE}}, "unlocked entry is reported", has("no-lock"), true, false);
        all({{SELF_RACY, SELF_RACY}, {SELF_RACY}}, "lost update needs a particular schedule", has("lost-update"), false, true);
        all({{SELF_RACY}, {ALLOC_NODE}}, "overlap needs a particular schedule", has("overlap"), false, true);
    }
    // a prefix that names a thread which is not enabled is a divergence, not a verdict
    {
        c.storage = "direct";
        auto w    = make_world(c, {{ALLOC_NODE}, {ALLOC_NODE}});
        auto r    = sched::run(*w, {0, 0, 1, 1, 1}); // T1 blocks in lock() while T0 holds the mutex
        ++execs;
        if (!r.diverged)
            herr.push_back("infeasible prefix was not flagged as divergence");
    }
    jarr he;
    for (auto& e : herr)
        he.str(e);
    jobj out;
    out.num("evaluations", (long long)execs)
        .num("distinct_nontrivial", 13)
        .str("rule", "self-test of scheduler and oracle on programs outside the contract (nested lock, get_allocator() bypass)")
        .raw("samples", samples.done())
        .boolean("exhaustive", herr.empty())
        .num("excluded", 0)
        .dbl("wall_s", now_s() - t0)
        .raw("violations", "[]")
        .raw("harness_errors", he.done())
        .raw("extra", jobj().boolean("selftest", true).num("executions", (long long)execs).done());
    FILE* f = std::fopen(a.s("out", "/dev/stdout").c_str(), "w");
    std::fputs((out.done() + "\n").c_str(), f);
    std::fclose(f);
    std::fflush(nullptr);
    std::_Exit(0);
}

int main(int argc, char** argv)
{
    argmap a(argc, argv);
#ifdef TSAFE_HAVE_LL
    if (a.has("replay") && a.s("replay").find("\"ll\"") != std::string::npos)
        return ll_replay(a.s("replay"));
    if (a.has("ll"))
        return ll_main(a);
#else
    if (a.has("ll") || (a.has("replay") && a.s("replay").find("\"ll\"") != std::string::npos))
    {
        std::fprintf(stderr, "this build has no low-level allocator part (needs -DTSAFE_LL and a configuration with leak checking)\n");
        return 2;
    }
#endif
    if (a.has("replay"))
        return replay_case(a.s("replay"));
    if (a.has("selftest"))
        return selftest(a);
    double  t0 = now_s();
    run_cfg c;
    c.storage            = a.s("storage", "direct");
    c.alloc              = a.s("alloc", "stateful");
    c.mutex              = a.s("mutex", "inst");
    std::string shape    = a.s("shape", "2x1");
    bool        thorough = a.s("tier", "quick") == "thorough";
    int         bound    = int(a.n("bound", shape == "2x1" ? 1000 : (thorough ? 3 : 2)));
    long        part = 0, parts = 1;
    if (a.has("part"))
        std::sscanf(a.s("part").c_str(), "%ld/%ld", &part, &parts);
    double deadline = t0 + double(a.n("time_s", thorough ? 1000 : 100));
    if (a.has("deadline")) // absolute time given by the driver: one global deadline for all jobs of a run
        deadline = std::min(deadline, std::atof(a.s("deadline").c_str()));

    auto progs = programs(shape, thorough);
    int  cpu   = a.has("nopin") ? -1 : sched::pin_to_free_cpu();

    sched::u64 executions = 0, transitions = 0, states = 0, tree_nodes = 0, pruned = 0, contended = 0, blocked_steps = 0;
    sched::u64 nprogs = 0, progs_all_schedules = 0, max_exec_per_prog = 0, min_exec_per_prog = ~sched::u64(0);
    std::size_t max_trace = 0;
    std::vector<sched::u64> by_pre;
    int                     min_completed_bound = 1 << 20;
    bool                    all_finished        = true;
    long                    entries_by[N_MEMBERS] = {};
    long                    lock_calls            = 0;
    std::set<std::string>   outcome_classes; // (program shape of calls, contended?, preemptions) reached the oracle
    jarr                    samples, viols, herrs;
    std::map<std::string, int> viol_count;
    int                     nsamples = 0;
    std::vector<std::string> herr_list;

    for (std::size_t pi = 0; pi < progs.size(); ++pi)
    {
        if (long(pi % std::size_t(parts)) != part)
            continue;
        const program& p = progs[pi];
        ++nprogs;
        sched::explore_options eo;
        eo.max_preemptions = bound;
        eo.max_steps       = 400;
        eo.deadline        = deadline;
        bool sampled_plain = false, sampled_cont = false;
        auto st            = sched::explore(
            eo, [&] { return static_cast<sched::world*>(make_world(c, p)); },
            [&](sched::world& w0, const sched::run_result& r, const sched::item&) {
                auto&                    w = static_cast<pworld_base&>(w0);
                std::vector<violation>   v;
                std::vector<std::string> herr;
                judge(c, w, r, v, herr);
                bool cont = false;
                for (auto m : w.o.mutexes)
                    cont = cont || m->contended;
                if (cont)
                    ++contended;
                for (auto& s : r.trace)
                    if (s.enabled & (s.enabled - 1)) // more than one enabled thread: a real choice
                        ++blocked_steps;
                for (int i = 0; i < N_MEMBERS; ++i)
                    entries_by[i] += w.o.entries_by[i];
                lock_calls += w.o.lock_calls;
                outcome_classes.insert(fmt("%zu|%d|%d", pi, int(cont), r.preemptions));
                bool want_sample = nsamples < 6
                                   && ((!sampled_plain && (nprogs == 1 || nprogs == 20 || nprogs == 60))
                                       || (cont && !sampled_cont && (nprogs == 2 || nprogs == 30 || nprogs == 5)));
                if (want_sample)
                {
                    (cont ? sampled_cont : sampled_plain) = true;
                    ++nsamples;
                    samples.raw(jobj()
                                    .raw("program", prog_json(p, true))
                                    .str("schedule", sched::format_schedule(r))
                                    .num("preemptions", r.preemptions)
                                    .boolean("mutex_contended", cont)
                                    .num("allocator_state_at_end", w.o.counter)
                                    .done());
                }
                for (auto& e : herr)
                    if (herr_list.size() < 20)
                        herr_list.push_back(prog_json(p, true) + ": " + e);
                if (v.empty())
                    return herr.empty();
                // re-check: run the same complete schedule once more on a fresh world
                auto                     sch = sched::choices_of(r);
                auto                     w2  = make_world(c, p);
                auto                     r2  = sched::run(*w2, sch);
                std::vector<violation>   v2;
                std::vector<std::string> herr2;
                judge(c, *w2, r2, v2, herr2);
                if (tags_of(v) != tags_of(v2))
                {
                    herr_list.push_back(prog_json(p, true) + ": violation not reproducible: '" + tags_of(v) + "' vs '"
                                        + tags_of(v2) + "'");
                }
                else
                    for (auto& x : v)
                        if (viol_count[x.tag]++ < 2) // first two cases of every tag are written out
                            viols.raw(jobj()
                                          .str("tag", x.tag)
                                          .str("detail", x.detail + " | program " + prog_json(p, true) + " storage " + c.storage
                                                             + " | schedule " + sched::format_schedule(r))
                                          .raw("input", case_json(c, p, sch))
                                          .done());
                if (r2.clean)
                    delete w2;
                return false; // one violating schedule per program is enough
            });
        executions += st.executions;
        transitions += st.transitions;
        states += st.states;
        tree_nodes += st.tree_nodes;
        pruned += st.pruned;
        if (st.max_trace > max_trace)
            max_trace = st.max_trace;
        if (st.executions > max_exec_per_prog)
            max_exec_per_prog = st.executions;
        if (st.executions < min_exec_per_prog)
            min_exec_per_prog = st.executions;
        if (by_pre.size() < st.by_preemptions.size())
            by_pre.resize(st.by_preemptions.size());
        for (std::size_t i = 0; i < st.by_preemptions.size(); ++i)
            by_pre[i] += st.by_preemptions[i];
        if (st.divergences)
            herr_list.push_back(prog_json(p, true) + ": " + st.stop_reason);
        if (st.finished)
        {
            if (st.all_schedules)
                ++progs_all_schedules;
            if (st.completed_bound < min_completed_bound)
                min_completed_bound = st.completed_bound;
        }
        else
        {
            all_finished = false;
            if (st.stop_reason == "deadline" || st.stop_reason == "execution cap")
            {
                if (st.completed_bound < min_completed_bound)
                    min_completed_bound = st.completed_bound;
                break;
            }
            // stopped at a violation: the program is decided, bound irrelevant
        }
    }
    double wall = now_s() - t0;
    while (!by_pre.empty() && by_pre.back() == 0)
        by_pre.pop_back();
    jarr bp;
    for (auto x : by_pre)
        bp.raw(std::to_string(x));
    jobj eb;
    for (int i = 0; i < N_MEMBERS; ++i)
        eb.num(OP_NAME[i], entries_by[i]);
    for (auto& e : herr_list)
        herrs.str(e);
    bool any_viol = !viol_count.empty();
    jobj vc;
    for (auto& kv : viol_count)
        vc.num(kv.first, kv.second);
    bool unbounded = nprogs && progs_all_schedules == nprogs;
    jobj extra;
    extra.num("states", (long long)states)
        .num("transitions", (long long)transitions)
        .num("traces_validated_against_impl", (long long)executions)
        .num("schedule_tree_nodes", (long long)tree_nodes)
        .num("programs", (long long)nprogs)
        .num("programs_with_all_schedules_enumerated", (long long)progs_all_schedules)
        .num("alternatives_pruned_by_bound", (long long)pruned)
        .num("preemption_bound", bound >= 1000 ? -1 : bound)
        .num("preemption_bound_completed", min_completed_bound == (1 << 20) ? -1 : (unbounded ? -1 : min_completed_bound))
        .boolean("no_bound_needed", unbounded)
        .raw("executions_by_preemptions", bp.done())
        .num("executions_with_contended_mutex", (long long)contended)
        .num("decisions_with_real_choice", (long long)blocked_steps)
        .num("max_schedule_length", (long long)max_trace)
        .num("max_executions_per_program", (long long)max_exec_per_prog)
        .num("min_executions_per_program", (long long)(nprogs ? min_exec_per_prog : 0))
        .num("lock_calls", lock_calls)
        .raw("allocator_entries_by_member", eb.done())
        .raw("violating_programs_by_tag", vc.done())
        .dbl("executions_per_s", wall > 0 ? double(executions) / wall : 0)
        .num("pinned_cpu", cpu)
        .str("storage", c.storage)
        .str("alloc", c.alloc + (c.mutex == "empty" ? "+empty-mutex-type" : ""))
        .str("shape", shape);
    std::string rule
        = "one evaluation = one complete schedule (sequence of thread choices at the scheduling points lock / "
          "allocator read-modify-write / unlock / thread start+exit) of one program (threads x calls drawn from the 11 "
          "forwarding members and 3 lock()-proxy uses) executed on a fresh real allocator_storage object; all schedules with at "
          "most B preemptions are enumerated depth-first (2x1: no bound); non-trivial class = (program, mutex contended "
          "yes/no, number of preemptions) that reached the final-state oracle";
    jobj out;
    out.num("evaluations", (long long)executions)
        .num("distinct_nontrivial", (long long)outcome_classes.size())
        .str("rule", rule)
        .raw("samples", samples.done())
        .boolean("exhaustive", (all_finished || any_viol) && herr_list.empty())
        .num("excluded", 0)
        .dbl("wall_s", wall)
        .raw("violations", viols.done())
        .raw("harness_errors", herrs.done())
        .raw("extra", extra.done());
    FILE* f = std::fopen(a.s("out", "/dev/stdout").c_str(), "w");
    std::fputs((out.done() + "\n").c_str(), f);
    std::fclose(f);
    std::fflush(nullptr);
    std::_Exit(0); // parked threads of unclean executions may still exist
}

#else
//=====================================================================================================
// side run: the same bodies free-running under ThreadSanitizer (std::mutex); sampling, not deciding
//=====================================================================================================
extern "C" void __wrap_abort(void)
{
    __real_abort();
    for (;;)
    {
    }
}
static int g_reports = 0;
extern "C" void __tsan_on_report(void*)
{
    ++g_reports;
}

template <class Holder>
static long free_run(const program& p, long iters, long& bad_state)
{
    int before = g_reports;
    for (long it = 0; it < iters; ++it)
    {
        obs    o;
        G = &o; // state of the empty-but-stateful allocator
        Holder h(&o);
        std::vector<std::thread>        th;
        std::vector<std::vector<void*>> ret(p.size());
        std::atomic<int>                go{0};
        for (std::size_t i = 0; i < p.size(); ++i)
            th.emplace_back([&, i] {
                while (!go.load(std::memory_order_relaxed)) // relaxed: no happens-before edge between the bodies
                    std::this_thread::yield();
                for (int op : p[i])
                    run_op(h, int(i), op, ret[i]);
            });
        go.store(1, std::memory_order_relaxed);
        for (auto& t : th)
            t.join();
        if (o.counter != expected_entries(p, std::is_same<Holder, direct_holder<tk_sf>>::value))
            ++bad_state;
    }
    return g_reports - before;
}

static long free_run_storage(const std::string& storage, const program& p, long iters, long& bad)
{
    if (storage == "direct")
        return free_run<direct_holder<ialloc>>(p, iters, bad);
    if (storage == "ref")
        return free_run<ref_holder<ialloc>>(p, iters, bad);
    if (storage == "direct-empty")
        return free_run<direct_holder<ealloc>>(p, iters, bad);
    if (storage == "direct-tracked") // stateful tracker over a stateless allocator
        return free_run<direct_holder<tk_sf>>(p, iters, bad);
    if (storage == "ref-adapter") // reference_storage<allocator_adapter<stateful>>
        return free_run<ref_holder<adp>>(p, iters, bad);
    if (storage == "direct-handle") // thread 1 works through an any_allocator_reference made from the thread_safe_allocator
        return free_run<handle_holder<direct_holder<ialloc>>>(p, iters, bad);
    if (storage == "direct-emptymutex") // Mutex = empty class locking a process-wide std::mutex
        return free_run<direct_holder<ialloc, emutex>>(p, iters, bad);
    return free_run<any_holder<ialloc>>(p, iters, bad);
}

// A broken wrapper can misuse std::mutex (e.g. a surplus unlock), after which a free run may never end and
// the sanitizer runtime itself may be wedged. Every batch of free runs therefore happens in a forked child
// (the parent never creates a thread) that streams its progress through a pipe; "no line and all threads asleep for 10 s" = hang.
struct batch_result
{
    long runs = 0, reports = 0;
    bool hung = false;
    long hung_prog = -1;
    std::vector<std::pair<long, std::string>> bad; // program index, text
};

static double g_tsan_deadline = 0;
static batch_result run_batch(const std::string& storage, const std::vector<program>& progs, long iters)
{
    batch_result br;
    int          fd[2];
    if (pipe(fd) != 0)
        return br;
    std::fflush(nullptr);
    pid_t pid = fork();
    if (pid == 0)
    {
        close(fd[0]);
        FILE* w = fdopen(fd[1], "w");
        for (std::size_t i = 0; i < progs.size(); ++i)
        {
            if (g_tsan_deadline > 0 && now_s() > g_tsan_deadline)
                break; // sampling side run: simply stop at the global deadline of the check
            std::fprintf(w, "P %zu\n", i);
            std::fflush(w);
            long bad = 0;
            long rep = free_run_storage(storage, progs[i], iters, bad);
            if (rep || bad)
                std::fprintf(w, "V %zu %ld %ld\n", i, rep, bad);
        }
        std::fprintf(w, "D %d\n", g_reports);
        std::fflush(w);
        std::_Exit(0);
    }
    close(fd[1]);
    std::string buf;
    long        cur  = -1;
    bool        done = false;
    while (!done)
    {
        // hang = no progress line AND the child is not even trying to run: every one of its threads asleep and its cpu
        // time unchanged for 10 s in a row. (Wall time alone would call a child that is merely starved on an overloaded
        // machine a hang; a starved thread is runnable, state R.) Hard stop after 600 s without a line.
        pollfd pf{fd[0], POLLIN, 0};
        int    rc = 0, idle = 0, waited = 0;
        long   last_ticks = -1;
        while ((rc = poll(&pf, 1, 2000)) == 0)
        {
            waited += 2;
            bool runnable = false;
            long ticks    = 0;
            char path[64];
            std::snprintf(path, sizeof path, "/proc/%d/task", int(pid));
            if (DIR* d = opendir(path))
            {
                while (dirent* e = readdir(d))
                {
                    if (e->d_name[0] == '.')
                        continue;
                    char sp[128];
                    std::snprintf(sp, sizeof sp, "/proc/%d/task/%s/stat", int(pid), e->d_name);
                    if (FILE* f = std::fopen(sp, "r"))
                    {
                        char line[1024];
                        if (std::fgets(line, sizeof line, f))
                        {
                            const char* q = std::strrchr(line, ')'); // after the command name
                            char        st = 'S';
                            long        ut = 0, stt = 0;
                            if (q && std::sscanf(q + 1, " %c %*d %*d %*d %*d %*d %*u %*u %*u %*u %*u %ld %ld", &st, &ut, &stt) == 3)
                            {
                                ticks += ut + stt;
                                if (st == 'R' || st == 'D')
                                    runnable = true;
                            }
                        }
                        std::fclose(f);
                    }
                }
                closedir(d);
            }
            idle       = (!runnable && ticks == last_ticks) ? idle + 1 : 0;
            last_ticks = ticks;
            if (idle >= 5 || waited >= 600)
                break;
        }
        if (rc <= 0)
        {
            br.hung      = true;
            br.hung_prog = cur;
            break;
        }
        char    tmp[4096];
        ssize_t n = read(fd[0], tmp, sizeof tmp);
        if (n <= 0)
            break; // child died without "D": treated below
        buf.append(tmp, std::size_t(n));
        std::size_t nl;
        while ((nl = buf.find('\n')) != std::string::npos)
        {
            std::string line = buf.substr(0, nl);
            buf.erase(0, nl + 1);
            long a = 0, b = 0, c = 0;
            if (line[0] == 'P' && std::sscanf(line.c_str() + 1, "%ld", &a) == 1)
            {
                cur = a;
                br.runs += iters;
            }
            else if (line[0] == 'V' && std::sscanf(line.c_str() + 1, "%ld %ld %ld", &a, &b, &c) == 3)
                br.bad.push_back({a, fmt("%ld ThreadSanitizer report(s), %ld of %ld free runs ended with a wrong allocator state", b, c, iters)});
            else if (line[0] == 'D' && std::sscanf(line.c_str() + 1, "%ld", &a) == 1)
            {
                br.reports = a;
                done       = true;
            }
        }
    }
    if (!done && !br.hung)
    {
        br.hung      = true; // child crashed: same treatment, the last started program is the culprit
        br.hung_prog = cur;
    }
    kill(pid, SIGKILL);
    int st = 0;
    waitpid(pid, &st, 0);
    close(fd[0]);
    return br;
}

int main(int argc, char** argv)
{
    argmap a(argc, argv);
    if (a.has("replay"))
    {
        std::string js      = a.s("replay");
        std::string storage = json_str(js, "storage", "direct");
        program     p       = json_ints(js, "prog");
        auto        br      = run_batch(storage, {p}, 200);
        std::printf("program=%s storage=%s: %s%s\n", prog_json(p, true).c_str(), storage.c_str(),
                    br.hung ? "free run made no progress (all threads asleep for 10 s: hang, or crash); " : "",
                    br.bad.empty() ? "no ThreadSanitizer report" : br.bad[0].second.c_str());
        std::fflush(stdout);
        std::_Exit(br.hung || !br.bad.empty() ? 1 : 0);
    }
    double t0       = now_s();
    bool   thorough = a.s("tier", "quick") == "thorough";
    long   iters    = a.n("iters", thorough ? 20 : 3);
    auto   progs    = programs("2x2", thorough);
    if (a.has("deadline"))
        g_tsan_deadline = std::atof(a.s("deadline").c_str());
    jarr   viols, samples;
    long   runs = 0, nviol = 0, reports = 0, hangs = 0;
    auto   add_viol = [&](const char* storage, const program& p, const std::string& what) {
        if (nviol++ < 3)
            viols.raw(jobj()
                          .str("tag", "tsan")
                          .str("detail", what + "; program " + prog_json(p, true) + " storage " + storage + " (std::mutex, free-running)")
                          .raw("input", jobj().str("storage", storage).str("alloc", "stateful").raw("prog", prog_json(p, false)).raw("calls", prog_json(p, true)).boolean("tsan", true).done())
                          .done());
    };
    for (const char* storage : {"direct", "ref", "any", "direct-empty", "direct-tracked", "direct-emptymutex", "ref-adapter", "direct-handle"})
    {
        auto br = run_batch(storage, progs, iters);
        runs += br.runs;
        reports += br.reports;
        for (auto& b : br.bad)
            add_viol(storage, progs[std::size_t(b.first)], b.second);
        if (br.hung)
        {
            ++hangs;
            if (br.hung_prog >= 0)
                add_viol(storage, progs[std::size_t(br.hung_prog)], "free run made no progress (all threads asleep for 10 s: hang, or crash, e.g. std::mutex misuse)");
        }
        samples.raw(jobj().raw("program", prog_json(progs[0], true)).str("storage", storage).num("free_runs_per_program", iters).done());
        if (br.hung)
            break; // one wedged std::mutex is evidence enough; every further flavour would cost another 10 s
    }
    jobj extra;
    extra.num("free_runs", runs).num("tsan_reports", reports).num("programs_with_report", nviol).num("hung_batches", hangs);
    jobj out;
    out.num("evaluations", runs)
        .num("distinct_nontrivial", (long long)progs.size() * 8)
        .str("rule", "side run (sampling): every 2x2 program free-running with std::mutex under ThreadSanitizer")
        .raw("samples", samples.done())
        .boolean("exhaustive", false)
        .num("excluded", 0)
        .dbl("wall_s", now_s() - t0)
        .raw("violations", viols.done())
        .raw("harness_errors", "[]")
        .raw("extra", extra.done());
    FILE* f = std::fopen(a.s("out", "/dev/stdout").c_str(), "w");
    std::fputs((out.done() + "\n").c_str(), f);
    std::fclose(f);
    std::fflush(nullptr);
    std::_Exit(0);
}
#endif
