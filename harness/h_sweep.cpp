// C02 part (b): exhaustive single-step request sweep.  For every allocator kind and every request
// (size, count, alignment) of the tier's domain, the request is issued through allocator_traits (node and array form)
// at canonical positions of the allocator: (1) fresh, (2) "last bytes of a block" (block pre-filled so that the remaining
// capacity takes every value 0..2*bytes), (3) after a growth (second block / second stack), (4) request above the
// reported maxima, (5) second chunk of a small-node pool.
//
//   h_sweep --kind <kind> [--lo a --hi b --stride k --off i] [--time_s T] --tier quick|thorough --out <file>
//   h_sweep --replay '{"kind":"stack","P":0,"form":0,"count":1,"size":40,"align":16,"pos":2,"par":3,"min":0}'
//
// kinds: pool_node pool_array pool_small coll_node_id coll_array_id coll_small_id coll_node_log2 coll_array_log2
//        coll_small_log2 stack iter static temp heap malloc new virt aligned_heap aligned_virt aligned_stack
//
// Oracle (statement of C02): a returned pointer is non-null, aligned to the requested alignment, and addresses
// count*size usable bytes: the whole range lies inside memory the upstream handed to the allocator (logging block
// allocator / static storage / intercepted malloc / intercepted mmap), does not overlap the pre-fill allocations, can
// be written in full, and the pre-fill patterns are intact afterwards.  A request above max_node_size() /
// max_array_size() / max_alignment() as reported by the traits just before the call must end in an exception derived
// from std::bad_alloc.  Any exception of another type is a violation; a std::bad_alloc-derived exception for a
// supported request (block exhausted, fixed source) is legal here and only counted.
#include "grids_common.hpp"

#include <functional>
#include <sys/mman.h>
#include <sys/syscall.h>

#include <foonathan/memory/aligned_allocator.hpp>
#include <foonathan/memory/allocator_traits.hpp>
#include <foonathan/memory/heap_allocator.hpp>
#include <foonathan/memory/iteration_allocator.hpp>
#include <foonathan/memory/malloc_allocator.hpp>
#include <foonathan/memory/memory_pool.hpp>
#include <foonathan/memory/memory_pool_collection.hpp>
#include <foonathan/memory/memory_stack.hpp>
#include <foonathan/memory/new_allocator.hpp>
#include <foonathan/memory/static_allocator.hpp>
#include <foonathan/memory/temporary_allocator.hpp>
#include <foonathan/memory/virtual_memory.hpp>

using namespace grids;

//=== upstream 1: logging block source (grids_common.hpp), fixed slots: block k at k*96 KiB (+2064 for k>0) ===//
static block_source      SRC;
static const std::size_t SLOT = 98304, PHASE1 = 2064;

//=== upstream 2: malloc/free interception ===//
// While MLOG.on, malloc is served from a private page-aligned arena with a cursor that restarts for every case, so the
// addresses the heap/malloc/new allocators and the temporary stack receive are the same whenever a case is run.
extern "C" void* __libc_malloc(std::size_t);
extern "C" void  __libc_free(void*);
alignas(4096) static char MARENA[std::size_t(1) << 19];
struct mlog_t
{
    volatile bool on = false;
    std::size_t   cur = 0;
    struct ent
    {
        char*       p;
        std::size_t n;
        bool        live;
    } e[64];
    int  ne = 0;
    long calls = 0, frees = 0, overflow = 0;
    void reset()
    {
        on  = false;
        cur = 0;
        ne  = 0;
        calls = frees = 0;
    }
    bool inside_live(const void* p, std::size_t n) const
    {
        auto c = static_cast<const char*>(p);
        for (int i = 0; i < ne; ++i)
            if (e[i].live && c >= e[i].p && c + n <= e[i].p + e[i].n)
                return true;
        return false;
    }
};
static mlog_t MLOG;

extern "C" void* malloc(std::size_t n) noexcept
{
    if (!MLOG.on)
        return __libc_malloc(n);
    ++MLOG.calls;
    std::size_t off = (MLOG.cur + 15) & ~std::size_t(15);
    if (MLOG.ne < 64 && off + n <= sizeof MARENA)
    {
        char* p  = MARENA + off;
        MLOG.cur = off + (n ? n : 1);
        MLOG.e[MLOG.ne++] = {p, n, true};
        return p;
    }
    ++MLOG.overflow; // reported as a harness error
    return __libc_malloc(n);
}
extern "C" void free(void* p) noexcept
{
    auto c = static_cast<char*>(p);
    if (c >= MARENA && c < MARENA + sizeof MARENA)
    {
        ++MLOG.frees;
        for (int i = MLOG.ne - 1; i >= 0; --i)
            if (MLOG.e[i].p == c)
            {
                MLOG.e[i].live = false;
                break;
            }
        return;
    }
    __libc_free(p);
}

//=== upstream 3: mmap/munmap interception (virtual_memory_allocator) ===//
struct vlog_t
{
    volatile bool on = false;
    struct ent
    {
        char*       p;
        std::size_t n;
        bool        live;
    } e[64];
    int  ne = 0;
    long maps = 0, unmaps = 0;
    void reset()
    {
        on = false;
        ne = 0;
        maps = unmaps = 0;
    }
    bool inside_live(const void* p, std::size_t n) const
    {
        auto c = static_cast<const char*>(p);
        for (int i = 0; i < ne; ++i)
            if (e[i].live && c >= e[i].p && c + n <= e[i].p + e[i].n)
                return true;
        return false;
    }
};
static vlog_t VLOG;

extern "C" void* mmap(void* addr, std::size_t len, int prot, int flags, int fd, off_t off) noexcept
{
    void* p = reinterpret_cast<void*>(syscall(SYS_mmap, addr, len, prot, flags, fd, off));
    if (VLOG.on && p != MAP_FAILED)
    {
        ++VLOG.maps;
        if (VLOG.ne < 64)
            VLOG.e[VLOG.ne++] = {static_cast<char*>(p), len, true};
    }
    return p;
}
extern "C" int munmap(void* p, std::size_t len) noexcept
{
    if (VLOG.on)
    {
        ++VLOG.unmaps;
        for (int i = VLOG.ne - 1; i >= 0; --i)
            if (VLOG.e[i].live && VLOG.e[i].p == p)
            {
                VLOG.e[i].live = false;
                break;
            }
    }
    return int(syscall(SYS_munmap, p, len));
}

//=== upstream 4: static storage ===//
static const std::size_t STOR_SIZE = 16384;
alignas(4096) static fm::static_allocator_storage<STOR_SIZE> STOR;

enum owner_kind
{
    OWN_SRC,
    OWN_MALLOC,
    OWN_MMAP,
    OWN_STATIC
};
static bool owned(int owner, const void* p, std::size_t n)
{
    switch (owner)
    {
    case OWN_SRC:
        return SRC.inside_live(p, n);
    case OWN_MALLOC:
        return MLOG.inside_live(p, n);
    case OWN_MMAP:
        return VLOG.inside_live(p, n);
    default:
    {
        auto c = static_cast<const char*>(p);
        return c >= STOR.storage && c + n <= STOR.storage + STOR_SIZE;
    }
    }
}
static long upstream_requests(int owner)
{
    return owner == OWN_SRC ? SRC.requests : owner == OWN_MALLOC ? MLOG.calls : owner == OWN_MMAP ? VLOG.maps : 0;
}
static void lib_on(int owner)
{
    MLOG.on = owner == OWN_MALLOC;
    VLOG.on = owner == OWN_MMAP;
}
static void lib_off()
{
    MLOG.on = false;
    VLOG.on = false;
}

//=== cases ===//
enum kind_id
{
    K_POOL_NODE,
    K_POOL_ARRAY,
    K_POOL_SMALL,
    K_COLL_NODE_ID,
    K_COLL_ARRAY_ID,
    K_COLL_SMALL_ID,
    K_COLL_NODE_LOG2,
    K_COLL_ARRAY_LOG2,
    K_COLL_SMALL_LOG2,
    K_STACK,
    K_ITER,
    K_STATIC,
    K_TEMP,
    K_HEAP,
    K_MALLOC,
    K_NEW,
    K_VIRT,
    K_ALIGNED_HEAP,
    K_ALIGNED_VIRT,
    K_ALIGNED_STACK,
    K_COUNT
};
static const char* KIND_NAMES[K_COUNT] = {"pool_node",      "pool_array",      "pool_small",      "coll_node_id", "coll_array_id",
                                          "coll_small_id",  "coll_node_log2",  "coll_array_log2", "coll_small_log2", "stack",
                                          "iter",           "static",          "temp",            "heap",         "malloc",
                                          "new",            "virt",            "aligned_heap",    "aligned_virt", "aligned_stack"};
enum
{
    POS_FRESH = 1,
    POS_LAST  = 2,
    POS_GROWN = 3,
    POS_TOOBIG = 4,
    POS_CHUNK2 = 5
};

struct kase
{
    int  kind;
    long P;     // pool node size / collection max node size
    int  form;  // 0 allocate_node, 1 allocate_array
    long count, size, align;
    int  pos;
    long par;   // remaining bytes r (stack-likes, collections) / remaining nodes j (pools) / pre-fill count (second chunk)
    long min;   // aligned_allocator: minimum alignment
};

static std::string case_json(const kase& c)
{
    return jobj().str("kind", KIND_NAMES[c.kind]).num("P", c.P).num("form", c.form).num("count", c.count).num("size", c.size).num("align", c.align)
        .num("pos", c.pos).num("par", c.par).num("min", c.min).done();
}

struct outcome
{
    const char* tag;
    char        detail[420];
    int         cls;      // 0 returned, 1 std::bad_alloc-derived exception, 2 other exception, 3 abort/crash/hang inside the library, -1 request not reached
    int         abort_phase, abort_kind;
    bool        supported, grew, setup_threw;
    long        remaining; // measured remaining capacity before the request (where the kind reports one), else -1
    void*       ptr;
    long        min_missed;
};
static outcome O;
static bool    VERBOSE = false;
enum
{
    PH_SETUP,
    PH_REQUEST,
    PH_ORACLE,
    PH_RELEASE
};
static volatile int PHASE = PH_SETUP;
static const char*  FAMILY = ""; // allocator family + request form, part of every violation tag (narrow known-finding fingerprints)
static char         TAGBUF[64];

static void fail(const char* tag, const char* f, ...)
{
    if (O.tag)
        return;
    std::snprintf(TAGBUF, sizeof TAGBUF, "%s@%s", tag, FAMILY);
    O.tag = TAGBUF;
    va_list ap;
    va_start(ap, f);
    std::vsnprintf(O.detail, sizeof O.detail, f, ap);
    va_end(ap);
}

// pre-fill allocations of the current case
struct region
{
    unsigned char* p;
    std::size_t    n, align;
};
static const int MAXPRE = 8192;
static region    PRE[MAXPRE];
static int       NPRE = 0;

static inline unsigned char pat(std::size_t seed, std::size_t i)
{
    return static_cast<unsigned char>(seed * 131u + i * 7u + 1u);
}
static void pattern_fill(unsigned char* p, std::size_t n, std::size_t seed)
{
    if (n <= 320)
        for (std::size_t i = 0; i < n; ++i)
            p[i] = pat(seed, i);
    else
    {
        // big pre-fill (only there to consume capacity): its two ends carry the pattern
        for (std::size_t i = 0; i < 64; ++i)
            p[i] = pat(seed, i);
        for (std::size_t i = n - 192; i < n; ++i)
            p[i] = pat(seed, i);
    }
}
static long pattern_check(const unsigned char* p, std::size_t n, std::size_t seed)
{
    if (n <= 320)
    {
        for (std::size_t i = 0; i < n; ++i)
            if (p[i] != pat(seed, i))
                return long(i);
    }
    else
    {
        for (std::size_t i = 0; i < 64; ++i)
            if (p[i] != pat(seed, i))
                return long(i);
        for (std::size_t i = n - 192; i < n; ++i)
            if (p[i] != pat(seed, i))
                return long(i);
    }
    return -1;
}
static void pre_add(void* p, std::size_t n, std::size_t align)
{
    if (NPRE < MAXPRE)
    {
        PRE[NPRE] = {static_cast<unsigned char*>(p), n, align};
        pattern_fill(PRE[NPRE].p, n, std::size_t(NPRE) + 1);
        ++NPRE;
    }
}

static inline std::size_t total_bytes(const kase& c)
{
    return c.form ? std::size_t(c.count) * std::size_t(c.size) : std::size_t(c.size);
}

// the request itself + the oracle
template <class TR, class A>
static void issue(A& a, const kase& c, int owner)
{
    const std::size_t T = total_bytes(c), size = std::size_t(c.size), count = std::size_t(c.count), align = std::size_t(c.align);
    const std::size_t mn = TR::max_node_size(a), ma = TR::max_alignment(a), mr = c.form ? TR::max_array_size(a) : 0;
    O.supported          = size <= mn && align <= ma && (!c.form || T <= mr);
    const long req0      = upstream_requests(owner);
    void*      p         = nullptr;
    PHASE                = PH_REQUEST;
    lib_on(owner);
    try
    {
        p     = c.form ? TR::allocate_array(a, count, size, align) : TR::allocate_node(a, size, align);
        O.cls = 0;
    }
    catch (std::bad_alloc&)
    {
        O.cls = 1;
    }
    catch (...)
    {
        O.cls = 2;
    }
    lib_off();
    PHASE  = PH_ORACLE;
    O.grew = upstream_requests(owner) > req0;
    O.ptr  = p;
    if (VERBOSE)
        std::printf("  traits report max_node_size %zu, max_alignment %zu%s -> request is %s\n  %s(%s%zu, %zu) -> %s %p%s\n", mn, ma,
                    c.form ? (", max_array_size " + std::to_string(mr)).c_str() : "", O.supported ? "supported" : "UNSUPPORTED",
                    c.form ? "allocate_array" : "allocate_node", c.form ? (std::to_string(count) + ", ").c_str() : "", size, align,
                    O.cls == 0 ? "returned" : O.cls == 1 ? "threw std::bad_alloc-derived" : "threw FOREIGN exception", p,
                    O.grew ? " (upstream was asked for more memory)" : "");
    if (O.cls == 2)
    {
        fail("foreign-exception", "%s: request threw an exception not derived from std::bad_alloc", case_json(c).c_str());
        return;
    }
    if (O.cls == 1)
    {
        // legal outcome; the pre-fill allocations go back the regular way
        PHASE = PH_RELEASE;
        lib_on(owner);
        if (NPRE <= 64) // big pre-fill sets are dropped with the allocator (quadratic double-free checks in dbg)
            for (int i = NPRE - 1; i >= 0; --i)
                TR::deallocate_node(a, PRE[i].p, PRE[i].n, PRE[i].align);
        lib_off();
        return;
    }
    if (!p)
    {
        fail("null", "%s: request returned nullptr", case_json(c).c_str());
        return;
    }
    if (reinterpret_cast<std::uintptr_t>(p) % align != 0)
    {
        fail("misaligned", "%s: returned %p is not aligned to %zu (address mod alignment = %zu)", case_json(c).c_str(), p, align,
             std::size_t(reinterpret_cast<std::uintptr_t>(p) % align));
        return;
    }
    if (!O.supported)
    {
        fail("unsupported-accepted", "%s: traits report max_node_size %zu, max_array_size %zu, max_alignment %zu, yet the request returned %p instead of throwing",
             case_json(c).c_str(), mn, mr, ma, p);
        return;
    }
    if (!owned(owner, p, T))
    {
        fail("outside-upstream", "%s: [%p, +%zu) is not inside memory the upstream handed to the allocator", case_json(c).c_str(), p, T);
        return;
    }
    auto q = static_cast<unsigned char*>(p);
    for (int i = 0; i < NPRE; ++i)
        if (q < PRE[i].p + PRE[i].n && PRE[i].p < q + T)
        {
            fail("overlaps-prefill", "%s: [%p, +%zu) overlaps live allocation #%d [%p, +%zu)", case_json(c).c_str(), p, T, i, (void*)PRE[i].p, PRE[i].n);
            return;
        }
    // element i of an array is at base + i*size: the whole range [base, base + count*size) is written
    std::memset(q, 0xC3, T);
    q[0] = 0x3C;
    q[T - 1] = T > 1 ? 0x5A : 0x3C;
    for (int i = 0; i < NPRE; ++i)
    {
        long bad = pattern_check(PRE[i].p, PRE[i].n, std::size_t(i) + 1);
        if (bad >= 0)
        {
            fail("prefill-corrupted", "%s: byte %ld of live allocation #%d [%p, +%zu) changed after the request returned %p", case_json(c).c_str(), bad, i,
                 (void*)PRE[i].p, PRE[i].n, p);
            return;
        }
    }
    {
        bool ok = q[0] == 0x3C && q[T - 1] == (T > 1 ? 0x5A : 0x3C);
        if (ok && T > 3) // bytes 1..T-2 all hold 0xC3: first one checked, then each equals its successor
            ok = q[1] == 0xC3 && std::memcmp(q + 1, q + 2, T - 3) == 0;
        else if (ok && T == 3)
            ok = q[1] == 0xC3;
        if (!ok)
        {
            fail("not-writable", "%s: the returned range does not hold the values written to it", case_json(c).c_str());
            return;
        }
    }
    if (c.min && reinterpret_cast<std::uintptr_t>(p) % std::size_t(c.min) != 0)
        ++O.min_missed;
    // give everything back through the same interface (reverse order)
    PHASE = PH_RELEASE;
    lib_on(owner);
    if (c.form)
        TR::deallocate_array(a, p, count, size, align);
    else
        TR::deallocate_node(a, p, size, align);
    if (NPRE <= 64)
        for (int i = NPRE - 1; i >= 0; --i)
            TR::deallocate_node(a, PRE[i].p, PRE[i].n, PRE[i].align);
    lib_off();
}

template <class TR, class A>
static bool prefill(A& a, std::size_t size, std::size_t align, int owner)
{
    void* p = nullptr;
    lib_on(owner);
    try
    {
        p = TR::allocate_node(a, size, align);
    }
    catch (std::bad_alloc&)
    {
        lib_off();
        O.setup_threw = true;
        return false;
    }
    lib_off();
    if (!p)
    {
        O.setup_threw = true;
        return false;
    }
    pre_add(p, size, align);
    return true;
}

//=== memory_pool ===//
template <class Tag>
static void pool_case(const kase& c)
{
    using A  = fm::memory_pool<Tag, log_block_allocator>;
    using TR = fm::allocator_traits<A>;
    const bool        small  = !Tag::value;
    const std::size_t ns_eff = std::size_t(c.P) < A::min_node_size ? A::min_node_size : std::size_t(c.P);
    const std::size_t T      = total_bytes(c);
    const std::size_t k      = c.form ? (T + ns_eff - 1) / ns_eff : 1; // nodes the request takes
    std::size_t       K, bs;
    if (small)
    {
        // documented: block_size >= min_block_size(node_size, 1) = one full chunk of 255 nodes
        K  = c.pos == POS_CHUNK2 ? 510 : 255;
        bs = A::min_block_size(std::size_t(c.P), c.pos == POS_CHUNK2 ? 256 : 1);
    }
    else if (c.pos == POS_TOOBIG)
    {
        K  = k - 1; // k >= 2 guaranteed by the enumeration
        bs = A::min_block_size(std::size_t(c.P), K);
    }
    else
    {
        K  = 2 * k + 2;
        bs = A::min_block_size(std::size_t(c.P), K);
    }
    SRC.reset(SLOT, PHASE1, 0);
    A a(std::size_t(c.P), bs, &SRC);
    std::size_t fill = 0;
    switch (c.pos)
    {
    case POS_FRESH:
    case POS_TOOBIG:
        fill = 0;
        break;
    case POS_LAST:
        fill = a.capacity_left() / a.node_size() - std::size_t(c.par); // leave par nodes
        break;
    case POS_GROWN:
        fill = a.capacity_left() / a.node_size() + 1; // the last pre-fill node already comes from the second block
        break;
    case POS_CHUNK2:
        fill = std::size_t(c.par); // 254, 255, 256: the request is the last node of chunk 1 / first / second node of chunk 2
        break;
    }
    for (std::size_t i = 0; i < fill; ++i)
        if (!prefill<TR>(a, std::size_t(c.P), 1, OWN_SRC))
            break;
    O.remaining = long(a.capacity_left());
    if (VERBOSE)
        std::printf("  memory_pool: node_size() %zu, block size %zu (%zu nodes), %d pre-fill nodes, capacity_left() %zu, upstream blocks %d\n", a.node_size(), bs, K,
                    NPRE, a.capacity_left(), SRC.nrec);
    issue<TR>(a, c, OWN_SRC);
}

//=== memory_pool_collection ===//
template <class Tag, class Dist>
static void coll_case(const kase& c)
{
    using A  = fm::memory_pool_collection<Tag, Dist, log_block_allocator>;
    using TR = fm::allocator_traits<A>;
    using FL = typename Tag::type;
    using AP = typename Dist::type;
    const std::size_t M     = std::size_t(c.P);
    const std::size_t np    = AP::index_from_size(M) - AP::index_from_size(FL::min_element_size) + 1;
    const std::size_t Mreal = AP::size_from_index(AP::index_from_size(M)); // max_node_size() the collection will report
    const std::size_t T     = total_bytes(c);
    // documented: max_node_size smaller than block_size / number of pools; the free list array must fit as well
    std::size_t need = np * sizeof(FL) + 2 * FENCE + 16;
    if (need < np * (Mreal + 1))
        need = np * (Mreal + 1);
    // small-node lists need a chunk header in front of the first node: with a per-bucket reservation below
    // chunk_memory_offset + node size the unchanged library crashes (rel/rwd) or asserts "memory block too small" (dbg)
    // inside insert(); such blocks are not generated (see design/notes_grids.md)
    if (!Tag::value && need < np * (Mreal + fm::detail::chunk_memory_offset + 16))
        need = np * (Mreal + fm::detail::chunk_memory_offset + 16);
    const std::size_t Bbase = 16 + need + 16;
    std::size_t       B     = Bbase;
    if (c.pos == POS_FRESH)
        B = Bbase + T + 2 * Mreal + 64;
    else if (c.pos == POS_LAST)
    {
        // big enough that, after the free list array and one default reservation (1/np of the block), more than
        // 2*T+32 bytes are left for reserve() to take away again
        B = Bbase + 2 * T + 96;
        const std::size_t floor2 = 16 + 2 * (2 * T + 96 + np * sizeof(FL) + 2 * FENCE + 32);
        if (np > 1 && B < floor2)
            B = floor2;
    }
    else if (c.pos == POS_GROWN)
        B = Bbase + 64;
    SRC.reset(SLOT, PHASE1, 0);
    A a(M, B, &SRC);
    if (c.pos == POS_LAST && np > 1)
    {
        // one live node from another bucket, then reserve() for that bucket takes all of the arena block but c.par bytes
        const std::size_t mine  = a.pools_.get(std::size_t(c.size) <= a.max_node_size() ? std::size_t(c.size) : a.max_node_size()).node_size();
        const std::size_t other = mine == a.max_node_size() ? FL::min_element_size : a.max_node_size();
        if (prefill<TR>(a, other, 1, OWN_SRC))
        {
            const std::size_t avail = a.capacity_left();
            const std::size_t off   = fm::detail::align_offset(a.stack_.top() + FENCE, fm::detail::max_alignment);
            const std::size_t want  = std::size_t(c.par) + 2 * FENCE + off;
            if (avail > want && avail - want < a.next_capacity())
                a.reserve(other, avail - want);
            else
                O.setup_threw = true; // position not reachable for this block: counted, the request still runs
        }
    }
    else if (c.pos == POS_GROWN && std::size_t(c.size) <= a.max_node_size())
    {
        // nodes of the request's own size until the collection had to take a second block
        for (int i = 0; i < 6000 && SRC.requests < 2; ++i)
            if (!prefill<TR>(a, std::size_t(c.size), 1, OWN_SRC))
                break;
    }
    O.remaining = long(a.capacity_left());
    if (VERBOSE)
        std::printf("  memory_pool_collection: %zu pools, max_node_size() %zu, block size %zu, %d pre-fill nodes, capacity_left() %zu, upstream blocks %d\n", np,
                    a.max_node_size(), B, NPRE, a.capacity_left(), SRC.nrec);
    issue<TR>(a, c, OWN_SRC);
}

//=== stack-like allocators ===//
static void stack_case(const kase& c)
{
    using A  = fm::memory_stack<log_block_allocator>;
    using TR = fm::allocator_traits<A>;
    const std::size_t T = total_bytes(c), AL = std::size_t(c.align);
    const std::size_t big = 16 + T + 2 * FENCE + AL + 64; // a block the request certainly fits into
    if (c.pos == POS_FRESH)
    {
        SRC.reset(SLOT, PHASE1, 0);
        A a(big, &SRC);
        O.remaining = long(a.capacity_left());
        issue<TR>(a, c, OWN_SRC);
    }
    else if (c.pos == POS_LAST)
    {
        SRC.reset(SLOT, PHASE1, big);
        A a(16 + 64 + 2 * FENCE + std::size_t(c.par), &SRC);
        prefill<TR>(a, 64, 1, OWN_SRC);
        O.remaining = long(a.capacity_left());
        if (VERBOSE)
            std::printf("  memory_stack: first block %zu bytes, 64 byte pre-fill, capacity_left() %zu, next block %zu bytes\n",
                        16 + 64 + 2 * FENCE + std::size_t(c.par), a.capacity_left(), big);
        issue<TR>(a, c, OWN_SRC);
    }
    else if (c.pos == POS_GROWN)
    {
        SRC.reset(SLOT, PHASE1, big + 48 + 2 * FENCE + 8);
        A a(16 + 64 + 2 * FENCE + 8, &SRC);
        prefill<TR>(a, 64, 1, OWN_SRC);
        prefill<TR>(a, 48, 8, OWN_SRC); // does not fit into the 8 remaining bytes: grows
        O.remaining = long(a.capacity_left());
        if (VERBOSE)
            std::printf("  memory_stack: pre-fill 64 in block 1, pre-fill 48 grew into block 2 (upstream blocks %d), capacity_left() %zu\n", SRC.nrec,
                        a.capacity_left());
        issue<TR>(a, c, OWN_SRC);
    }
    else // POS_TOOBIG: every block is one byte too small for the request
    {
        SRC.reset(SLOT, PHASE1, 0);
        A a(16 + T - 1, &SRC);
        O.remaining = long(a.capacity_left());
        issue<TR>(a, c, OWN_SRC);
    }
}

static void iter_case(const kase& c)
{
    using A  = fm::iteration_allocator<2, log_block_allocator>;
    using TR = fm::allocator_traits<A>;
    const std::size_t T = total_bytes(c), AL = std::size_t(c.align);
    SRC.reset(SLOT, PHASE1, 0);
    if (c.pos == POS_FRESH)
    {
        A a(2 * (T + 2 * FENCE + AL + 64), &SRC);
        O.remaining = long(a.capacity_left());
        issue<TR>(a, c, OWN_SRC);
    }
    else if (c.pos == POS_LAST)
    {
        A a(2 * (64 + 2 * FENCE + std::size_t(c.par)), &SRC);
        prefill<TR>(a, 64, 1, OWN_SRC);
        O.remaining = long(a.capacity_left());
        issue<TR>(a, c, OWN_SRC);
    }
    else // POS_GROWN: the second stack (starts in the middle of the block, at an address that is only 8-aligned)
    {
        std::size_t half = (T + 2 * FENCE + AL + 72) | 8;
        half &= ~std::size_t(7);
        A a(2 * half, &SRC);
        prefill<TR>(a, 64, 1, OWN_SRC);
        a.next_iteration();
        O.remaining = long(a.capacity_left());
        if (VERBOSE)
            std::printf("  iteration_allocator<2>: block %zu bytes, 64 byte pre-fill in stack 0, next_iteration(), capacity_left() %zu\n", 2 * half,
                        a.capacity_left());
        issue<TR>(a, c, OWN_SRC);
    }
}

static void static_case(const kase& c)
{
    using A  = fm::static_allocator;
    using TR = fm::allocator_traits<A>;
    A a(STOR);
    if (c.pos == POS_LAST)
        prefill<TR>(a, STOR_SIZE - std::size_t(c.par) - 2 * FENCE, 1, OWN_STATIC);
    O.remaining = long(a.max_node_size());
    if (VERBOSE)
        std::printf("  static_allocator over %zu bytes of static storage, %d pre-fill, %zu bytes remaining\n", STOR_SIZE, NPRE, a.max_node_size());
    issue<TR>(a, c, OWN_STATIC);
}

static void temp_case(const kase& c)
{
    using A  = fm::temporary_allocator;
    using TR = fm::allocator_traits<A>;
    const std::size_t T = total_bytes(c), AL = std::size_t(c.align);
    std::size_t       I, pre1 = 0;
    bool              pre2 = false;
    if (c.pos == POS_FRESH)
        I = 16 + T + 2 * FENCE + AL + 64;
    else if (c.pos == POS_LAST)
    {
        // the next block has twice the size of the first; make it big enough for the request
        I = 16 + 64 + 2 * FENCE + std::size_t(c.par);
        std::size_t want2 = 16 + T + 2 * FENCE + AL + 32;
        if (2 * I < want2)
            I = (want2 + 1) / 2;
        pre1 = (I - 16) - std::size_t(c.par) - 2 * FENCE;
    }
    else if (c.pos == POS_GROWN)
    {
        I = 16 + 64 + 2 * FENCE + 8;
        std::size_t want2 = 16 + 48 + 2 * FENCE + 8 + T + 2 * FENCE + AL + 32;
        if (2 * I < want2)
            I = (want2 + 1) / 2;
        pre1 = (I - 16) - 8 - 2 * FENCE;
        pre2 = true;
    }
    else
        I = 17; // POS_TOOBIG: next_capacity() = 2*17-16 = 18 < T (enumeration guarantees T >= 19)
    MLOG.on = true;
    fm::temporary_stack st(I);
    A                   a(st);
    MLOG.on = false;
    if (pre1)
        prefill<TR>(a, pre1, 1, OWN_MALLOC);
    if (pre2)
        prefill<TR>(a, 48, 8, OWN_MALLOC);
    O.remaining = long(st.stack_.capacity_left());
    if (VERBOSE)
        std::printf("  temporary_allocator on temporary_stack(%zu): %d pre-fill, capacity_left() %zu, next_capacity() %zu, malloc calls %ld\n", I, NPRE,
                    st.stack_.capacity_left(), st.next_capacity(), MLOG.calls);
    issue<TR>(a, c, OWN_MALLOC);
}

//=== low-level allocators and aligned_allocator ===//
template <class A>
static void lowlevel_case(const kase& c, int owner)
{
    using TR = fm::allocator_traits<A>;
    A a;
    prefill<TR>(a, 24, 8, owner);
    prefill<TR>(a, std::size_t(c.size), std::size_t(c.align), owner);
    O.remaining = -1;
    issue<TR>(a, c, owner);
}
template <class Raw>
static void aligned_lowlevel_case(const kase& c, int owner)
{
    using A  = fm::aligned_allocator<Raw>;
    using TR = fm::allocator_traits<A>;
    A a(std::size_t(c.min)); // documented: min_alignment <= max_alignment() of the wrapped allocator
    prefill<TR>(a, 24, 8, owner);
    prefill<TR>(a, std::size_t(c.size), std::size_t(c.align), owner);
    O.remaining = -1;
    issue<TR>(a, c, owner);
}
static void aligned_stack_case(const kase& c)
{
    using S  = fm::memory_stack<log_block_allocator>;
    using A  = fm::aligned_allocator<S>;
    using TR = fm::allocator_traits<A>;
    const std::size_t T = total_bytes(c), AL = std::size_t(c.align) > std::size_t(c.min) ? std::size_t(c.align) : std::size_t(c.min);
    const std::size_t big = 16 + T + 2 * FENCE + AL + 64;
    if (c.pos == POS_FRESH)
    {
        SRC.reset(SLOT, PHASE1, 0);
        A a(std::size_t(c.min), S(big, &SRC));
        O.remaining = long(a.get_allocator().capacity_left());
        issue<TR>(a, c, OWN_SRC);
    }
    else
    {
        SRC.reset(SLOT, PHASE1, big);
        A a(std::size_t(c.min), S(16 + 64 + 2 * FENCE + AL + std::size_t(c.par), &SRC));
        prefill<TR>(a, 64, 1, OWN_SRC); // consumes 64 + up to AL bytes of padding
        O.remaining = long(a.get_allocator().capacity_left());
        issue<TR>(a, c, OWN_SRC);
    }
}

static void exec_case(const kase& c)
{
    switch (c.kind)
    {
    case K_POOL_NODE:
        pool_case<fm::node_pool>(c);
        break;
    case K_POOL_ARRAY:
        pool_case<fm::array_pool>(c);
        break;
    case K_POOL_SMALL:
        pool_case<fm::small_node_pool>(c);
        break;
    case K_COLL_NODE_ID:
        coll_case<fm::node_pool, fm::identity_buckets>(c);
        break;
    case K_COLL_ARRAY_ID:
        coll_case<fm::array_pool, fm::identity_buckets>(c);
        break;
    case K_COLL_SMALL_ID:
        coll_case<fm::small_node_pool, fm::identity_buckets>(c);
        break;
    case K_COLL_NODE_LOG2:
        coll_case<fm::node_pool, fm::log2_buckets>(c);
        break;
    case K_COLL_ARRAY_LOG2:
        coll_case<fm::array_pool, fm::log2_buckets>(c);
        break;
    case K_COLL_SMALL_LOG2:
        coll_case<fm::small_node_pool, fm::log2_buckets>(c);
        break;
    case K_STACK:
        stack_case(c);
        break;
    case K_ITER:
        iter_case(c);
        break;
    case K_STATIC:
        static_case(c);
        break;
    case K_TEMP:
        temp_case(c);
        break;
    case K_HEAP:
        lowlevel_case<fm::heap_allocator>(c, OWN_MALLOC);
        break;
    case K_MALLOC:
        lowlevel_case<fm::malloc_allocator>(c, OWN_MALLOC);
        break;
    case K_NEW:
        lowlevel_case<fm::new_allocator>(c, OWN_MALLOC);
        break;
    case K_VIRT:
        lowlevel_case<fm::virtual_memory_allocator>(c, OWN_MMAP);
        break;
    case K_ALIGNED_HEAP:
        aligned_lowlevel_case<fm::heap_allocator>(c, OWN_MALLOC);
        break;
    case K_ALIGNED_VIRT:
        aligned_lowlevel_case<fm::virtual_memory_allocator>(c, OWN_MMAP);
        break;
    case K_ALIGNED_STACK:
        aligned_stack_case(c);
        break;
    }
}

static const char* family_of(const kase& c)
{
    static const char* F[K_COUNT][2] = {{"pool-node", "pool-array"},   {"pool-node", "pool-array"},   {"pool-node", "pool-array"},
                                        {"coll-node", "coll-array"},   {"coll-node", "coll-array"},   {"coll-node", "coll-array"},
                                        {"coll-node", "coll-array"},   {"coll-node", "coll-array"},   {"coll-node", "coll-array"},
                                        {"stack", "stack"},            {"iteration", "iteration"},    {"static", "static"},
                                        {"temporary", "temporary"},    {"lowlevel", "lowlevel"},      {"lowlevel", "lowlevel"},
                                        {"lowlevel", "lowlevel"},      {"lowlevel", "lowlevel"},      {"aligned", "aligned"},
                                        {"aligned", "aligned"},        {"aligned", "aligned"}};
    return F[c.kind][c.form ? 1 : 0];
}

// one case, contained; fills O
static void run_case(const kase& c)
{
    O.tag       = nullptr;
    O.detail[0] = 0;
    O.cls       = -1;
    O.abort_phase = O.abort_kind = -1;
    O.supported = O.grew = O.setup_threw = false;
    O.remaining                          = -1;
    O.ptr                                = nullptr;
    O.min_missed                         = 0;
    NPRE                                 = 0;
    FAMILY                               = family_of(c);
    PHASE                                = PH_SETUP;
    MLOG.reset();
    VLOG.reset();
    int out;
    GRID_GUARDED(out, {
        try
        {
            exec_case(c);
        }
        catch (std::bad_alloc&)
        {
            // bringing the allocator into position failed (a pre-fill or constructor threw): not a request outcome
            lib_off();
            O.setup_threw = true;
        }
    });
    lib_off();
    if (out != OUT_OK)
    {
        if (PHASE == PH_ORACLE && !O.tag)
            // the harness itself was writing/reading the returned range: the memory is not usable
            fail("unusable-memory", "%s: %s while writing/reading the %zu bytes at the returned pointer %p", case_json(c).c_str(), outcome_name(out),
                 total_bytes(c), O.ptr);
        else
        {
            O.abort_phase = PHASE;
            O.abort_kind  = out;
            if (PHASE == PH_REQUEST)
            {
                // every generated request respects the documented preconditions: it must return a valid pointer or throw
                // something derived from std::bad_alloc
                O.cls = 3;
                if (!O.tag)
                    fail(out == OUT_ABORTED ? "abort" : out == OUT_CRASHED ? "crash" : "hang", "%s: the library %s inside the request (a request must return a valid pointer or throw an exception derived from std::bad_alloc)",
                         case_json(c).c_str(), outcome_name(out));
            }
            // while bringing the allocator into position / releasing: counted and witnessed in "extra" only
        }
    }
}

//=== enumeration ===//
static const long ALIGN_SMALL[]  = {1, 2, 4, 8, 16};
static const long ALIGN_STACK[]  = {1, 2, 4, 8, 16, 32, 64, 128, 256, 512, 1024, 2048, 4096};
static const long ALIGN_ADAPT[]  = {1, 2, 4, 8, 16, 32, 64};
static const long COUNTS[]       = {1, 2, 3, 7};

struct tally
{
    long long cnt[6][4][2]; // position x outcome class x grew
    long long unsupported_threw = 0, supported_threw = 0, setup_threw = 0, min_missed = 0, aborted[4] = {0, 0, 0, 0};
    std::vector<std::string> abort_witness;
    // distinct non-trivial classes: (form, alignment index, position, outcome, grew, supported, log2 bucket of bytes)
    std::vector<unsigned char> seen = std::vector<unsigned char>(2 * 16 * 6 * 4 * 2 * 2 * 16, 0);
    std::vector<unsigned char> seen_remaining = std::vector<unsigned char>(65536, 0);
    tally()
    {
        std::memset(cnt, 0, sizeof cnt);
    }
};

static int ilog2l(std::size_t v)
{
    int r = 0;
    while (v >>= 1)
        ++r;
    return r;
}

int main(int argc, char** argv)
{
    argmap a(argc, argv);
    install_guards(4000);
    install_quiet_handlers();
    SRC.init(std::size_t(block_source::MAXB) * SLOT);

    auto kind_of = [&](const std::string& s) {
        for (int i = 0; i < K_COUNT; ++i)
            if (s == KIND_NAMES[i])
                return i;
        std::fprintf(stderr, "unknown kind %s\n", s.c_str());
        std::_Exit(2);
        return 0;
    };

    if (a.has("replay"))
    {
        std::string js = a.str("replay");
        kase        c;
        c.kind  = kind_of(jstr(js, "kind", "stack"));
        c.P     = jnum(js, "P");
        c.form  = int(jnum(js, "form"));
        c.count = jnum(js, "count", 1);
        c.size  = jnum(js, "size", 1);
        c.align = jnum(js, "align", 1);
        c.pos   = int(jnum(js, "pos", 1));
        c.par   = jnum(js, "par");
        c.min   = jnum(js, "min");
        std::printf("replay %s (fence size %zu)\n", case_json(c).c_str(), FENCE);
        VERBOSE = true;
        run_case(c);
        if (O.tag)
        {
            std::printf("VIOLATES [%s] %s\n", O.tag, O.detail);
            return 1;
        }
        if (O.abort_phase >= 0)
            std::printf("no C02 violation, OBSERVATION: the library %s %s (no pointer was returned)\n", outcome_name(O.abort_kind),
                        O.abort_phase == PH_SETUP ? "while the allocator was brought into position" : O.abort_phase == PH_REQUEST ? "inside the request" : "while releasing");
        else
            std::printf("no violation (outcome: %s)\n", O.cls == 0 ? "returned, all checks passed" : O.cls == 1 ? "std::bad_alloc-derived exception" : "request not reached");
        return 0;
    }

    const bool   quick  = a.str("tier", "quick") == "quick";
    const int    kind   = kind_of(a.str("kind", "stack"));
    const long   SMAX   = quick ? 256 : 512; // request sizes
    const long   PMAX   = quick ? 64 : 128;  // pool node sizes / collection max node sizes
    const bool   is_pool = kind <= K_POOL_SMALL, is_coll = kind >= K_COLL_NODE_ID && kind <= K_COLL_SMALL_LOG2;
    const long   DEF_HI = (is_pool || is_coll) ? PMAX : SMAX;
    const long   lo = a.num("lo", 1), hi = std::min(a.num("hi", DEF_HI), DEF_HI);
    const long   stride = a.num("stride", 1), off = a.num("off", 0);
    const double budget = double(a.num("time_s", quick ? 110 : 1100));

    // the library's assertion handler writes one line per failed assertion to stderr; observations are counted instead
    if (!a.has("keep_stderr"))
        (void)!std::freopen("/dev/null", "w", stderr);

    report R;
    tally  TL;
    R.rule = "every request (size, count in {1,2,3,7} as array form + node form, alignment) of the kind's domain issued through allocator_traits at "
             "positions 1 fresh, 2 last bytes of a block (every remaining capacity 0..2*bytes; pools: every remaining node count 0..2*nodes; collections: "
             "every remaining arena capacity 0..2*bytes+32 after one node and a reserve() for another bucket), 3 after growth / second stack, "
             "4 request above the reported maxima, 5 second chunk of a small-node pool. A case class is (form, alignment, position, outcome returned/threw, "
             "upstream asked for memory, supported, log2 of bytes); every class counted reached the oracle";
    bool out_of_time = false;
    long last_primary = 0;

    auto evaluate = [&](const kase& c) {
        run_case(c);
        ++R.evaluations;
        int cls = O.cls < 0 ? 3 : O.cls;
        ++TL.cnt[c.pos][cls][O.grew ? 1 : 0];
        if (O.abort_phase >= 0)
        {
            ++TL.aborted[O.abort_phase];
            if (TL.abort_witness.size() < 6)
                TL.abort_witness.push_back(jobj().raw("case", case_json(c)).str("what", outcome_name(O.abort_kind))
                                               .str("phase", O.abort_phase == PH_SETUP ? "bringing into position" : O.abort_phase == PH_REQUEST ? "request" : "release")
                                               .done());
        }
        if (O.cls == 1)
            ++(O.supported ? TL.supported_threw : TL.unsupported_threw);
        TL.setup_threw += O.setup_threw;
        TL.min_missed += O.min_missed;
        int ai = ilog2l(std::size_t(c.align));
        std::size_t key = ((((((std::size_t(c.form) * 16 + std::size_t(ai)) * 6 + std::size_t(c.pos)) * 4 + std::size_t(cls)) * 2 + (O.grew ? 1 : 0)) * 2
                            + (O.supported ? 1 : 0)) * 16
                           + std::size_t(ilog2l(total_bytes(c))));
        if (key < TL.seen.size())
            TL.seen[key] = 1;
        if (O.remaining >= 0 && O.remaining < 65536)
            TL.seen_remaining[std::size_t(O.remaining)] = 1;
        if (R.samples.size() < 6 && (R.evaluations % 9973 == 1))
            R.sample(jobj().raw("case", case_json(c)).str("outcome", O.cls == 0 ? "returned" : O.cls == 1 ? "threw bad_alloc" : O.cls == 3 ? "library aborted" : "other").boolean("supported", O.supported)
                         .boolean("grew", O.grew).num("remaining_before", O.remaining).str("verdict", O.tag ? O.tag : "ok").done());
        if (O.tag)
        {
            std::string tag = O.tag, detail = O.detail;
            run_case(c); // re-check once before reporting
            if (O.tag && tag == O.tag)
                R.add_violation(tag, detail, case_json(c));
            else
                R.errors.push_back("unstable verdict for " + case_json(c) + ": first [" + tag + "], second [" + (O.tag ? O.tag : "none") + "]");
        }
    };
    auto primary_selected = [&](long v) { return !(stride > 1 && (v % stride) != off); };
    auto tick             = [&](long v) {
        last_primary = v;
        R.counters["primary_values_completed"]++;
        if (now_s() - R.t0 > budget)
            out_of_time = true;
    };
    // the five request forms of one (size, alignment)
    auto forms = [&](kase c, bool arrays, const std::function<void(const kase&)>& body) {
        c.form  = 0;
        c.count = 1;
        body(c);
        if (!arrays)
        {
            R.excluded += 4; // array forms: documented as requiring a pool type with array support
            return;
        }
        for (long n : COUNTS)
        {
            c.form  = 1;
            c.count = n;
            body(c);
        }
    };

    if (is_pool)
    {
        const bool small = kind == K_POOL_SMALL;
        for (long P = lo; P <= hi && !out_of_time; ++P)
        {
            if (!primary_selected(P))
                continue;
            const std::size_t ns_eff = small ? std::size_t(P) : std::max<std::size_t>(std::size_t(P), 8);
            for (long s = 1; s <= P + 1; ++s) // P+1: one size above max_node_size (for P < 8 still supported: node_size() is 8)
                for (long al : ALIGN_SMALL)
                {
                    kase c{kind, P, 0, 1, s, al, POS_FRESH, 0, 0};
                    forms(c, !small, [&](const kase& f) {
                        kase        x = f;
                        std::size_t T = total_bytes(x);
                        std::size_t k = x.form ? (T + ns_eff - 1) / ns_eff : 1;
                        x.pos         = POS_FRESH;
                        evaluate(x);
                        x.pos = POS_LAST;
                        for (long j = 0; j <= long(2 * k); ++j)
                        {
                            x.par = j;
                            evaluate(x);
                        }
                        x.par = 0;
                        x.pos = POS_GROWN;
                        evaluate(x);
                        if (!small && x.form && k >= 2)
                        {
                            x.pos = POS_TOOBIG;
                            evaluate(x);
                        }
                        if (small)
                        {
                            x.pos = POS_CHUNK2;
                            for (long f2 : {254L, 255L, 256L})
                            {
                                x.par = f2;
                                evaluate(x);
                            }
                        }
                    });
                }
            tick(P);
        }
    }
    else if (is_coll)
    {
        const bool small = kind == K_COLL_SMALL_ID || kind == K_COLL_SMALL_LOG2;
        for (long M = lo; M <= hi && !out_of_time; ++M)
        {
            if (!primary_selected(M))
                continue;
            if (!small && M < 8)
            {
                ++R.excluded; // not a valid max node size for a list whose nodes hold a pointer
                continue;
            }
            {
                // (a) a collection with a single bucket cannot grow when fences are on: its default reservation is the
                //     whole block, and fence + block + fence never fits the next block (reserve_memory ASSERT(mem))
                const long minsz  = small ? 1 : 8; // smallest node size of the list type; one bucket iff max node size == that
                const bool single = M == minsz;   // (identity: buckets minsz..M; log2: buckets ceil(log2) of minsz..M)
                if (FENCE && single)
                {
                    ++R.excluded;
                    R.counters["excluded_single_bucket_collection_with_fences"]++;
                    continue;
                }
                // (b) small-node collections: blocks whose per-bucket reservation is below one chunk header + node are
                //     never generated (coll_case enlarges the smallest block); one exclusion per max node size
                if (small)
                {
                    ++R.excluded;
                    R.counters["excluded_small_collection_minimum_block"]++;
                }
            }
            for (long s = 1; s <= M + 1; ++s)
                for (long al : ALIGN_SMALL)
                {
                    kase c{kind, M, 0, 1, s, al, POS_FRESH, 0, 0};
                    forms(c, !small, [&](const kase& f) {
                        kase        x = f;
                        std::size_t T = total_bytes(x);
                        x.pos         = POS_FRESH;
                        evaluate(x);
                        x.pos = POS_LAST;
                        // a request the collection must refuse outright (size above the largest bucket, alignment above the
                        // largest power of two dividing the size, capped at 16) is refused before any state is looked at:
                        // three remaining capacities instead of the whole range
                        long nat = 1;
                        while (nat < 16 && x.size % (nat * 2) == 0)
                            nat *= 2;
                        const bool refused = x.align > nat || x.size > M;
                        const long rmax    = long(2 * T + 32);
                        for (long r = 0; r <= rmax; ++r)
                        {
                            if (refused && r != 0 && r != long(T) && r != rmax)
                                continue;
                            x.par = r;
                            evaluate(x);
                        }
                        x.par = 0;
                        x.pos = POS_GROWN;
                        evaluate(x);
                        if (x.form)
                        {
                            x.pos = POS_TOOBIG; // smallest legal block; counts only if the array exceeds max_array_size() there
                            evaluate(x);
                        }
                    });
                }
            tick(M);
        }
    }
    else if (kind == K_STACK || kind == K_ITER || kind == K_STATIC || kind == K_TEMP)
    {
        for (long s = lo; s <= hi && !out_of_time; ++s)
        {
            if (!primary_selected(s))
                continue;
            for (long al : ALIGN_STACK)
            {
                kase c{kind, 0, 0, 1, s, al, POS_FRESH, 0, 0};
                forms(c, true, [&](const kase& f) {
                    kase        x = f;
                    std::size_t T = total_bytes(x);
                    x.pos         = POS_FRESH;
                    evaluate(x);
                    x.pos = POS_LAST;
                    for (long r = 0; r <= long(2 * T); ++r)
                    {
                        x.par = r;
                        evaluate(x);
                    }
                    x.par = 0;
                    if (kind != K_STATIC)
                    {
                        x.pos = POS_GROWN;
                        evaluate(x);
                    }
                    if ((kind == K_STACK && T >= 2) || (kind == K_TEMP && T >= 19))
                    {
                        x.pos = POS_TOOBIG;
                        evaluate(x);
                    }
                });
            }
            tick(s);
        }
    }
    else if (kind == K_ALIGNED_STACK)
    {
        for (long s = lo; s <= hi && !out_of_time; ++s)
        {
            if (!primary_selected(s))
                continue;
            for (long mn : {32L, 64L})
                for (long al : ALIGN_ADAPT)
                {
                    kase c{kind, 0, 0, 1, s, al, POS_FRESH, 0, mn};
                    forms(c, true, [&](const kase& f) {
                        kase        x = f;
                        std::size_t T = total_bytes(x);
                        x.pos         = POS_FRESH;
                        evaluate(x);
                        x.pos = POS_LAST;
                        for (long r = 0; r <= long(2 * T); ++r)
                        {
                            x.par = r;
                            evaluate(x);
                        }
                    });
                }
            tick(s);
        }
    }
    else // low-level allocators and aligned_allocator over them: stateless, one position, two live neighbours
    {
        std::vector<long> mins = {0};
        if (kind == K_ALIGNED_HEAP)
            mins = {8, 16}; // heap_allocator: max_alignment() is 16; a larger minimum violates aligned_allocator's documented precondition
        if (kind == K_ALIGNED_VIRT)
            mins = {32, 64};
        for (long s = lo; s <= hi && !out_of_time; ++s)
        {
            if (!primary_selected(s))
                continue;
            for (long mn : mins)
            {
                if (kind == K_ALIGNED_VIRT)
                    for (long al : ALIGN_ADAPT)
                        forms(kase{kind, 0, 0, 1, s, al, POS_FRESH, 0, mn}, true, [&](const kase& f) { evaluate(f); });
                else
                    for (long al : ALIGN_SMALL)
                        forms(kase{kind, 0, 0, 1, s, al, POS_FRESH, 0, mn}, true, [&](const kase& f) { evaluate(f); });
            }
            tick(s);
        }
    }
    if (out_of_time && last_primary < hi)
    {
        R.exhaustive                       = false;
        R.counters["stopped_after_primary"] = last_primary;
    }
    if (MLOG.overflow)
        R.errors.push_back("malloc interception arena overflowed " + std::to_string(MLOG.overflow) + " times");
    if (SRC.fallback)
        R.errors.push_back("block source had to fall back to malloc " + std::to_string(SRC.fallback) + " times");
    static const char* PN[6] = {"", "fresh", "last_bytes", "after_growth", "above_maxima", "second_chunk"};
    static const char* CN[4] = {"returned", "threw_bad_alloc", "foreign_exception", "library_aborted_or_not_reached"};
    for (int p = 1; p < 6; ++p)
        for (int k = 0; k < 4; ++k)
            for (int g = 0; g < 2; ++g)
                if (TL.cnt[p][k][g])
                    R.counters[std::string("pos_") + PN[p] + "_" + CN[k] + (g ? "_upstream_asked" : "")] = TL.cnt[p][k][g];
    R.counters["supported_request_threw"]   = TL.supported_threw;
    R.counters["unsupported_request_threw"] = TL.unsupported_threw;
    R.counters["prefill_threw"]             = TL.setup_threw;
    R.counters["obs_library_aborted_in_setup"]   = TL.aborted[PH_SETUP];
    R.counters["obs_library_aborted_in_request"] = TL.aborted[PH_REQUEST];
    R.counters["obs_library_aborted_in_release"] = TL.aborted[PH_RELEASE];
    R.counters["obs_min_alignment_missed"]  = TL.min_missed;
    R.counters["fence"]                     = (long long)FENCE;
    long long dr = 0;
    for (auto b : TL.seen_remaining)
        dr += b;
    R.counters["distinct_remaining_capacities"] = dr;
    for (std::size_t i = 0; i < TL.seen.size(); ++i)
        if (TL.seen[i])
            R.classes.insert(u64(i));
    jarr aw;
    for (auto& w : TL.abort_witness)
        aw.raw(w);
    R.write(a.str("out"), {{"abort_witnesses", aw.done()}});
    return 0;
}
