// C11 (and C20): the single block of a joint object is given back whole, with the size and alignment it was obtained with, on
// EVERY way a joint_ptr lets go of its object - for joint types that use their joint memory and for types that never touch it.
// Built with -O2: the library's inline code is compiled as users compile it (found D28: joint_ptr::reset() read the joint stack
// of the object after running its destructor; GCC's lifetime dead store elimination then removed the constructor's stores for
// joint types that never read their joint memory, and the block was released with a garbage size).
//
// Enumeration: joint type x additional size 0..S x release path; enum protocol of BUILDER_GUIDE.md.
#include "../engine/core.hpp"

#include <foonathan/memory/joint_allocator.hpp>

#include <map>
#include <set>
#include <vector>

using namespace verif;
namespace fm = foonathan::memory;

// The ledger must not let the block's address escape (no map keyed by pointer): an escaped pointer forces the compiler to keep
// every store to the object, which hides exactly the class of defect this harness is for. Size and alignment of a block are kept
// in a header in front of it, the counters are plain integers.
struct block_log
{
    std::vector<std::string> errors;
    long                     allocs = 0, deallocs = 0, outstanding = 0;
};
static block_log* g_log = nullptr;
static const std::size_t HDR = 32, TAIL = 64;

struct logging_allocator
{
    using is_stateful = std::true_type;
    int id            = 0;
    void* allocate_node(std::size_t size, std::size_t alignment)
    {
        auto raw = static_cast<unsigned char*>(std::malloc(HDR + size + TAIL));
        std::memset(raw, 0xAA, HDR + size + TAIL); // whatever the library does not write is garbage
        std::size_t hdr[3] = {size, alignment, 0x600DB10Cu};
        std::memcpy(raw, hdr, sizeof hdr);
        ++g_log->allocs;
        ++g_log->outstanding;
        return raw + HDR;
    }
    void deallocate_node(void* p, std::size_t size, std::size_t alignment) noexcept
    {
        ++g_log->deallocs;
        auto        raw = static_cast<unsigned char*>(p) - HDR;
        std::size_t hdr[3];
        std::memcpy(hdr, raw, sizeof hdr);
        if (hdr[2] != 0x600DB10Cu)
        {
            g_log->errors.push_back(fmt("release-unknown|a block was released that is not outstanding (size %zu)", size));
            return;
        }
        if (hdr[0] != size || hdr[1] != alignment)
            g_log->errors.push_back(fmt("release-size|block obtained with size %zu alignment %zu was given back with size %zu alignment %zu",
                                        hdr[0], hdr[1], size, alignment));
        for (std::size_t i = 0; i < TAIL; ++i)
            if (raw[HDR + hdr[0] + i] != 0xAA)
            {
                g_log->errors.push_back(fmt("write-behind-block|byte %zu behind the block of %zu bytes was modified", i, hdr[0]));
                break;
            }
        hdr[2] = 0;
        std::memcpy(raw, hdr, sizeof hdr);
        --g_log->outstanding;
        std::free(raw);
    }
};

//=== joint types ===//
struct plain : fm::joint_type<plain> // never touches its joint memory
{
    int value;
    plain(fm::joint j, int v) : fm::joint_type<plain>(j), value(v) {}
    plain(fm::joint j, const plain& o) : fm::joint_type<plain>(j), value(o.value) {}
    bool ok(int v) const
    {
        return value == v;
    }
};
struct plain_dtor : fm::joint_type<plain_dtor> // user destructor, never touches its joint memory
{
    static int live;
    char       pad[24];
    int        value;
    plain_dtor(fm::joint j, int v) : fm::joint_type<plain_dtor>(j), value(v)
    {
        ++live;
    }
    plain_dtor(fm::joint j, const plain_dtor& o) : fm::joint_type<plain_dtor>(j), value(o.value)
    {
        ++live;
    }
    ~plain_dtor()
    {
        --live;
    }
    bool ok(int v) const
    {
        return value == v;
    }
};
int plain_dtor::live = 0;
struct with_array : fm::joint_type<with_array> // uses whatever fits
{
    fm::joint_array<char> items;
    int                   value;
    with_array(fm::joint j, int v) : fm::joint_type<with_array>(j), items(fm::detail::get_stack(*this).capacity_left(), char(v), *this), value(v) {}
    with_array(fm::joint j, const with_array& o) : fm::joint_type<with_array>(j), items(o.items, *this), value(o.value) {}
    bool ok(int v) const
    {
        for (auto c : items)
            if (c != char(v))
                return false;
        return value == v;
    }
};
struct unused_array : fm::joint_type<unused_array> // has a joint member but leaves it empty
{
    fm::joint_array<int> items;
    int                  value;
    unused_array(fm::joint j, int v) : fm::joint_type<unused_array>(j), items(std::size_t(0), 0, *this), value(v) {}
    unused_array(fm::joint j, const unused_array& o) : fm::joint_type<unused_array>(j), items(o.items, *this), value(o.value) {}
    bool ok(int v) const
    {
        return value == v && items.size() == 0;
    }
};

static const char* const PATHS[] = {"reset()", "destructor", "move assignment from an empty pointer", "move assignment from another object",
                                    "move construction then destructor of the new owner", "clone_joint, both destroyed", "swap then destructors"};
static const int         NPATHS   = 7;

template <class T>
static std::string one(std::size_t extra, int path, bool verbose)
{
    block_log log;
    g_log = &log;
    std::string verdict;
    int         oc;
    auto body = [&] {
        logging_allocator a;
        {
            auto p = fm::allocate_joint<T>(a, fm::joint_size(extra), 42);
            if (!p->ok(42))
                verdict = "content|freshly created object does not hold its value";
            switch (path)
            {
            case 0:
                p.reset();
                break;
            case 1:
                break;
            case 2:
                p = fm::joint_ptr<T, logging_allocator>(a);
                break;
            case 3:
                p = fm::allocate_joint<T>(a, fm::joint_size(extra + 8), 43);
                if (!p->ok(43))
                    verdict = "content|object taken over by move assignment lost its value";
                break;
            case 4:
            {
                fm::joint_ptr<T, logging_allocator> q(std::move(p));
                if (!q->ok(42))
                    verdict = "content|moved object lost its value";
                break;
            }
            case 5:
            {
                auto q = fm::clone_joint(a, *p);
                if (!q->ok(42) || !p->ok(42))
                    verdict = "content|clone or original lost its value";
                break;
            }
            case 6:
            {
                auto q = fm::allocate_joint<T>(a, fm::joint_size(extra + 16), 44);
                swap(p, q);
                if (!p->ok(44) || !q->ok(42))
                    verdict = "content|swapped objects lost their values";
                break;
            }
            }
        }
    };
    VERIF_GUARDED(oc, body());
    g_log = nullptr;
    if (verbose)
    {
        std::printf("  %ld allocation(s), %ld release(s), %ld block(s) outstanding, outcome %s\n", log.allocs, log.deallocs, log.outstanding, outcome_name(oc));
        for (auto& e : log.errors)
            std::printf("  %s\n", e.c_str());
    }
    if (oc != OUT_OK)
        return fmt("%s|the library %s", outcome_name(oc), outcome_name(oc));
    if (!log.errors.empty())
        return log.errors[0];
    if (!verdict.empty())
        return verdict;
    if (log.outstanding)
        return fmt("block-leaked|%ld block(s) never given back", log.outstanding);
    if (log.allocs != log.deallocs)
        return fmt("release-count|%ld allocations, %ld releases", log.allocs, log.deallocs);
    if (plain_dtor::live != 0)
    {
        int l            = plain_dtor::live;
        plain_dtor::live = 0;
        return fmt("object-count|%d object(s) alive after everything was destroyed", l);
    }
    return "";
}

static const char* const TYPES[] = {"plain", "plain_dtor", "with_array", "unused_array"};
static std::string run(int t, std::size_t extra, int path, bool verbose)
{
    switch (t)
    {
    case 0:
        return one<plain>(extra, path, verbose);
    case 1:
        return one<plain_dtor>(extra, path, verbose);
    case 2:
        return one<with_array>(extra, path, verbose);
    default:
        return one<unused_array>(extra, path, verbose);
    }
}

int main(int argc, char** argv)
{
    std::map<std::string, std::string> a;
    for (int i = 1; i + 1 < argc; i += 2)
        a[argv[i]] = argv[i + 1];
    install_guards(3000);
    if (a.count("--replay"))
    {
        std::string js  = a["--replay"];
        auto        num = [&](const char* k) {
            auto p = js.find(std::string("\"") + k + "\"");
            return p == std::string::npos ? 0L : std::atol(js.c_str() + js.find(':', p) + 1);
        };
        int         t = int(num("type")), path = int(num("path"));
        std::size_t extra = std::size_t(num("extra"));
        std::printf("joint type %s, %zu additional bytes, released by: %s\n", TYPES[t], extra, PATHS[path]);
        std::string v = run(t, extra, path, true);
        std::printf("verdict: %s\n", v.empty() ? "ok" : v.c_str());
        return v.empty() ? 0 : 1;
    }
    bool        thor = a.count("--tier") && a["--tier"] == "thorough";
    double      t0   = now_s();
    std::size_t S    = thor ? 1024 : 160;
    long        ev   = 0;
    std::set<std::string> classes, tags;
    jarr        sm, vs;
    int         nsm = 0;
    for (int t = 0; t < 4; ++t)
        for (std::size_t extra = 0; extra <= S; ++extra)
            for (int path = 0; path < NPATHS; ++path)
            {
                std::string v = run(t, extra, path, false);
                ++ev;
                classes.insert(fmt("%d:%d:%zu", t, path, extra % 16));
                if (t == 2 && extra == 24 && nsm < 3 && ++nsm)
                    sm.str(fmt("%s +%zu bytes, %s", TYPES[t], extra, PATHS[path]));
                if (!v.empty())
                {
                    auto        bar = v.find('|');
                    std::string tag = std::string(TYPES[t]) + "/" + v.substr(0, bar);
                    if (tags.insert(tag).second)
                    {
                        std::string v2 = run(t, extra, path, false);
                        jobj        in, jv;
                        in.num("type", t).num("extra", (long long)extra).num("path", path).str("what", fmt("%s +%zu bytes, %s", TYPES[t], extra, PATHS[path]));
                        jv.str("tag", tag).str("detail", v.substr(bar + 1) + fmt(" (%s, %zu additional bytes, released by %s)", TYPES[t], extra, PATHS[path]) + (v2 == v ? "" : " (not reproduced)")).raw("input", in.done());
                        vs.raw(jv.done());
                    }
                }
            }
    jobj o;
    o.num("evaluations", ev).num("distinct_nontrivial", (long long)classes.size())
        .str("rule", "joint type {never touches its joint memory, the same with a user destructor, array filling the block, empty array} x additional size 0..S x "
                     "{reset, destructor, move assignment from empty / from another object, move construction, clone, swap}: every block is given back exactly once with "
                     "the size and alignment it was obtained with, nothing behind it is written, values survive; harness compiled with -O2; class = (type, path, size mod 16)")
        .raw("samples", sm.done()).boolean("exhaustive", true).num("excluded", 0).dbl("wall_s", now_s() - t0).raw("violations", vs.done());
    std::string out = a.count("--out") ? a["--out"] : "";
    FILE*       f   = out.empty() ? stdout : std::fopen(out.c_str(), "w");
    std::fputs((o.done() + "\n").c_str(), f);
    if (!out.empty())
        std::fclose(f);
    return 0;
}
