// C18 part (a): exhaustive (node size, node count) grid for min_block_size of the three pool types, and every
// byte size for memory_stack / memory_arena, on the real library over a malloc-backed LOGGING block allocator.
//
//   h_minblock [--part pools|stacks|all] [--types node,array,small] [--ns_lo a --ns_hi b --ns_stride k --ns_off i]
//              [--time_s T] [--strict_next 1] --tier quick|thorough --out <file>
//   h_minblock --replay '{"part":"pool","type":"small","ns":1,"n":510,"serve":1}'
//
// Oracle (statement of C18, first sentence): an allocator constructed with the block size returned by
// min_block_size for n nodes (bytes) can serve n such allocations without growing.
#include "grids_common.hpp"

#include <foonathan/memory/memory_pool.hpp>
#include <foonathan/memory/memory_stack.hpp>

using namespace grids;

static block_source SRC;

struct verdict
{
    const char* tag; // nullptr: no violation
    char        detail[320];
    long        nextcap_mismatch, nextcap_node_mismatch; // observations (next_capacity is not part of this grid's oracle)
    long        cap_nodes, min_bs;
};
static verdict V;
static bool    STRICT_NEXT = false;

static void fail(const char* tag, const char* f, ...)
{
    if (V.tag)
        return; // first failure of the case wins
    V.tag = tag;
    va_list ap;
    va_start(ap, f);
    std::vsnprintf(V.detail, sizeof V.detail, f, ap);
    va_end(ap);
}

template <class Tag>
struct tag_name;
template <>
struct tag_name<fm::node_pool>
{
    static const char* get()
    {
        return "node";
    }
    static const int id = 0;
};
template <>
struct tag_name<fm::array_pool>
{
    static const char* get()
    {
        return "array";
    }
    static const int id = 1;
};
template <>
struct tag_name<fm::small_node_pool>
{
    static const char* get()
    {
        return "small";
    }
    static const int id = 2;
};

static const long BOUNDARY[] = {254, 255, 256, 257, 509, 510, 511, 512, 764, 765, 766, 1019, 1020, 1021};
static bool is_boundary(long n)
{
    for (long b : BOUNDARY)
        if (b == n)
            return true;
    return false;
}

// the real thing: one pool, one (node size, count)
template <class Tag>
static void pool_body(long ns, long n, bool serve, bool verbose)
{
    using pool_t = fm::memory_pool<Tag, log_block_allocator>;
    const std::size_t bs = pool_t::min_block_size(std::size_t(ns), std::size_t(n));
    V.min_bs             = long(bs);
    pool_t pool(std::size_t(ns), bs, &SRC);
    const std::size_t nsz = pool.node_size();
    const std::size_t cap = pool.capacity_left();
    V.cap_nodes           = long(cap / nsz);
    if (verbose)
        std::printf("  %s pool: node_size arg %ld -> node_size() %zu, min_block_size(%ld,%ld) = %zu, upstream requests %ld "
                    "(first block %zu bytes), capacity_left() = %zu = %zu nodes, next_capacity() = %zu\n",
                    tag_name<Tag>::get(), ns, nsz, ns, n, bs, SRC.requests, SRC.nrec ? SRC.recs[0].size : 0, cap, cap / nsz,
                    pool.next_capacity());
    if (SRC.requests != 1 || SRC.nrec != 1 || SRC.recs[0].size != bs)
        fail("upstream-request-mismatch", "%s pool(%ld, min_block_size(%ld,%ld)=%zu): construction made %ld upstream requests, first of %zu bytes",
             tag_name<Tag>::get(), ns, ns, n, bs, SRC.requests, SRC.nrec ? SRC.recs[0].size : 0);
    if (cap < std::size_t(n) * nsz)
        fail("capacity-short", "%s pool(node size %ld) built with min_block_size(%ld,%ld)=%zu reports capacity_left()=%zu = %zu nodes of %zu bytes, fewer than the %ld promised",
             tag_name<Tag>::get(), ns, ns, n, bs, cap, cap / nsz, nsz, n);
    // Observation only (next_capacity is outside this grid's oracle unless --strict_next is given): the logging upstream
    // hands out equally sized blocks, so the next block adds what the first one added. The unchanged library over-reports
    // here for small pools (usable_size ignores the alignment buffer between chunks): by a few bytes for some shapes,
    // by one whole node from ~1500 nodes on (e.g. node size 14, block 28880: 2041 nodes reported, 2040 delivered).
    if (pool.next_capacity() != cap)
        ++V.nextcap_mismatch;
    if (pool.next_capacity() / nsz != cap / nsz)
    {
        ++V.nextcap_node_mismatch;
        if (STRICT_NEXT)
            fail("next-capacity-mismatch", "%s pool(node size %ld, block %zu): next_capacity()=%zu = %zu nodes, but an identical block really added %zu nodes (capacity_left()=%zu)",
                 tag_name<Tag>::get(), ns, bs, pool.next_capacity(), pool.next_capacity() / nsz, cap / nsz, cap);
    }
    if (serve)
    {
        long got = 0;
        for (; got < n; ++got)
        {
            void* p = pool.try_allocate_node();
            if (!p)
                break;
            if (!SRC.inside_live(p, nsz))
            {
                fail("node-outside-block", "%s pool(node size %ld, n %ld): node #%ld at %p is not inside the upstream block", tag_name<Tag>::get(),
                     ns, n, got, p);
                break;
            }
            *static_cast<volatile unsigned char*>(p) = 0x5a; // the node is writable
        }
        if (verbose)
            std::printf("  served %ld of %ld try_allocate_node() calls, upstream requests now %ld\n", got, n, SRC.requests);
        if (got < n)
            fail("serve-short", "%s pool(node size %ld) built with min_block_size(%ld,%ld)=%zu served only %ld of %ld try_allocate_node() calls",
                 tag_name<Tag>::get(), ns, ns, n, bs, got, n);
        if (SRC.requests != 1)
            fail("grew", "%s pool(node size %ld, n %ld): %ld upstream block requests after serving, expected 1", tag_name<Tag>::get(), ns, n,
                 SRC.requests);
    }
}

// part: 1 memory_stack, 2 memory_arena<cached>, 3 memory_arena<uncached>
static void bytes_body(int part, long n, bool verbose)
{
    if (part == 1)
    {
        using stack_t        = fm::memory_stack<log_block_allocator>;
        const std::size_t bs = stack_t::min_block_size(std::size_t(n));
        V.min_bs             = long(bs);
        stack_t st(bs, &SRC);
        if (verbose)
            std::printf("  memory_stack: min_block_size(%ld) = %zu, capacity_left() = %zu, fence %zu\n", n, bs, st.capacity_left(), FENCE);
        if (SRC.requests != 1 || SRC.recs[0].size != bs)
            fail("upstream-request-mismatch", "memory_stack(min_block_size(%ld)=%zu): %ld upstream requests, first of %zu bytes", n, bs, SRC.requests,
                 SRC.nrec ? SRC.recs[0].size : 0);
        if (st.capacity_left() != std::size_t(n))
            fail("stack-capacity", "memory_stack built with min_block_size(%ld)=%zu reports capacity_left()=%zu, documented: exactly %ld", n, bs,
                 st.capacity_left(), n);
        // the library documents min_block_size as not accounting for fences: demand n - 2*fence bytes then
        if (std::size_t(n) > 2 * FENCE)
        {
            std::size_t want = std::size_t(n) - 2 * FENCE;
            void*       p    = nullptr;
            try
            {
                p = st.allocate(want, 1);
            }
            catch (std::bad_alloc&)
            {
                fail("stack-alloc-threw", "memory_stack(min_block_size(%ld)): allocate(%zu, 1) threw (fence %zu)", n, want, FENCE);
                return;
            }
            if (verbose)
                std::printf("  allocate(%zu, 1) -> %p, upstream requests %ld\n", want, p, SRC.requests);
            if (SRC.requests != 1)
                fail("grew", "memory_stack(min_block_size(%ld)): allocate(%zu, 1) needed %ld upstream blocks (fence %zu)", n, want, SRC.requests, FENCE);
            else if (!p || !SRC.inside_live(p, want))
                fail("alloc-outside-block", "memory_stack(min_block_size(%ld)): allocate(%zu, 1) returned %p outside the block", n, want, p);
        }
    }
    else
    {
        std::size_t      bs;
        fm::memory_block b;
        if (part == 2)
        {
            using arena_t = fm::memory_arena<log_block_allocator, true>;
            bs            = arena_t::min_block_size(std::size_t(n));
            arena_t a(bs, &SRC);
            b = a.allocate_block();
            if (!SRC.inside_live(b.memory, b.size))
                fail("block-outside-upstream", "memory_arena(min_block_size(%ld)=%zu): block %p+%zu is not inside the upstream block", n, bs, b.memory,
                     b.size);
        }
        else
        {
            using arena_t = fm::memory_arena<log_block_allocator, false>;
            bs            = arena_t::min_block_size(std::size_t(n));
            arena_t a(bs, &SRC);
            b = a.allocate_block();
            if (!SRC.inside_live(b.memory, b.size))
                fail("block-outside-upstream", "memory_arena(min_block_size(%ld)=%zu): block %p+%zu is not inside the upstream block", n, bs, b.memory,
                     b.size);
        }
        V.min_bs = long(bs);
        if (verbose)
            std::printf("  memory_arena<%s>: min_block_size(%ld) = %zu, allocate_block().size = %zu, upstream requests %ld\n",
                        part == 2 ? "cached" : "uncached", n, bs, b.size, SRC.requests);
        if (b.size != std::size_t(n))
            fail("arena-capacity", "memory_arena built with min_block_size(%ld)=%zu hands out a block of %zu bytes, documented: exactly %ld", n, bs, b.size,
                 n);
        if (SRC.requests != 1 || SRC.recs[0].size != bs)
            fail("upstream-request-mismatch", "memory_arena(min_block_size(%ld)=%zu): %ld upstream requests", n, bs, SRC.requests);
    }
}

struct mcase
{
    int  part; // 0 pool, 1 stack, 2 arena cached, 3 arena uncached
    int  type; // pool type id
    long ns, n;
    bool serve;
};

static const char* part_name(int p)
{
    return p == 0 ? "pool" : p == 1 ? "stack" : p == 2 ? "arena_cached" : "arena_uncached";
}
static const char* type_name(int t)
{
    return t == 0 ? "node" : t == 1 ? "array" : "small";
}

static std::string case_json(const mcase& c)
{
    jobj o;
    o.str("part", part_name(c.part));
    if (c.part == 0)
        o.str("type", type_name(c.type)).num("ns", c.ns);
    o.num("n", c.n).num("serve", c.serve ? 1 : 0);
    return o.done();
}

// runs one case contained; fills V
static void run_case(const mcase& c, bool verbose)
{
    V.tag              = nullptr;
    V.detail[0]        = 0;
    V.nextcap_mismatch = V.nextcap_node_mismatch = 0;
    V.cap_nodes = V.min_bs = -1;
    SRC.reset();
    int out;
    GRID_GUARDED(out, {
        if (c.part == 0)
        {
            if (c.type == 0)
                pool_body<fm::node_pool>(c.ns, c.n, c.serve, verbose);
            else if (c.type == 1)
                pool_body<fm::array_pool>(c.ns, c.n, c.serve, verbose);
            else
                pool_body<fm::small_node_pool>(c.ns, c.n, c.serve, verbose);
        }
        else
            bytes_body(c.part, c.n, verbose);
    });
    if (out != OUT_OK && !V.tag)
    {
        static char        tagbuf[48];
        std::snprintf(tagbuf, sizeof tagbuf, "%s-with-min-block-size", outcome_name(out));
        V.tag = tagbuf;
        std::snprintf(V.detail, sizeof V.detail, "%s %s(ns %ld, n %ld): the library %s while constructing/serving with min_block_size (=%ld)",
                      part_name(c.part), c.part == 0 ? type_name(c.type) : "", c.ns, c.n, outcome_name(out), V.min_bs);
    }
}

int main(int argc, char** argv)
{
    argmap a(argc, argv);
    install_guards(4000);
    install_quiet_handlers();
    SRC.init(std::size_t(4) << 20);
    STRICT_NEXT = a.num("strict_next", 0) != 0;

    if (a.has("replay"))
    {
        std::string js = a.str("replay");
        mcase       c;
        std::string part = jstr(js, "part", "pool");
        c.part           = part == "pool" ? 0 : part == "stack" ? 1 : part == "arena_cached" ? 2 : 3;
        std::string t    = jstr(js, "type", "node");
        c.type           = t == "node" ? 0 : t == "array" ? 1 : 2;
        c.ns             = jnum(js, "ns", 1);
        c.n              = jnum(js, "n", 1);
        c.serve          = jnum(js, "serve", 1) != 0;
        std::printf("replay %s (fence size %zu)\n", case_json(c).c_str(), FENCE);
        run_case(c, true);
        if (V.tag)
        {
            std::printf("VIOLATES [%s] %s\n", V.tag, V.detail);
            return 1;
        }
        std::printf("no violation\n");
        return 0;
    }

    const bool        quick  = a.str("tier", "quick") == "quick";
    const std::string part   = a.str("part", "all");
    const std::string types  = a.str("types", "node,array,small");
    const long        NS_MAX = quick ? 128 : 512; // quick: 1..64 full, 65..128 boundary counts only
    const long        NS_FULL = quick ? 64 : 512;
    const long        N_MAX  = quick ? 1100 : 2000;
    const long        ns_lo = a.num("ns_lo", 1), ns_hi = a.num("ns_hi", NS_MAX);
    const long        stride = a.num("ns_stride", 1), off = a.num("ns_off", 0);
    const double      budget = double(a.num("time_s", quick ? 100 : 1000));

    report R;
    R.rule = "pools: every (pool type, node size, node count) of the tier's grid, count nodes evaluated one by one: pool constructed with "
             "min_block_size(node size, n) over a logging block allocator; capacity_left() >= n*node_size() and exactly one upstream request of "
             "that size; n try_allocate_node() calls all succeed inside the block without further upstream request for every boundary count "
             "(254..257,509..512,764..766,1019..1021), every 7th grid combination, and for small_node_pool every n with n mod 255 in {0,1,253,254}. "
             "stacks/arenas: every byte size 1..4096: capacity_left()==n (arena: block size == n), one allocation of n-2*fence bytes fits without "
             "growth. A case class is (part, pool type, node size, chunks=ceil(n/255), served?) resp. (part, n); every class counted reached the oracle";

    long long   served = 0, nextcap_mismatch = 0, nextcap_node_mismatch = 0;
    bool        out_of_time = false;
    std::string completed_ns;
    long        last_done_ns = 0;
    int         sampled_small = 0, sampled_first = 0;

    auto evaluate = [&](const mcase& c) {
        run_case(c, false);
        ++R.evaluations;
        served += c.serve;
        nextcap_mismatch += V.nextcap_mismatch;
        nextcap_node_mismatch += V.nextcap_node_mismatch;
        hasher h;
        h.word(u64(c.part));
        h.word(u64(c.type));
        h.word(c.part == 0 ? u64(c.ns) : u64(c.n));
        h.word(c.part == 0 ? u64((c.n + 254) / 255) : 0);
        h.word(u64(c.serve));
        R.classes.insert(h.get().a);
        // a few actual cases as samples: the first served small-pool boundary case, the first cases of each part
        if ((c.part == 0 && c.serve && c.type == 2 && c.n == 510 && sampled_small++ == 0)
            || (c.part == 0 && c.n == 1 && c.type == 0 && sampled_first++ == 0)
            || (c.part != 0 && c.n == 100))
            R.sample(jobj().raw("case", case_json(c)).num("min_block_size", V.min_bs).num("capacity_nodes", V.cap_nodes)
                         .num("upstream_requests", SRC.requests).str("verdict", V.tag ? V.tag : "ok").done());
        if (V.tag)
        {
            // re-check once before reporting
            std::string tag = V.tag, detail = V.detail;
            run_case(c, false);
            if (V.tag && tag == V.tag)
                R.add_violation(tag, detail, case_json(c));
            else
                R.errors.push_back("unstable verdict for " + case_json(c) + ": first [" + tag + "], second [" + (V.tag ? V.tag : "none") + "]");
        }
    };

    if (part == "all" || part == "pools")
    {
        for (long ns = ns_lo; ns <= ns_hi && ns <= NS_MAX && !out_of_time; ++ns)
        {
            if (stride > 1 && (ns % stride) != off)
                continue;
            for (int t = 0; t < 3; ++t)
            {
                if (types.find(type_name(t)) == std::string::npos)
                    continue;
                auto one = [&](long n) {
                    mcase c{0, t, ns, n, false};
                    long long idx = (long long)(ns - 1) * N_MAX + (n - 1);
                    c.serve       = is_boundary(n) || idx % 7 == 0;
                    if (t == 2)
                    {
                        long m = n % 255;
                        c.serve = c.serve || m == 0 || m == 1 || m == 253 || m == 254;
                    }
                    evaluate(c);
                };
                if (ns <= NS_FULL)
                    for (long n = 1; n <= N_MAX; ++n)
                        one(n);
                else
                    for (long n : BOUNDARY)
                        one(n);
            }
            last_done_ns = ns;
            R.counters["node_sizes_completed"]++;
            if (now_s() - R.t0 > budget)
                out_of_time = true;
        }
        if (out_of_time && last_done_ns < std::min(ns_hi, NS_MAX))
        {
            R.exhaustive = false;
            R.counters["stopped_after_node_size"] = last_done_ns;
        }
    }
    if (part == "all" || part == "stacks")
    {
        for (int p = 1; p <= 3; ++p)
            for (long n = 1; n <= 4096; ++n)
            {
                mcase c{p, 0, 0, n, true};
                if (p == 1 && std::size_t(n) <= 2 * FENCE)
                    ++R.excluded; // allocation part not applicable: n - 2*fence is not positive (capacity clause still checked)
                evaluate(c);
            }
    }
    R.counters["served_cases"]                              = served;
    R.counters["obs_next_capacity_differs_from_capacity"]   = nextcap_mismatch;
    R.counters["obs_next_capacity_differs_in_whole_nodes"]  = nextcap_node_mismatch;
    R.counters["fence"]                                     = (long long)FENCE;
    R.counters["upstream_fallback_blocks"]                  = SRC.fallback;
    R.write(a.str("out"));
    return 0;
}
