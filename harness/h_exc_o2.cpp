// C20, optimised twin of h_exc.cpp: only the "scoped" helpers (object created and released inside one function, the way
// user code does), compiled with -O2 through the pragma below so that the compiler can inline construction, destruction
// and the release into one scope and exploit object lifetime rules (this is how a read of the joint stack AFTER the
// destructor in joint_ptr::reset() became visible). Same command line protocol and oracle as h_exc.
#pragma GCC optimize("O2")
#define VERIF_EXC_SCOPED_ONLY 1
#include "exc_impl.hpp"
