// C08 - composable deallocation recognises exactly its own memory.
//   h_compose --part sib  --scen <name> [--depth d] [--shard i --of n] --tier quick|thorough --out file
//   h_compose --part comp --scen <comp>/<leafcfg>/<std|try> | --group k --groups n   ...
//   h_compose --part .. --replay '{"scen":"..","ops":[..]}'
//   h_compose --list
// Stateless enumeration: every operation sequence up to the depth is executed from scratch on fresh real objects.
#include "../engine/core.hpp"
#include "compose_common.hpp"
#include "compose_comp.hpp"
#include "compose_sib.hpp"

#include <memory>

using namespace c08;

namespace
{
    struct job_result
    {
        u64                      sequences = 0, states = 0;
        std::vector<u64>         per_depth;
        std::vector<found_t>     found;
        std::vector<std::string> found_scen;
        std::vector<std::string> samples;
        bool                     exhaustive = true;
        int                      systems    = 0;
    };

    void explore_system(system_t& sys, int depth, int shard, int of, job_result& jr)
    {
        explorer ex(sys, depth, shard, of);
        ex.go();
        jr.sequences += ex.sequences;
        jr.states += ex.states.n;
        if (jr.per_depth.size() < ex.per_depth.size())
            jr.per_depth.resize(ex.per_depth.size(), 0);
        for (std::size_t i = 0; i < ex.per_depth.size(); ++i)
            jr.per_depth[i] += ex.per_depth[i];
        for (auto& f : ex.found)
        {
            jr.found.push_back(f);
            jr.found_scen.push_back(sys.name());
        }
        if (jr.samples.size() < 4)
            for (auto& s : ex.samples)
                if (jr.samples.size() < 4)
                    jr.samples.push_back(jobj().str("scen", sys.name()).raw("ops", ops_json(s)).str("readable", sys.describe(s)).done());
        if (ex.stop || ex.unconfirmed)
            jr.exhaustive = false;
        ++jr.systems;
    }

    void no_leak(const fm::allocator_info&, std::ptrdiff_t) noexcept {}
    void no_oom(const fm::allocator_info&, std::size_t) noexcept {}
    void no_badsize(const fm::allocator_info&, std::size_t, std::size_t) noexcept {}
} // namespace

int main(int argc, char** argv)
{
    std::string part = "sib", scen, out, tier = "quick", replay, place = "asc", mode = "all";
    int         dual = 0;
    int         depth = 0, shard = 0, of = 1, group = 0, groups = 1;
    bool        list = false;
    for (int i = 1; i < argc; ++i)
    {
        std::string a = argv[i];
        auto        nx = [&]() -> std::string { return i + 1 < argc ? argv[++i] : ""; };
        if (a == "--part")
            part = nx();
        else if (a == "--scen")
            scen = nx();
        else if (a == "--out")
            out = nx();
        else if (a == "--tier")
            tier = nx();
        else if (a == "--depth")
            depth = std::atoi(nx().c_str());
        else if (a == "--shard")
            shard = std::atoi(nx().c_str());
        else if (a == "--of")
            of = std::atoi(nx().c_str());
        else if (a == "--group")
            group = std::atoi(nx().c_str());
        else if (a == "--groups")
            groups = std::atoi(nx().c_str());
        else if (a == "--mode")
            mode = nx();
        else if (a == "--dual")
            dual = std::atoi(nx().c_str());
        else if (a == "--place")
            place = nx();
        else if (a == "--grow")
            g_vblk_grow = std::atoi(nx().c_str());
        else if (a == "--replay")
            replay = nx();
        else if (a == "--list")
            list = true;
    }
    fm::set_leak_handler(no_leak);
    fm::out_of_memory::set_handler(no_oom);
    fm::bad_allocation_size::set_handler(no_badsize);
    install_guards(1000);
    UP().place = place == "desc" ? PLACE_DESC : place == "alt" ? PLACE_ALT : PLACE_ASC;
    double t0 = now_s();

    auto sibs  = sib_scenarios();
    auto comps = comp_defs();
    auto lcs   = leaf_cfgs();

    // all part 2 systems: composition x leaf configuration x interface
    struct cs
    {
        std::size_t c, l;
        bool        tm;
    };
    std::vector<cs> csys;
    {
        // which compositions are composable is a compile time property: probe by constructing once
        for (std::size_t c = 0; c < comps.size(); ++c)
        {
            for (int i = 0; i < 3; ++i)
                g_leaf[i].be = lcs[0].be[i];
            IComp* p    = comps[c].make();
            bool   comp = p->composable;
            delete p;
            for (std::size_t l = 0; l < lcs.size(); ++l)
            {
                if (comps[c].leaves == 2 && lcs[l].name == "iiP")
                    continue;
                // move systems (two objects) only with the leaf configurations made for them, selected by --dual 1
                if (comps[c].dual() != lcs[l].dual() || comps[c].dual() != (dual != 0))
                    continue;
                if (comps[c].dual())
                {
                    if (place == "asc")
                    {
                        if (mode != "try")
                            csys.push_back({c, l, false});
                        if (comp && mode != "std")
                            csys.push_back({c, l, true});
                    }
                    continue;
                }
                // extended leaf configurations: subset of the compositions; descending / alternating block placement: only
                // the configurations with real pools that own more than one block
                if (lcs[l].extended && !comp_in_subset(comps[c].name))
                    continue;
                if (place != "asc" && !(comp_in_subset(comps[c].name) && (lcs[l].name == "P2ii" || lcs[l].name == "N3P2i" || lcs[l].name == "iiP")))
                    continue;
                if (mode != "try")
                    csys.push_back({c, l, false});
                if (comp && mode != "std")
                    csys.push_back({c, l, true});
            }
        }
    }
    auto cs_name = [&](const cs& x) { return comps[x.c].name + "/" + lcs[x.l].name + (x.tm ? "/try" : "/std"); };

    if (list)
    {
        for (auto& s : sibs)
            std::printf("sib %s\n", s.name.c_str());
        for (auto& x : csys)
            std::printf("comp %s\n", cs_name(x).c_str());
        return 0;
    }

    if (!replay.empty())
    {
        std::vector<int> ops;
        std::string      rs = scen;
        if (!parse_replay(replay, rs, ops))
        {
            std::fprintf(stderr, "cannot parse replay input\n");
            return 2;
        }
        std::unique_ptr<system_t> sys;
        if (part == "sib")
        {
            for (auto& s : sibs)
                if (s.name == rs)
                    sys.reset(new sib_system(s));
        }
        else
            for (auto& x : csys)
                if (cs_name(x) == rs)
                    sys.reset(new comp_system(comps[x.c], lcs[x.l], x.tm));
        if (!sys)
        {
            std::fprintf(stderr, "unknown scenario '%s'\n", rs.c_str());
            return 2;
        }
        outcome o;
        sys->run(ops, o, true);
        for (auto& v : o.v)
            std::printf("VIOLATION [%s] %s\n", v.tag.c_str(), v.detail.c_str());
        for (auto& e : harness_errors())
            std::printf("HARNESS ERROR %s\n", e.c_str());
        if (o.v.empty())
            std::printf("no violation\n");
        return o.v.empty() ? 0 : 1;
    }

    job_result  jr;
    std::string rule;
    if (part == "sib")
    {
        if (depth == 0)
            depth = tier == "quick" ? 4 : 5;
        bool any = false;
        for (auto& s : sibs)
            if (scen.empty() || s.name == scen)
            {
                sib_system sys(s);
                explore_system(sys, depth, shard, of, jr);
                any = true;
            }
        if (!any)
            herror("unknown sibling scenario " + scen);
        rule = fmt("part 1: ALL operation sequences of length 1..%d (shard %d of %d of the first operation) over three sibling composable allocators X,Y,Z "
                   "built on one first-fit upstream (construction order R0,X,G1,Y,Z, all blocks adjacent; block placement '%s': asc = lowest free address, "
                   "desc = highest free address, alt = per owner alternating lowest/highest) plus raw upstream nodes R; alphabet: "
                   "try_allocate_node/array and growing allocate_node/array on X,Y,Z, next_iteration() on iteration allocators, a raw node, "
                   "try_deallocate_node/array(A,p,shape of p) for every A in {X,Y,Z} and every live p of every owner; one evaluation = one sequence executed "
                   "from scratch with the oracle on every step; a class is (scenario, A, owner of p, node/array, position of p relative to A's blocks, result) "
                   "or (scenario, allocator, allocation call, success)",
                   depth, shard, of, place.c_str());
        if (g_vblk_grow)
            rule += "; block source of X,Y,Z doubles its block size with every block (older blocks are smaller than the newest)";
    }
    else
    {
        if (depth == 0)
            depth = dual ? (tier == "quick" ? 4 : 5) : (tier == "quick" ? 5 : 7);
        bool any = false;
        for (std::size_t i = 0; i < csys.size(); ++i)
        {
            if (!scen.empty() ? cs_name(csys[i]) != scen : int(i % std::size_t(groups)) != group)
                continue;
            comp_system sys(comps[csys[i].c], lcs[csys[i].l], csys[i].tm);
            explore_system(sys, depth, 0, 1, jr);
            any = true;
        }
        if (!any)
            herror("no composition selected (" + scen + ")");
        rule = fmt("part 2%s: ALL operation sequences of length 1..%d over {allocate node(16), allocate array(1|2|3 x 16), release any live allocation"
                   "; composable interface: try_ variants plus try_deallocate of an outsider pointer; next_iteration() when leaf<0> is an iteration_allocator} "
                   "on every composition x leaf configuration x interface, upstream block placement '%s' "
                   "(group %d of %d); leaves leaf<0..2> log every call; a class is (composition, leaf configuration, interface, request, serving leaf, "
                   "number of live allocations) or (.., release shape, serving leaf)",
                   dual ? " (move systems: two objects x, y of the same composition type with aligned_allocator layers of minimum alignment 16 / 8 over "
                          "separate leaves; 8-byte requests; additional operations x = std::move(y), y = std::move(x); ownership follows the move)"
                        : "",
                   depth, place.c_str(), group, groups);
    }

    jobj j;
    j.num("evaluations", (long long)jr.sequences);
    j.num("distinct_nontrivial", (long long)class_keys().size());
    j.str("rule", rule);
    {
        jarr s;
        for (auto& x : jr.samples)
            s.raw(x);
        j.raw("samples", s.done());
    }
    j.boolean("exhaustive", jr.exhaustive && harness_errors().empty());
    j.num("excluded", 0);
    j.dbl("wall_s", now_s() - t0);
    {
        jarr v;
        for (std::size_t i = 0; i < jr.found.size(); ++i)
        {
            auto& f = jr.found[i];
            v.raw(jobj()
                      .str("tag", f.tag)
                      .str("detail", fmt("[%s] ", jr.found_scen[i].c_str()) + f.detail + fmt(" (%lld sequence(s) with this tag)", f.occurrences))
                      .raw("input", jobj().str("scen", jr.found_scen[i]).raw("ops", ops_json(f.ops)).done())
                      .done());
        }
        j.raw("violations", v.done());
    }
    {
        jarr e;
        for (auto& x : harness_errors())
            e.str(x);
        j.raw("harness_errors", e.done());
    }
    {
        jobj x;
        x.num("depth", depth);
        x.num("systems", jr.systems);
        x.num("sequences", (long long)jr.sequences);
        x.num("distinct_states", (long long)jr.states);
        jarr pd;
        for (auto d : jr.per_depth)
            pd.raw(std::to_string(d));
        x.raw("sequences_per_length", pd.done());
        for (auto& c : counters())
            x.num(c.first, c.second);
        j.raw("extra", x.done());
    }
    std::string js = j.done();
    if (!out.empty())
    {
        FILE* f = std::fopen(out.c_str(), "w");
        if (f)
        {
            std::fputs(js.c_str(), f);
            std::fputc('\n', f);
            std::fclose(f);
        }
    }
    else
        std::printf("%s\n", js.c_str());
    return 0;
}
