// C09: adapters forward every request faithfully and release with matching parameters.
// Driver: world (leaf / tracker logs), oracle, exhaustive enumeration of request shapes and short
// operation sequences for every wrapper composition registered by the generated TUs
// (scripts/adapt_gen.py; linked as an archive, see scripts/check_C09.py).
#include "../engine/core.hpp"
#include "adapt_common.hpp"

#include <algorithm>
#include <unordered_set>

using namespace verif;
using namespace adapt;

// provided by the generated archive; weak so that this TU links alone (then nothing is registered)
void adapt_register_all(adapt::registry&) __attribute__((weak));

//=============================================================================== world
namespace
{
    enum ev_kind : u8
    {
        EV_ALLOC,     // leaf served a request
        EV_FREE,      // leaf released a block it owns (bad != 0: with different parameters)
        EV_FULL,      // leaf refused a request (capacity)
        EV_REFUSED,   // leaf try_deallocate of a block it does not own
        EV_TRK_ALLOC, // tracker callback
        EV_TRK_FREE,
        EV_BAD        // 1 moved-from leaf used, 2 node larger than max_node_size, 3 throwing release of a
                      // block the leaf does not own, 4 leaf handle never constructed, 5 moved-from tracker
    };
    struct event
    {
        u8          kind, array, is_try, bad;
        int         h;
        std::size_t count, size, align;
        void*       p;
        // EV_FREE: what the block was allocated with
        u8          aarray;
        std::size_t acount, asize, aalign;
    };
    struct blockrec
    {
        void*       p;
        bool        array;
        std::size_t count, size, align;
    };
    struct leaf_state
    {
        bool     active = false;
        int      cap    = 8;
        int      n      = 0;
        blockrec out[16];
    };

    constexpr int         NGEN = 16, NPOS = 16;
    constexpr std::size_t ARENA = std::size_t(8) << 20;

    struct world_t
    {
        leaf_state  leaves[NGEN * NPOS];
        event       log[512];
        int         nlog = 0;
        bool        log_overflow = false;
        std::size_t max_node = 48, max_array = std::size_t(1) << 20, max_align = 64;
        std::size_t bump = 1; // deliberately misaligned: a block is aligned only as far as the leaf was asked to
        long        oversized_nodes = 0;
        alignas(64) unsigned char arena[ARENA];

        int         used[NGEN * NPOS];
        int         nused = 0;

        void activate(int h, int cap)
        {
            auto& l = leaves[h];
            if (!l.active)
                used[nused++] = h;
            l.active = true;
            l.n      = 0;
            l.cap    = cap;
        }
        void reset()
        {
            for (int i = 0; i < nused; ++i)
            {
                leaves[used[i]].active = false;
                leaves[used[i]].n      = 0;
            }
            nused        = 0;
            nlog         = 0;
            log_overflow = false;
            bump         = 1;
        }
        event* push(u8 kind, int h)
        {
            if (nlog >= 512)
            {
                log_overflow = true;
                return &log[511];
            }
            event& e = log[nlog++];
            std::memset(&e, 0, sizeof e);
            e.kind = kind;
            e.h    = h;
            return &e;
        }
    };
    world_t W;
    alignas(64) unsigned char FOREIGN[64];
} // namespace

namespace adapt
{
    void* leaf_alloc(int h, bool array, std::size_t count, std::size_t size, std::size_t align,
                     bool is_try)
    {
        if (h < 0 || h >= NGEN * NPOS || !W.leaves[h].active)
        {
            auto e   = W.push(EV_BAD, h);
            e->bad   = h < 0 ? 1 : 4;
            e->array = array, e->count = count, e->size = size, e->align = align;
            if (is_try)
                return nullptr;
            throw leaf_full();
        }
        auto& l = W.leaves[h];
        if (!array && size > W.max_node)
            ++W.oversized_nodes; // observation only (see notes): e.g. a count == 1 array turned into a node
        std::size_t a     = align ? align : 1;
        std::size_t start = (W.bump + a - 1) / a * a;
        std::size_t bytes = count * size ? count * size : 1;
        if (l.n >= l.cap || l.n >= 16 || start + bytes > ARENA)
        {
            auto e    = W.push(EV_FULL, h);
            e->array  = array, e->count = count, e->size = size, e->align = align;
            e->is_try = is_try;
            if (is_try)
                return nullptr;
            throw leaf_full();
        }
        void* p      = W.arena + start;
        W.bump       = start + bytes;
        l.out[l.n++] = {p, array, count, size, align};
        auto e       = W.push(EV_ALLOC, h);
        e->array = array, e->count = count, e->size = size, e->align = align, e->p = p;
        e->is_try = is_try;
        return p;
    }

    bool leaf_dealloc(int h, void* p, bool array, std::size_t count, std::size_t size,
                      std::size_t align, bool is_try)
    {
        if (h < 0 || h >= NGEN * NPOS || !W.leaves[h].active)
        {
            auto e   = W.push(EV_BAD, h);
            e->bad   = h < 0 ? 1 : 4;
            e->array = array, e->count = count, e->size = size, e->align = align, e->p = p;
            return false;
        }
        auto& l = W.leaves[h];
        int   i = 0;
        while (i < l.n && l.out[i].p != p)
            ++i;
        if (i == l.n)
        {
            auto e   = W.push(is_try ? EV_REFUSED : EV_BAD, h);
            e->bad   = is_try ? 0 : 3;
            e->array = array, e->count = count, e->size = size, e->align = align, e->p = p;
            e->is_try = is_try;
            return false;
        }
        blockrec b = l.out[i];
        for (int k = i; k + 1 < l.n; ++k)
            l.out[k] = l.out[k + 1];
        --l.n;
        auto e   = W.push(EV_FREE, h);
        e->array = array, e->count = count, e->size = size, e->align = align, e->p = p;
        e->is_try = is_try;
        e->aarray = b.array, e->acount = b.count, e->asize = b.size, e->aalign = b.align;
        e->bad    = !(b.array == array && b.count == count && b.size == size && b.align == align);
        return true;
    }

    std::size_t leaf_max_node(int)
    {
        return W.max_node;
    }
    std::size_t leaf_max_array(int)
    {
        return W.max_array;
    }
    std::size_t leaf_max_align(int)
    {
        return W.max_align;
    }

    void tracker_event(int h, bool dealloc, bool array, void* p, std::size_t count,
                       std::size_t size, std::size_t align)
    {
        if (h < 0)
        {
            auto e = W.push(EV_BAD, h);
            e->bad = 5;
            e->p   = p;
            return;
        }
        auto e   = W.push(dealloc ? EV_TRK_FREE : EV_TRK_ALLOC, h);
        e->array = array, e->count = count, e->size = size, e->align = align, e->p = p;
    }
} // namespace adapt

//=============================================================================== cases
namespace
{
    enum op_kind : u8
    {
        OP_NODE,
        OP_ARRAY,
        OP_REL,
        OP_MC,
        OP_MA,
        OP_TF
    };
    struct op
    {
        u8          kind;
        u8          k; // OP_REL: index into the list of live blocks (oldest first)
        std::size_t count, size, align;
    };
    struct params
    {
        std::size_t ma[4]    = {1, 1, 1, 1};
        int         capset   = 0; // 0: all leaves 8 blocks, 1: all 1, 2: even positions 1, odd 8
        std::size_t max_node = 48;
    };

    std::string shape_str(bool array, std::size_t count, std::size_t size, std::size_t align)
    {
        return array ? fmt("array(count=%zu,size=%zu,align=%zu)", count, size, align) :
                       fmt("node(size=%zu,align=%zu)", size, align);
    }
    std::string op_str(const op& o)
    {
        switch (o.kind)
        {
        case OP_NODE:
            return fmt("n.%zu.%zu", o.size, o.align);
        case OP_ARRAY:
            return fmt("a.%zu.%zu.%zu", o.count, o.size, o.align);
        case OP_REL:
            return fmt("r%d", int(o.k));
        case OP_MC:
            return "mc";
        case OP_MA:
            return "ma";
        case OP_TF:
            return "tf";
        }
        return "?";
    }
    std::string params_str(const params& p)
    {
        return fmt("%zu.%zu.%zu.%zu|c%d|m%zu", p.ma[0], p.ma[1], p.ma[2], p.ma[3], p.capset,
                   p.max_node);
    }
    std::string case_str(const comp& c, const params& p, bool use_try, const op* ops, int n)
    {
        std::string s = c.name + "|" + params_str(p) + "|" + (use_try ? "try" : "throw") + "|";
        for (int i = 0; i < n; ++i)
            s += (i ? "," : "") + op_str(ops[i]);
        return s;
    }

    struct verdict
    {
        bool        viol = false;
        std::string tag, detail;
        int         outcome = OUT_OK;
        u64         key     = 0; // class key of the case (what happened)
        void        set(const std::string& t, const std::string& d)
        {
            if (!viol)
            {
                viol   = true;
                tag    = t;
                detail = d;
            }
        }
    };

    std::size_t next_align(const comp& c, int k, std::size_t v)
    {
        // next allowed minimum alignment in the cycle 1 -> 16 -> 64 -> 1 (bounded by what the wrapped
        // allocator supports: documented precondition of aligned_allocator)
        static const std::size_t vals[3] = {1, 16, 64};
        int                      i = v == 1 ? 0 : v == 16 ? 1 : 2;
        for (int s = 1; s <= 3; ++s)
        {
            std::size_t n = vals[(i + s) % 3];
            if (n <= c.align_cap[k])
                return n;
        }
        return v;
    }

    void setup_env(env& e, const comp& c, const params& p, int gen, bool alt)
    {
        e.gen = gen;
        static const std::size_t base_thr[4] = {16, 40, 28, 20};
        for (int k = 0; k < 4; ++k)
        {
            e.min_align_[k] = alt ? next_align(c, k, p.ma[k]) : p.ma[k];
            e.threshold_[k] = base_thr[k] + (alt ? 8 : 0);
        }
        if (!c.stateless)
            for (int pos = 0; pos < c.n_leaves; ++pos)
                W.activate(gen * NPOS + pos, p.capset == 0 ? 8 : p.capset == 1 ? 1 : (pos % 2 == 0 ? 1 : 8));
    }

    struct live_block
    {
        void*       p;
        bool        array;
        std::size_t count, size, align;
        int         leaf;
    };

    // everything the guarded body touches lives here (no destructors skipped by a longjmp matter)
    struct run_ctx
    {
        env        envs[NGEN];
        alignas(64) unsigned char slot[2][8192];
        live_block live[16];
        int        nlive = 0;
        int        cur = 0, gen = 0;
        bool       built = false;
        hasher     key;
    };
    run_ctx RC;
    bool    VERBOSE = false;

    void dump_events(int from)
    {
        static const char* kn[] = {"leaf.alloc", "leaf.free", "leaf.full", "leaf.refused",
                                   "tracker.alloc", "tracker.free", "BAD"};
        for (int i = from; i < W.nlog; ++i)
        {
            const event& e = W.log[i];
            std::printf("      [%d] %-13s obj(gen=%d,pos=%d) %s %s p=+%ld%s\n", i, kn[e.kind],
                        e.h < 0 ? -1 : e.h / NPOS, e.h < 0 ? -1 : e.h % NPOS,
                        shape_str(e.array, e.count, e.size, e.align).c_str(),
                        e.is_try ? "try" : "", e.p ? long((unsigned char*)e.p - W.arena) : -1L,
                        e.kind == EV_FREE && e.bad ?
                            ("  != allocated as "
                             + shape_str(e.aarray, e.acount, e.asize, e.aalign))
                                .c_str() :
                        e.kind == EV_BAD ? fmt("  code %d", int(e.bad)).c_str() : "");
        }
    }

    struct tally
    {
        int          n_alloc = 0, n_free = 0, n_full = 0, n_refused = 0, n_bad = 0;
        const event *alloc = nullptr, *free_ = nullptr, *bad = nullptr;
    };
    tally count_events(int from)
    {
        tally t;
        for (int i = from; i < W.nlog; ++i)
        {
            const event& e = W.log[i];
            switch (e.kind)
            {
            case EV_ALLOC:
                ++t.n_alloc;
                t.alloc = &e;
                break;
            case EV_FREE:
                ++t.n_free;
                t.free_ = &e;
                break;
            case EV_FULL:
                ++t.n_full;
                break;
            case EV_REFUSED:
                ++t.n_refused;
                break;
            case EV_BAD:
                ++t.n_bad;
                if (!t.bad)
                    t.bad = &e;
                break;
            default:
                break;
            }
        }
        return t;
    }

    std::string bad_text(const event& e)
    {
        switch (e.bad)
        {
        case 1:
            return "a moved-from leaf object was asked to (de)allocate";
        case 3:
            return "block released (throwing interface) to a leaf that does not own it: "
                   + shape_str(e.array, e.count, e.size, e.align);
        case 4:
            return "leaf object with a handle that was never constructed";
        case 5:
            return "a moved-from tracker received a callback";
        }
        return "?";
    }

    // oracle for one allocation request made at the top of the composition
    void check_alloc(const comp& c, verdict& v, int from, void* p, bool array, std::size_t count,
                     std::size_t size, std::size_t align, const std::string& what)
    {
        tally t = count_events(from);
        if (t.n_bad)
            v.set(t.bad->bad == 1 ? "moved-from-object-used" : "leaf-misuse", what + ": " + bad_text(*t.bad));
        if (t.n_free)
            v.set("allocation-released-a-block", what + ": a leaf block was released during an allocation");
        if (!p)
        {
            RC.key.word(0xF000 + t.n_full);
            if (t.n_alloc)
                v.set("failed-request-kept-a-block",
                      what + fmt(": request failed but %d leaf allocation(s) were made and not returned",
                                 t.n_alloc));
            else if (!t.n_full && !c.has_null)
                v.set("request-not-forwarded",
                      what + ": request failed although no leaf allocator refused it");
            return;
        }
        if (t.n_alloc != 1)
        {
            v.set("not-exactly-one-leaf-allocation",
                  what + fmt(": %d leaf allocations for one request", t.n_alloc));
            return;
        }
        const event& e = *t.alloc;
        RC.key.word(0xA000 + (e.h % NPOS) * 16 + e.array * 2 + (t.n_full ? 1 : 0));
        if (e.p != p)
            v.set("pointer-differs", what + ": returned pointer is not the block the leaf handed out");
        {
            // C02 for adapters: the returned memory honours the requested alignment (and the minimum of an
            // outermost aligned_allocator); the leaf hands out memory aligned exactly as far as it was asked to
            std::size_t need = align;
            if (c.root_aligned && RC.envs[0].min_align_[0] > need)
                need = RC.envs[0].min_align_[0];
            if (need && reinterpret_cast<std::uintptr_t>(p) % need != 0)
                v.set("returned-pointer-underaligned",
                      what + fmt(": returned pointer is not aligned to %zu (leaf was asked for alignment %zu)",
                                 need, e.align));
        }
        if (e.count * e.size < count * size)
            v.set("leaf-request-too-small",
                  what + ": leaf was asked for " + shape_str(e.array, e.count, e.size, e.align));
        if (e.align < align)
            v.set("leaf-request-underaligned",
                  what + ": leaf was asked for " + shape_str(e.array, e.count, e.size, e.align));
        if (RC.nlive < 16)
            RC.live[RC.nlive++] = {p, array, count, size, align, e.h};
    }

    // oracle for one release made at the top of the composition
    void check_release(const comp&, verdict& v, int from, const live_block& b, bool use_try,
                       bool result, const std::string& what)
    {
        tally t = count_events(from);
        RC.key.word(0xD000 + (b.leaf % NPOS) * 16 + t.n_refused);
        if (t.n_alloc)
            v.set("release-allocated-a-block", what + ": a leaf allocation was made during a release");
        if (t.n_free == 1 && t.free_->bad)
        {
            const event& e = *t.free_;
            v.set("release-parameters-differ",
                  what + ": leaf allocated " + shape_str(e.aarray, e.acount, e.asize, e.aalign)
                      + " but was released with " + shape_str(e.array, e.count, e.size, e.align));
            return;
        }
        if (t.n_bad)
        {
            v.set(t.bad->bad == 3 ? "released-to-wrong-leaf" :
                  t.bad->bad == 1 ? "moved-from-object-used" :
                                    "leaf-misuse",
                  what + ": " + bad_text(*t.bad));
            return;
        }
        if (t.n_free == 0)
        {
            v.set("release-not-forwarded", what + ": no leaf release for this block");
            return;
        }
        if (t.n_free > 1)
        {
            v.set("released-more-than-once", what + fmt(": %d leaf releases", t.n_free));
            return;
        }
        if (t.free_->h != b.leaf)
            v.set("released-to-wrong-leaf", what + ": released to another leaf object than the one that allocated");
        if (use_try && !result)
            v.set("try-release-refused", what + ": try_deallocate returned false for a block of this allocator");
    }

    // tracker k of generation g must have seen exactly the successful leaf operations below it
    void check_trackers(const comp& c, verdict& v)
    {
        // stateless leaves: one shared state, the tracker objects of all generations form one stream
        for (int g = 0; g <= (c.stateless ? 0 : RC.gen); ++g)
            for (int k = 0; k < c.n_trackers; ++k)
            {
                int  th = g * NPOS + k;
                int  i = 0, j = 0;
                auto is_trk  = [&](const event& e) {
                    return (e.kind == EV_TRK_ALLOC || e.kind == EV_TRK_FREE)
                           && (c.stateless ? e.h % NPOS == k : e.h == th);
                };
                auto is_leaf = [&](const event& e) {
                    if (e.kind != EV_ALLOC && e.kind != EV_FREE)
                        return false;
                    int eg = e.h / NPOS, ep = e.h % NPOS;
                    return (c.stateless ? eg == 15 : eg == g) && ((c.tracker_mask[k] >> ep) & 1u);
                };
                for (;;)
                {
                    while (i < W.nlog && !is_trk(W.log[i]))
                        ++i;
                    while (j < W.nlog && !is_leaf(W.log[j]))
                        ++j;
                    if (i >= W.nlog && j >= W.nlog)
                        break;
                    if (i >= W.nlog)
                    {
                        const event& e = W.log[j];
                        v.set("tracker-missed-operation",
                              fmt("tracker %d saw no callback for the successful leaf %s of ", k,
                                  e.kind == EV_ALLOC ? "allocation" : "release")
                                  + shape_str(e.array, e.count, e.size, e.align));
                        break;
                    }
                    if (j >= W.nlog)
                    {
                        const event& e = W.log[i];
                        v.set("tracker-extra-callback",
                              fmt("tracker %d got a %s callback for ", k,
                                  e.kind == EV_TRK_ALLOC ? "allocation" : "deallocation")
                                  + shape_str(e.array, e.count, e.size, e.align)
                                  + " that corresponds to no successful operation of the tracked allocator");
                        break;
                    }
                    const event &a = W.log[i], &b = W.log[j];
                    bool         same = (a.kind == EV_TRK_ALLOC) == (b.kind == EV_ALLOC) && a.p == b.p;
                    if (!same)
                    {
                        v.set(a.kind == EV_TRK_FREE && b.kind == EV_ALLOC ? "tracker-extra-callback" :
                                                                            "tracker-log-differs",
                              fmt("tracker %d: callback #%d (%s ", k, i,
                                  a.kind == EV_TRK_ALLOC ? "allocation" : "deallocation")
                                  + shape_str(a.array, a.count, a.size, a.align)
                                  + ") does not correspond to the next successful operation of the tracked allocator ("
                                  + (b.kind == EV_ALLOC ? "allocation " : "release ")
                                  + shape_str(b.array, b.count, b.size, b.align) + ")");
                        break;
                    }
                    ++i, ++j;
                }
            }
    }

    void finish_case(const comp& c, verdict& v)
    {
        if (RC.built)
        {
            c.destroy(RC.slot[RC.cur]);
            RC.built = false;
        }
        for (int g = RC.gen; g >= 0; --g)
            RC.envs[g].release_kept();
        for (int u = 0; u < W.nused; ++u)
            if (int h = W.used[u]; W.leaves[h].n)
            {
                const blockrec& b = W.leaves[h].out[0];
                v.set("block-never-released",
                      fmt("leaf (gen=%d,pos=%d) still holds ", h / NPOS, h % NPOS)
                          + shape_str(b.array, b.count, b.size, b.align) + " at the end");
                break;
            }
        check_trackers(c, v);
        if (W.log_overflow)
            v.set("event-log-overflow", "more than 512 events in one case");
    }

    void begin_case(const comp& c, const params& p)
    {
        W.reset();
        W.max_node = p.max_node;
        for (int g = 0; g <= RC.gen && g < NGEN; ++g)
            RC.envs[g].keep_.clear(); // objects of a case that was aborted by a longjmp are abandoned
        RC.nlive = 0, RC.cur = 0, RC.gen = 0, RC.built = false;
        RC.key = hasher();
        if (c.stateless)
            for (int pos = 0; pos < c.n_leaves; ++pos)
                W.activate(15 * NPOS + pos, p.capset == 0 ? 8 : p.capset == 1 ? 1 : (pos % 2 == 0 ? 1 : 8));
        setup_env(RC.envs[0], c, p, 0, false);
    }

    void do_release(const comp& c, verdict& v, bool use_try, int k, const std::string& what)
    {
        live_block b = RC.live[k];
        for (int i = k; i + 1 < RC.nlive; ++i)
            RC.live[i] = RC.live[i + 1];
        --RC.nlive;
        int   from = W.nlog;
        bool  res  = true;
        void* obj  = RC.slot[RC.cur];
        if (use_try)
            res = b.array ? c.try_dealloc_array(obj, b.p, b.count, b.size, b.align) :
                            c.try_dealloc_node(obj, b.p, b.size, b.align);
        else if (b.array)
            c.dealloc_array(obj, b.p, b.count, b.size, b.align);
        else
            c.dealloc_node(obj, b.p, b.size, b.align);
        if (VERBOSE)
        {
            std::printf("    %s %s -> %s\n", what.c_str(),
                        shape_str(b.array, b.count, b.size, b.align).c_str(),
                        use_try ? (res ? "true" : "false") : "done");
            dump_events(from);
        }
        check_release(c, v, from, b, use_try, res,
                      what + " of " + shape_str(b.array, b.count, b.size, b.align));
    }

    void body_ops(const comp& c, const params& p, bool use_try, const op* ops, int nops, verdict& v)
    {
        c.build(RC.envs[0], RC.slot[0]);
        RC.built = true;
        for (int i = 0; i < nops; ++i)
        {
            const op& o    = ops[i];
            int       from = W.nlog;
            void*     obj  = RC.slot[RC.cur];
            RC.key.word(o.kind);
            switch (o.kind)
            {
            case OP_NODE:
            case OP_ARRAY:
            {
                bool  array = o.kind == OP_ARRAY;
                void* ptr   = nullptr;
                bool  threw = false;
                try
                {
                    if (use_try)
                        ptr = array ? c.try_alloc_array(obj, o.count, o.size, o.align) :
                                      c.try_alloc_node(obj, o.size, o.align);
                    else
                        ptr = array ? c.alloc_array(obj, o.count, o.size, o.align) :
                                      c.alloc_node(obj, o.size, o.align);
                }
                catch (...)
                {
                    threw = true;
                    ptr   = nullptr;
                }
                std::string what = fmt("op %d %s ", i, use_try ? "try_allocate" : "allocate")
                                   + shape_str(array, array ? o.count : 1, o.size, o.align);
                if (VERBOSE)
                {
                    std::printf("    %s -> %s\n", what.c_str(),
                                ptr ? fmt("+%ld", long((unsigned char*)ptr - W.arena)).c_str() :
                                threw ? "exception" :
                                        "nullptr");
                    dump_events(from);
                }
                if (threw && use_try)
                    v.set("try-allocate-threw", what + ": composable allocation threw");
                check_alloc(c, v, from, ptr, array, array ? o.count : 1, o.size, o.align, what);
                break;
            }
            case OP_REL:
                if (int(o.k) < RC.nlive)
                    do_release(c, v, use_try, o.k, fmt("op %d release", i));
                else
                    RC.key.word(0xEEEE);
                break;
            case OP_MC:
            case OP_MA:
            {
                int dst = 1 - RC.cur;
                if (o.kind == OP_MA && !c.can_move_assign)
                {
                    RC.key.word(0xEEE1);
                    break;
                }
                if (RC.gen + 1 >= 15)
                    break;
                ++RC.gen;
                if (o.kind == OP_MC)
                    c.move_construct(RC.slot[dst], obj);
                else
                {
                    // target: an object of the same type built with different parameters
                    setup_env(RC.envs[RC.gen], c, p, RC.gen, true);
                    c.build(RC.envs[RC.gen], RC.slot[dst]);
                    c.move_assign(RC.slot[dst], obj);
                }
                c.destroy(obj);
                RC.cur = dst;
                if (VERBOSE)
                {
                    std::printf("    op %d %s\n", i,
                                o.kind == OP_MC ? "move-construct into a new object, destroy the old one" :
                                                  "move-assign into an object built with other parameters, destroy the old one");
                    dump_events(from);
                }
                tally t = count_events(from);
                if (t.n_alloc || t.n_free || t.n_bad)
                    v.set("move-touched-leaf", fmt("op %d: moving the adapter made leaf (de)allocations", i));
                break;
            }
            case OP_TF:
            {
                bool  res = c.try_dealloc_node(obj, FOREIGN, 8, 8);
                tally t   = count_events(from);
                if (VERBOSE)
                {
                    std::printf("    op %d try_deallocate_node(foreign block) -> %s\n", i,
                                res ? "true" : "false");
                    dump_events(from);
                }
                if (res || t.n_free)
                    v.set("foreign-block-accepted",
                          fmt("op %d: try_deallocate_node of a block of no leaf returned %s", i,
                              res ? "true" : "false"));
                break;
            }
            }
        }
        // release what is left, oldest first
        while (RC.nlive)
            do_release(c, v, use_try, 0, "final release");
        finish_case(c, v);
    }

    verdict run_case(const comp& c, const params& p, bool use_try, const op* ops, int nops)
    {
        verdict v;
        begin_case(c, p);
        int out = OUT_OK;
        VERIF_GUARDED(out, body_ops(c, p, use_try, ops, nops, v));
        v.outcome = out;
        if (out != OUT_OK)
        {
            v.viol = false;
            v.set(std::string("adapter-") + outcome_name(out),
                  std::string("the operation sequence ") + outcome_name(out)
                      + " inside the library (abort/assertion/crash)");
            RC.key.word(0xDEAD0000 + out);
        }
        v.key = RC.key.get().a;
        return v;
    }

    //--- typed helpers
    void body_typed(const comp& c, const typed_entry& t, std::size_t n, verdict& v)
    {
        c.build(RC.envs[0], RC.slot[0]);
        RC.built   = true;
        int  from  = W.nlog;
        bool threw = false;
        try
        {
            t.run(RC.slot[0], n);
        }
        catch (...)
        {
            threw = true;
        }
        std::string what = fmt("%s<T: sizeof %zu, alignof %zu>(n=%zu)", typed_kind_name(t.kind),
                               t.size, t.align, n);
        if (VERBOSE)
        {
            std::printf("    %s%s\n", what.c_str(), threw ? " -> exception" : "");
            dump_events(from);
        }
        tally tl = count_events(from);
        RC.key.word(0x7000 + t.kind * 16 + threw);
        if (t.kind == TK_UNIQUE_THROW || t.kind == TK_UNIQUE_ANY_THROW || t.kind == TK_SHARED_THROW)
        {
            // the constructor of T throws: the exception must come out and the ledger must be balanced
            if (!threw && tl.n_alloc)
                v.set("constructor-exception-swallowed", what + ": the exception of T's constructor did not reach the caller");
            if (tl.n_bad)
                v.set(tl.bad->bad == 3 ? "released-to-wrong-leaf" : "leaf-misuse", what + ": " + bad_text(*tl.bad));
            if (tl.n_alloc > tl.n_free)
                v.set("constructor-exception-leaked-block",
                      what + fmt(": constructor threw, %d leaf allocation(s) but %d release(s): ", tl.n_alloc, tl.n_free)
                          + shape_str(tl.alloc->array, tl.alloc->count, tl.alloc->size, tl.alloc->align)
                          + " is never given back");
            else if (tl.n_alloc > 1 || tl.n_free > tl.n_alloc)
                v.set("not-exactly-one-leaf-allocation", what + fmt(": %d leaf allocations, %d releases", tl.n_alloc, tl.n_free));
            else if (tl.n_alloc == 1)
            {
                const event& f = *tl.free_;
                if (f.bad)
                    v.set("release-parameters-differ",
                          what + ": leaf allocated " + shape_str(f.aarray, f.acount, f.asize, f.aalign)
                              + " but was released with " + shape_str(f.array, f.count, f.size, f.align));
                else if (f.h != tl.alloc->h || f.p != tl.alloc->p)
                    v.set("released-to-wrong-leaf", what + ": released to another leaf / another block");
                if (tl.alloc->count * tl.alloc->size < t.size || tl.alloc->align < t.align)
                    v.set("leaf-request-too-small", what + ": leaf was asked for "
                                                        + shape_str(tl.alloc->array, tl.alloc->count, tl.alloc->size, tl.alloc->align));
            }
            else if (!tl.n_full && !c.has_null)
                v.set("request-not-forwarded", what + ": helper failed before any leaf allocator was asked");
            finish_case(c, v);
            return;
        }
        bool poly = t.kind == TK_POLY || t.kind == TK_POLY_ANY;
        if (tl.n_bad)
        {
            // a truncated size can also send the release to the wrong side of a segregator
            bool trunc = poly && t.size > 65535 && tl.bad->bad == 3 && tl.bad->size == (t.size & 0xFFFF);
            v.set(trunc ? "polymorphic-deleter-size-truncated" :
                  tl.bad->bad == 3 ? "released-to-wrong-leaf" :
                  tl.bad->bad == 1 ? "moved-from-object-used" :
                                     "leaf-misuse",
                  what + ": " + bad_text(*tl.bad));
        }
        if (threw || tl.n_alloc == 0)
        {
            if (tl.n_alloc != tl.n_free)
                v.set("failed-request-kept-a-block", what + ": helper failed but a leaf block stays allocated");
            else if (!tl.n_full && !c.has_null)
                v.set("request-not-forwarded", what + ": helper failed although no leaf allocator refused");
        }
        else
        {
            if (tl.n_alloc != 1)
                v.set("not-exactly-one-leaf-allocation", what + fmt(": %d leaf allocations", tl.n_alloc));
            else
            {
                const event& e     = *tl.alloc;
                std::size_t  bytes = t.size * n;
                RC.key.word(0xA000 + (e.h % NPOS) * 16 + e.array);
                if (e.count * e.size < bytes)
                    v.set("leaf-request-too-small",
                          what + ": leaf was asked for " + shape_str(e.array, e.count, e.size, e.align));
                if (e.align < t.align)
                    v.set("leaf-request-underaligned",
                          what + ": leaf was asked for " + shape_str(e.array, e.count, e.size, e.align));
                if (tl.n_free == 1 && tl.free_->bad)
                {
                    const event& f = *tl.free_;
                    bool trunc = poly && f.asize > 65535 && f.size == (f.asize & 0xFFFF)
                                 && f.align == (f.aalign & 0xFFFF) && f.array == f.aarray
                                 && f.count == f.acount;
                    v.set(trunc ? "polymorphic-deleter-size-truncated" : "release-parameters-differ",
                          what + ": leaf allocated " + shape_str(f.aarray, f.acount, f.asize, f.aalign)
                              + " but was released with " + shape_str(f.array, f.count, f.size, f.align));
                }
                else if (tl.n_free != 1)
                    v.set(tl.n_free ? "released-more-than-once" : "release-not-forwarded",
                          what + fmt(": %d leaf releases", tl.n_free));
                else if (tl.free_->h != e.h || tl.free_->p != e.p)
                    v.set("released-to-wrong-leaf", what + ": released to another leaf / another block");
            }
        }
        finish_case(c, v);
    }

    verdict run_typed(const comp& c, const params& p, const typed_entry& t, std::size_t n)
    {
        verdict v;
        begin_case(c, p);
        int out = OUT_OK;
        VERIF_GUARDED(out, body_typed(c, t, n, v));
        v.outcome = out;
        if (out != OUT_OK)
        {
            v.viol     = false;
            bool poly  = t.kind == TK_POLY || t.kind == TK_POLY_ANY;
            bool trunc = poly && t.size > 65535 && out == OUT_ABORTED && FOONATHAN_MEMORY_DEBUG_ASSERT;
            v.set(trunc ? "polymorphic-deleter-size-truncated" : std::string("adapter-") + outcome_name(out),
                  fmt("%s<T: sizeof %zu, alignof %zu>(n=%zu) %s inside the library%s",
                      typed_kind_name(t.kind), t.size, t.align, n, outcome_name(out),
                      trunc ? " (assertion: the 16 bit size field cannot hold sizeof(T))" : ""));
            RC.key.word(0xDEAD0000 + out);
        }
        v.key = RC.key.get().a;
        return v;
    }

    std::string typed_str(const comp& c, const params& p, const typed_entry& t, std::size_t n)
    {
        return c.name + "|" + params_str(p) + "|typed|"
               + fmt("%s.%zu.%zu.%zu", typed_kind_name(t.kind), t.nominal, t.aparam, n);
    }
} // namespace

//=============================================================================== enumeration
namespace
{
    struct results
    {
        long                     evaluations = 0, excluded = 0;
        std::unordered_set<u64>  classes;
        struct viol
        {
            std::string tag, detail, input;
        };
        std::vector<viol>        violations;
        std::vector<std::string> tags_seen;
        std::vector<long>        tag_counts;
        std::vector<std::string> samples, errors;
        long                     n_ops_cases = 0, n_typed_cases = 0, n_pair_cases = 0, n_seq_cases = 0,
             n_single_cases = 0, n_comps = 0, n_paramsets = 0, n_fail_legit = 0, n_full_events = 0,
             n_refused = 0, n_trk = 0, n_moves = 0, n_try_cases = 0, n_aborted = 0, n_mr_cases = 0;

        void note(const verdict& v, const std::string& input)
        {
            ++evaluations;
            classes.insert(v.key);
        }
        void add_violation(const verdict& v, const std::string& input)
        {
            std::size_t i = 0;
            while (i < tags_seen.size() && tags_seen[i] != v.tag)
                ++i;
            if (i == tags_seen.size())
            {
                tags_seen.push_back(v.tag);
                tag_counts.push_back(0);
            }
            if (++tag_counts[i] <= 3)
                violations.push_back({v.tag, v.detail, input});
        }
    };
    results R;

    void account_events()
    {
        for (int i = 0; i < W.nlog; ++i)
        {
            auto k = W.log[i].kind;
            if (k == EV_FULL)
                ++R.n_full_events;
            else if (k == EV_REFUSED)
                ++R.n_refused;
            else if (k == EV_TRK_ALLOC || k == EV_TRK_FREE)
                ++R.n_trk;
        }
    }

    void eval_ops(const comp& c, const params& p, bool use_try, const op* ops, int nops)
    {
        verdict v = run_case(c, p, use_try, ops, nops);
        account_events();
        ++R.n_ops_cases;
        if (use_try)
            ++R.n_try_cases;
        R.note(v, "");
        if (v.viol)
        {
            // confirm once before reporting
            verdict v2 = run_case(c, p, use_try, ops, nops);
            if (v2.viol && v2.tag == v.tag)
                R.add_violation(v, case_str(c, p, use_try, ops, nops));
            else
                R.errors.push_back("verdict not reproducible: " + case_str(c, p, use_try, ops, nops)
                                   + " first " + v.tag + " then " + (v2.viol ? v2.tag : "ok"));
        }
        else if (R.samples.size() < 4 && nops >= 3 && (R.evaluations % 977) == 0)
            R.samples.push_back(case_str(c, p, use_try, ops, nops));
    }

    void eval_typed(const comp& c, const params& p, const typed_entry& t, std::size_t n)
    {
        verdict v = run_typed(c, p, t, n);
        account_events();
        ++R.n_typed_cases;
        R.note(v, "");
        if (v.viol)
        {
            verdict v2 = run_typed(c, p, t, n);
            if (v2.viol && v2.tag == v.tag)
                R.add_violation(v, typed_str(c, p, t, n));
            else
                R.errors.push_back("verdict not reproducible: " + typed_str(c, p, t, n));
        }
        else if (R.samples.size() < 6 && (R.n_typed_cases % 499) == 1)
            R.samples.push_back(typed_str(c, p, t, n));
    }

    // limits of the object as advertised through allocator_traits (requests beyond them are
    // precondition violations and are not generated)
    struct limits
    {
        std::size_t max_node, max_array, max_align;
        bool        ok;
    };
    limits query_limits(const comp& c, const params& p)
    {
        limits l{0, 0, 0, false};
        begin_case(c, p);
        int out = OUT_OK;
        VERIF_GUARDED(out, {
            c.build(RC.envs[0], RC.slot[0]);
            l.max_node  = c.max_node(RC.slot[0]);
            l.max_array = c.max_array(RC.slot[0]);
            l.max_align = c.max_align(RC.slot[0]);
            c.destroy(RC.slot[0]);
            RC.envs[0].release_kept();
        });
        l.ok = out == OUT_OK;
        return l;
    }

    void add_unique(std::vector<std::size_t>& v, std::size_t x)
    {
        if (x && std::find(v.begin(), v.end(), x) == v.end())
            v.push_back(x);
    }

    std::vector<op> make_shapes(const comp& c, const params& p, const limits& l, bool reduced_align)
    {
        static const std::size_t thr[4] = {16, 40, 28, 20};
        std::vector<std::size_t> nodes{1, 8};
        for (int k = 0; k < c.n_seg && k < 4; ++k)
        {
            add_unique(nodes, thr[k]);
            add_unique(nodes, thr[k] + 1);
        }
        for (std::size_t s : {p.max_node, p.max_node + 1, 2 * p.max_node, 2 * p.max_node + 4})
            add_unique(nodes, s);
        std::vector<std::size_t> aligns;
        for (std::size_t a : {1, 2, 4, 8, 16, 32, 64})
        {
            if (a > l.max_align)
            {
                ++R.excluded;
                continue;
            }
            if (reduced_align && !(a == 1 || a == 8 || a == 64 || a == l.max_align))
                continue;
            aligns.push_back(a);
        }
        std::vector<op> out;
        for (std::size_t s : nodes)
            for (std::size_t a : aligns)
            {
                if (s > l.max_node)
                {
                    ++R.excluded;
                    continue;
                }
                out.push_back({OP_NODE, 0, 1, s, a});
            }
        for (std::size_t cnt : {1, 2, 5})
        {
            std::vector<std::size_t> el{1, 8};
            for (int k = 0; k < c.n_seg && k < 4; ++k)
            {
                add_unique(el, thr[k] / cnt);
                add_unique(el, thr[k] / cnt + 1);
            }
            add_unique(el, p.max_node / cnt);
            add_unique(el, p.max_node / cnt + 1);
            add_unique(el, p.max_node);
            for (std::size_t s : el)
                for (std::size_t a : aligns)
                {
                    if (cnt * s > l.max_array)
                    {
                        ++R.excluded;
                        continue;
                    }
                    out.push_back({OP_ARRAY, 0, cnt, s, a});
                }
        }
        return out;
    }

    // small representative alphabet for the sequence phase
    std::vector<op> make_alphabet(const comp& c, const params& p, const limits& l, bool use_try)
    {
        auto al = [&](std::size_t a) { return a > l.max_align ? l.max_align : a; };
        std::vector<op> a;
        a.push_back({OP_NODE, 0, 1, 8, al(1)});
        a.push_back({OP_NODE, 0, 1, 17, al(16)});
        a.push_back({OP_NODE, 0, 1, p.max_node, al(64)});
        if (l.max_node > p.max_node)
            a.push_back({OP_NODE, 0, 1, p.max_node + 1, al(8)});
        a.push_back({OP_ARRAY, 0, 1, 16, al(8)});
        a.push_back({OP_ARRAY, 0, 2, 20, al(4)});
        a.push_back({OP_ARRAY, 0, 5, 9, al(32)});
        a.push_back({OP_REL, 0, 0, 0, 0});
        a.push_back({OP_REL, 1, 0, 0, 0});
        a.push_back({OP_REL, 2, 0, 0, 0});
        a.push_back({OP_MC, 0, 0, 0, 0});
        a.push_back({OP_MA, 0, 0, 0, 0});
        if (use_try)
            a.push_back({OP_TF, 0, 0, 0, 0});
        return a;
    }

    void seq_dfs(const comp& c, const params& p, bool use_try, const std::vector<op>& alpha, op* seq,
                 int depth, int maxdepth, int live)
    {
        if (depth == maxdepth)
            return;
        for (const op& o : alpha)
        {
            int nl = live;
            if (o.kind == OP_REL)
            {
                if (int(o.k) >= live)
                    continue;
                --nl;
            }
            else if (o.kind == OP_NODE || o.kind == OP_ARRAY)
                ++nl;
            if ((o.kind == OP_MC || o.kind == OP_MA))
                ++R.n_moves;
            seq[depth] = o;
            eval_ops(c, p, use_try, seq, depth + 1);
            ++R.n_seq_cases;
            seq_dfs(c, p, use_try, alpha, seq, depth + 1, maxdepth, nl);
        }
    }

    std::vector<params> make_paramsets(const comp& c, bool typed_phase)
    {
        static const std::size_t vals[3] = {1, 16, 64};
        std::vector<params>       out;
        int                       na = c.n_align > 4 ? 4 : c.n_align;
        int                       combos = 1;
        for (int k = 0; k < na; ++k)
            combos *= 3;
        for (int ci = 0; ci < combos; ++ci)
        {
            params p;
            int    x = ci;
            bool   ok = true;
            for (int k = 0; k < na; ++k)
            {
                p.ma[k] = vals[x % 3];
                x /= 3;
                if (p.ma[k] > c.align_cap[k])
                    ok = false; // aligned_allocator requires min_alignment <= max_alignment()
            }
            if (!ok)
            {
                ++R.excluded;
                continue;
            }
            for (int cs = 0; cs < (typed_phase ? 1 : 3); ++cs)
            {
                p.capset   = cs;
                p.max_node = typed_phase ? (std::size_t(1) << 20) : 48;
                out.push_back(p);
            }
        }
        return out;
    }

    void enumerate_comp(const comp& c, bool thorough)
    {
        ++R.n_comps;
        if (c.obj_size > sizeof RC.slot[0] || c.obj_align > 64 || c.n_leaves > NPOS || c.n_trackers > 4)
        {
            R.errors.push_back("composition object does not fit the harness slots: " + c.name);
            return;
        }
        int seq_depth = thorough ? 4 : 3;
        for (const params& p : make_paramsets(c, false))
        {
            ++R.n_paramsets;
            limits l = query_limits(c, p);
            if (!l.ok)
            {
                verdict v;
                v.set("adapter-aborted", "constructing the composition and asking for its limits aborted");
                R.add_violation(v, c.name + "|" + params_str(p) + "|throw|");
                continue;
            }
            for (int use_try = 0; use_try <= (c.composable ? 1 : 0); ++use_try)
            {
                // phase 1: every shape alone (plain, with a move construction, with a move assignment
                // between request and release); every ordered pair of shapes, released in both orders
                std::vector<op> shapes = make_shapes(c, p, l, false);
                std::vector<op> alpha   = make_alphabet(c, p, l, use_try != 0);
                std::vector<op> pshapes;
                if (thorough)
                    pshapes = make_shapes(c, p, l, true);
                else
                    for (const op& o : alpha)
                        if (o.kind == OP_NODE || o.kind == OP_ARRAY)
                            pshapes.push_back(o);
                op              seq[8];
                for (const op& s : shapes)
                {
                    seq[0] = s;
                    seq[1] = {OP_REL, 0, 0, 0, 0};
                    eval_ops(c, p, use_try, seq, 2);
                    seq[1] = {OP_MC, 0, 0, 0, 0};
                    seq[2] = {OP_REL, 0, 0, 0, 0};
                    eval_ops(c, p, use_try, seq, 3);
                    seq[1] = {OP_MA, 0, 0, 0, 0};
                    eval_ops(c, p, use_try, seq, 3);
                    R.n_single_cases += 3;
                    R.n_moves += 2;
                }
                for (const op& s1 : shapes)
                    for (const op& s2 : pshapes)
                    {
                        seq[0] = s1;
                        seq[1] = s2;
                        seq[2] = {OP_REL, 0, 0, 0, 0};
                        seq[3] = {OP_REL, 0, 0, 0, 0};
                        eval_ops(c, p, use_try, seq, 4);
                        seq[2] = {OP_REL, 1, 0, 0, 0};
                        eval_ops(c, p, use_try, seq, 4);
                        R.n_pair_cases += 2;
                    }
                // phase 2: all sequences up to the depth bound over the small alphabet
                seq_dfs(c, p, use_try != 0, alpha, seq, 0, seq_depth, 0);
            }
        }
        // memory_resource_adapter splits requests above max_node_size() of what it wraps into arrays of
        // max-sized nodes: sweep every byte count up to 6*max+3 for wrapped maxima that are / are not powers of two
        if (c.name.find("MR(") != std::string::npos)
            for (const params& p0 : make_paramsets(c, false))
            {
                if (p0.capset != 0)
                    continue;
                for (std::size_t mx : {8, 16, 24, 40, 48, 100})
                {
                    params p   = p0;
                    p.max_node = mx;
                    limits l   = query_limits(c, p);
                    if (!l.ok)
                        continue;
                    for (int use_try = 0; use_try <= (c.composable ? 1 : 0); ++use_try)
                        for (std::size_t a : {1, 8, 64})
                        {
                            if (a > l.max_align)
                            {
                                ++R.excluded;
                                continue;
                            }
                            op seq[4];
                            for (std::size_t bytes = 1; bytes <= 6 * mx + 3; ++bytes)
                            {
                                if (bytes <= l.max_node)
                                {
                                    seq[0] = {OP_NODE, 0, 1, bytes, a};
                                    seq[1] = {OP_REL, 0, 0, 0, 0};
                                    eval_ops(c, p, use_try != 0, seq, 2);
                                    ++R.n_mr_cases;
                                }
                                else
                                    ++R.excluded;
                                if (bytes % 2 == 0 && bytes <= l.max_array)
                                {
                                    seq[0] = {OP_ARRAY, 0, 2, bytes / 2, a};
                                    seq[1] = {OP_REL, 0, 0, 0, 0};
                                    eval_ops(c, p, use_try != 0, seq, 2);
                                    ++R.n_mr_cases;
                                }
                            }
                        }
                }
            }
        // typed helpers
        if (!c.typed.empty())
            for (const params& p : make_paramsets(c, true))
            {
                limits l = query_limits(c, p);
                if (!l.ok)
                    continue;
                for (const typed_entry& t : c.typed)
                {
                    if (t.align > l.max_align)
                    {
                        ++R.excluded;
                        continue;
                    }
                    if (typed_takes_count(t.kind))
                    {
                        for (std::size_t n : {1, 2, 5})
                            eval_typed(c, p, t, n);
                    }
                    else
                        eval_typed(c, p, t, 1);
                }
            }
    }

    //--- replay
    std::vector<std::string> split(const std::string& s, char sep)
    {
        std::vector<std::string> out;
        std::string              cur;
        for (char ch : s)
            if (ch == sep)
            {
                out.push_back(cur);
                cur.clear();
            }
            else
                cur += ch;
        out.push_back(cur);
        return out;
    }

    int replay(const registry& reg, std::string in)
    {
        // strip JSON string quotes
        while (!in.empty() && (in.front() == '"' || in.front() == ' '))
            in.erase(in.begin());
        while (!in.empty() && (in.back() == '"' || in.back() == ' '))
            in.pop_back();
        auto f = split(in, '|');
        if (f.size() < 6)
        {
            std::printf("cannot parse replay input '%s'\n", in.c_str());
            return 2;
        }
        const comp* c = nullptr;
        for (auto& x : reg.comps)
            if (x.name == f[0])
                c = &x;
        if (!c)
        {
            std::printf("composition %s is not part of this binary (%zu registered)\n", f[0].c_str(),
                        reg.comps.size());
            return 2;
        }
        params p;
        auto   m = split(f[1], '.');
        for (int k = 0; k < 4 && k < int(m.size()); ++k)
            p.ma[k] = std::strtoul(m[k].c_str(), nullptr, 10);
        p.capset   = std::atoi(f[2].c_str() + 1);
        p.max_node = std::strtoul(f[3].c_str() + 1, nullptr, 10);
        VERBOSE    = true;
        std::printf("composition %s\n  = %s\n  parameters: min alignments %zu,%zu,%zu,%zu  leaf capacities set %d  leaf max_node_size %zu\n",
                    c->name.c_str(), c->type.c_str(), p.ma[0], p.ma[1], p.ma[2], p.ma[3], p.capset,
                    p.max_node);
        verdict v;
        if (f[4] == "typed")
        {
            auto t = split(f[5], '.');
            if (t.size() != 4)
                return 2;
            const typed_entry* te = nullptr;
            for (auto& e : c->typed)
                if (t[0] == typed_kind_name(e.kind) && e.nominal == std::strtoul(t[1].c_str(), nullptr, 10)
                    && e.aparam == std::strtoul(t[2].c_str(), nullptr, 10))
                    te = &e;
            if (!te)
            {
                std::printf("typed entry %s not instantiated for this composition\n", f[5].c_str());
                return 2;
            }
            v = run_typed(*c, p, *te, std::strtoul(t[3].c_str(), nullptr, 10));
        }
        else
        {
            bool            use_try = f[4] == "try";
            std::vector<op> ops;
            if (!f[5].empty())
                for (auto& s : split(f[5], ','))
                {
                    auto q = split(s, '.');
                    op   o{OP_NODE, 0, 1, 0, 1};
                    if (q[0] == "n" && q.size() == 3)
                        o = {OP_NODE, 0, 1, std::strtoul(q[1].c_str(), nullptr, 10),
                             std::strtoul(q[2].c_str(), nullptr, 10)};
                    else if (q[0] == "a" && q.size() == 4)
                        o = {OP_ARRAY, 0, std::strtoul(q[1].c_str(), nullptr, 10),
                             std::strtoul(q[2].c_str(), nullptr, 10),
                             std::strtoul(q[3].c_str(), nullptr, 10)};
                    else if (q[0] == "mc")
                        o = {OP_MC, 0, 0, 0, 0};
                    else if (q[0] == "ma")
                        o = {OP_MA, 0, 0, 0, 0};
                    else if (q[0] == "tf")
                        o = {OP_TF, 0, 0, 0, 0};
                    else if (q[0][0] == 'r')
                        o = {OP_REL, u8(std::atoi(q[0].c_str() + 1)), 0, 0, 0};
                    else
                    {
                        std::printf("bad op '%s'\n", s.c_str());
                        return 2;
                    }
                    ops.push_back(o);
                }
            if (use_try && !c->composable)
            {
                std::printf("composition is not composable\n");
                return 2;
            }
            v = run_case(*c, p, use_try, ops.data(), int(ops.size()));
        }
        if (v.viol)
        {
            std::printf("VIOLATION [%s] %s\n", v.tag.c_str(), v.detail.c_str());
            return 1;
        }
        std::printf("no violation\n");
        return 0;
    }
} // namespace

int main(int argc, char** argv)
{
    std::string tier = "quick", out, replay_in, failures_file;
    int         shard = 0, nshards = 1;
    bool        list = false;
    for (int i = 1; i < argc; ++i)
    {
        std::string a = argv[i];
        auto        next = [&]() -> std::string { return i + 1 < argc ? argv[++i] : ""; };
        if (a == "--tier")
            tier = next();
        else if (a == "--out")
            out = next();
        else if (a == "--replay")
            replay_in = next();
        else if (a == "--shard")
        {
            auto s = next();
            std::sscanf(s.c_str(), "%d/%d", &shard, &nshards);
        }
        else if (a == "--compile-failures")
            failures_file = next();
        else if (a == "--list")
            list = true;
        else if (a == "--set") // names the archive this binary was linked with; used by the driver only
            next();
    }
    setvbuf(stdout, nullptr, _IOLBF, 0);
    install_guards(4000);
    registry reg;
    if (adapt_register_all)
        adapt_register_all(reg);
    if (list)
    {
        for (auto& c : reg.comps)
            std::printf("%s\t%s\tcomposable=%d typed=%zu\n", c.name.c_str(), c.type.c_str(),
                        int(c.composable), c.typed.size());
        return 0;
    }
    if (!replay_in.empty())
        return replay(reg, replay_in);

    double t0       = now_s();
    bool   thorough = tier == "thorough";
    if (reg.comps.empty())
        R.errors.push_back("no compositions linked into this binary");
    // compositions that did not compile (found by the driver's compile probes) are violations
    if (!failures_file.empty() && shard == 0)
    {
        FILE* f = std::fopen(failures_file.c_str(), "r");
        char  line[4096];
        while (f && std::fgets(line, sizeof line, f))
        {
            std::string s = line;
            while (!s.empty() && (s.back() == '\n' || s.back() == '\r'))
                s.pop_back();
            if (s.empty())
                continue;
            auto    parts = split(s, '\t'); // tag, name, type, compiler message
            while (parts.size() < 4)
                parts.push_back("");
            verdict v;
            v.set(parts[0], "well-formed composition " + parts[1] + " = " + parts[2]
                                + " is rejected by the compiler: " + parts[3]);
            ++R.evaluations;
            R.add_violation(v, "probe:" + parts[1]);
        }
        if (f)
            std::fclose(f);
    }
    for (std::size_t i = 0; i < reg.comps.size(); ++i)
        if (int(i % nshards) == shard)
            enumerate_comp(reg.comps[i], thorough);

    jarr viol;
    for (auto& v : R.violations)
        viol.raw(jobj().str("tag", v.tag).str("detail", v.detail).str("input", v.input).done());
    jarr samples;
    for (auto& s : R.samples)
        samples.str(s);
    jarr errs;
    for (auto& e : R.errors)
        errs.str(e);
    jobj tagc;
    for (std::size_t i = 0; i < R.tags_seen.size(); ++i)
        tagc.num(R.tags_seen[i], R.tag_counts[i]);
    jobj extra;
    extra.num("compositions", R.n_comps)
        .num("parameter_sets", R.n_paramsets)
        .num("single_shape_cases", R.n_single_cases)
        .num("pair_cases", R.n_pair_cases)
        .num("sequence_cases", R.n_seq_cases)
        .num("typed_helper_cases", R.n_typed_cases)
        .num("memory_resource_sweep_cases", R.n_mr_cases)
        .num("composable_interface_cases", R.n_try_cases)
        .num("move_operations", R.n_moves)
        .num("leaf_full_events", R.n_full_events)
        .num("try_deallocate_refusals", R.n_refused)
        .num("tracker_callbacks", R.n_trk)
        .num("observed_node_requests_above_leaf_max_node_size", W.oversized_nodes)
        .raw("violations_per_tag", tagc.done());
    jobj o;
    o.num("evaluations", R.evaluations)
        .num("distinct_nontrivial", (long long)R.classes.size())
        .str("rule",
             "for every registered wrapper composition x parameter set (min alignments 1/16/64 per "
             "aligned_allocator, 3 leaf capacity sets) x interface (throwing, composable): every request "
             "shape (node/array, count 1/2/5, sizes around every segregator threshold and max_node_size, "
             "alignments 1..64) alone + with move construction + with move assignment before the release; "
             "every ordered pair (any shape, " + std::string(thorough ? "any shape with alignment 1/8/64/max" : "one of the 7 alphabet shapes") + ") released in both orders; every operation sequence up to depth "
             + std::to_string(thorough ? 4 : 3)
             + " over {7 request shapes, release k-th oldest, move-construct, move-assign, try-release of a "
               "foreign block}; for compositions containing memory_resource_adapter: every byte count 1..6*max+3 (node, and as array of 2) for wrapped max_node_size 8/16/24/40/48/100 x alignment 1/8/64; typed helpers (incl. element types whose constructor throws) x value types x n 1/2/5. A case class is the sequence of "
               "(operation kind, success, serving leaf position, refusals); distinct_nontrivial counts the "
               "distinct classes that reached the oracle")
        .raw("samples", samples.done())
        .boolean("exhaustive", R.errors.empty())
        .num("excluded", R.excluded)
        .dbl("wall_s", now_s() - t0)
        .raw("violations", viol.done())
        .raw("harness_errors", errs.done())
        .raw("extra", extra.done());
    std::string js = o.done();
    if (!out.empty())
    {
        FILE* f = std::fopen(out.c_str(), "w");
        if (!f)
            return 2;
        std::fputs(js.c_str(), f);
        std::fputc('\n', f);
        std::fclose(f);
    }
    else
        std::printf("%s\n", js.c_str());
    return 0;
}
