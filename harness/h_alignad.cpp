// C02 (for adapters) / C09: memory handed out through aligned_allocator honours the requested alignment and
// the configured minimum, for all four allocation members (allocate_node/array, try_allocate_node/array).
// The leaf below hands out memory that is aligned exactly as far as it was asked to (its bump position is
// deliberately misaligned), so an alignment the adapter forgets to forward shows in the returned pointer.
// Self-contained: builds with vlib.build_harness("harness/h_alignad.cpp", cfg), no generated sources.
#include "../engine/core.hpp"

#include <foonathan/memory/aligned_allocator.hpp>
#include <foonathan/memory/allocator_storage.hpp>
#include <foonathan/memory/fallback_allocator.hpp>

#include <unordered_set>

using namespace verif;
namespace fm = foonathan::memory;

namespace
{
    struct request
    {
        bool        array, ok;
        std::size_t count, size, align;
        void*       p;
    };
    struct leaf_world
    {
        alignas(128) unsigned char arena[1 << 16];
        std::size_t bump = 1;
        std::size_t misalign = 1;
        request     log[64];
        int         nlog = 0;
        int         live = 0;
        void        reset(std::size_t mis)
        {
            misalign = mis;
            bump     = mis;
            nlog     = 0;
            live     = 0;
        }
    } W;

    // composable leaf: block aligned to exactly the alignment it was asked for, and to nothing more if avoidable
    template <int I>
    struct leaf
    {
        using is_stateful = std::true_type;
        int cap;
        int used = 0;
        explicit leaf(int c) noexcept : cap(c) {}
        leaf(leaf&& o) noexcept : cap(o.cap), used(o.used) {}
        leaf& operator=(leaf&& o) noexcept
        {
            cap  = o.cap;
            used = o.used;
            return *this;
        }

        void* get(bool array, std::size_t count, std::size_t size, std::size_t align, bool is_try)
        {
            if (used >= cap)
            {
                if (is_try)
                    return nullptr;
                throw std::bad_alloc();
            }
            std::size_t a     = align ? align : 1;
            std::size_t start = (W.bump + a - 1) / a * a;
            // avoid accidental over-alignment: if the block happens to be aligned to 2a, move on by a
            if (a < 64 && start % (2 * a) == 0)
                start += a;
            void* p = W.arena + start;
            W.bump  = start + (count * size ? count * size : 1) + W.misalign;
            if (W.nlog < 64)
                W.log[W.nlog++] = {array, true, count, size, align, p};
            ++used;
            ++W.live;
            return p;
        }
        bool owns(void* p) const noexcept
        {
            return p >= W.arena && p < W.arena + sizeof W.arena;
        }
        void* allocate_node(std::size_t s, std::size_t a)
        {
            return get(false, 1, s, a, false);
        }
        void* allocate_array(std::size_t c, std::size_t s, std::size_t a)
        {
            return get(true, c, s, a, false);
        }
        void deallocate_node(void*, std::size_t, std::size_t) noexcept
        {
            --used;
            --W.live;
        }
        void deallocate_array(void*, std::size_t, std::size_t, std::size_t) noexcept
        {
            --used;
            --W.live;
        }
        void* try_allocate_node(std::size_t s, std::size_t a) noexcept
        {
            return get(false, 1, s, a, true);
        }
        void* try_allocate_array(std::size_t c, std::size_t s, std::size_t a) noexcept
        {
            return get(true, c, s, a, true);
        }
        bool try_deallocate_node(void* p, std::size_t, std::size_t) noexcept
        {
            if (!owns(p) || used == 0)
                return false;
            --used;
            --W.live;
            return true;
        }
        bool try_deallocate_array(void* p, std::size_t, std::size_t, std::size_t) noexcept
        {
            return try_deallocate_node(p, 0, 0);
        }
        std::size_t max_node_size() const
        {
            return 4096;
        }
        std::size_t max_array_size() const
        {
            return 4096;
        }
        std::size_t max_alignment() const
        {
            return 64;
        }
    };

    // compositions: kind 0 aligned_allocator<leaf>, 1 aligned_allocator<allocator_adapter<leaf>>,
    // 2 aligned_allocator<fallback_allocator<leaf, leaf>> (default leaf full: second leaf serves),
    // 3 aligned_allocator<aligned_allocator<leaf>> (inner minimum 4), 4 allocator_adapter<aligned_allocator<leaf>>
    using C0 = fm::aligned_allocator<leaf<0>>;
    using C1 = fm::aligned_allocator<fm::allocator_adapter<leaf<0>>>;
    using C2 = fm::aligned_allocator<fm::fallback_allocator<leaf<0>, leaf<1>>>;
    using C3 = fm::aligned_allocator<fm::aligned_allocator<leaf<0>>>;
    using C4 = fm::allocator_adapter<fm::aligned_allocator<leaf<0>>>;
    const char* KIND_NAME[] = {"aligned_allocator<leaf>", "aligned_allocator<allocator_adapter<leaf>>",
                               "aligned_allocator<fallback_allocator<leaf(full), leaf>>",
                               "aligned_allocator<aligned_allocator<leaf>(min 4)>",
                               "allocator_adapter<aligned_allocator<leaf>>"};
    const char* MEMBER_NAME[] = {"allocate_node", "allocate_array", "try_allocate_node", "try_allocate_array"};

    struct acase
    {
        int         kind, member;
        std::size_t min, align, count, size, misalign;
    };
    std::string case_str(const acase& c)
    {
        return fmt("%d.%d.%zu.%zu.%zu.%zu.%zu", c.kind, c.member, c.min, c.align, c.count, c.size, c.misalign);
    }
    struct verdict
    {
        bool        viol = false;
        std::string tag, detail;
        void        set(const std::string& t, const std::string& d)
        {
            if (!viol)
                viol = true, tag = t, detail = d;
        }
    };
    bool VERBOSE = false;

    template <class C>
    void drive(C& c, const acase& a, verdict& v)
    {
        using traits  = fm::allocator_traits<C>;
        using ctraits = fm::composable_allocator_traits<C>;
        void* p = nullptr;
        switch (a.member)
        {
        case 0:
            p = traits::allocate_node(c, a.size, a.align);
            break;
        case 1:
            p = traits::allocate_array(c, a.count, a.size, a.align);
            break;
        case 2:
            p = ctraits::try_allocate_node(c, a.size, a.align);
            break;
        case 3:
            p = ctraits::try_allocate_array(c, a.count, a.size, a.align);
            break;
        }
        std::size_t need = a.align > a.min ? a.align : a.min;
        if (a.kind == 3 && need < 4)
            need = 4;
        std::string what = fmt("%s(min_alignment %zu)::%s(%s size=%zu, alignment=%zu), leaf bump offset %zu",
                               KIND_NAME[a.kind], a.min, MEMBER_NAME[a.member],
                               a.member % 2 ? fmt("count=%zu,", a.count).c_str() : "", a.size, a.align, a.misalign);
        if (VERBOSE)
            std::printf("  %s\n  -> arena+%ld, leaf was asked for alignment %zu, required %zu\n", what.c_str(),
                        p ? long((unsigned char*)p - W.arena) : -1L, W.nlog ? W.log[W.nlog - 1].align : 0, need);
        if (!p)
            v.set("request-failed", what + ": returned nullptr although the leaf has room");
        else
        {
            if (reinterpret_cast<std::uintptr_t>(p) % need != 0)
                v.set("returned-pointer-underaligned",
                      what + fmt(": returned pointer arena+%ld is not aligned to max(requested, minimum) = %zu "
                                 "(the leaf was asked for alignment %zu)",
                                 long((unsigned char*)p - W.arena), need, W.nlog ? W.log[W.nlog - 1].align : 0));
            if (W.nlog != 1 || W.log[0].p != p)
                v.set("not-exactly-one-leaf-allocation", what + fmt(": %d leaf allocations", W.nlog));
            else if (W.log[0].align != need)
                v.set("leaf-alignment-not-adjusted",
                      what + fmt(": leaf was asked for alignment %zu, expected %zu", W.log[0].align, need));
            else if (W.log[0].count * W.log[0].size < (a.member % 2 ? a.count : 1) * a.size)
                v.set("leaf-request-too-small", what);
            // release through the matching member
            switch (a.member)
            {
            case 0:
                traits::deallocate_node(c, p, a.size, a.align);
                break;
            case 1:
                traits::deallocate_array(c, p, a.count, a.size, a.align);
                break;
            case 2:
                if (!ctraits::try_deallocate_node(c, p, a.size, a.align))
                    v.set("try-release-refused", what);
                break;
            case 3:
                if (!ctraits::try_deallocate_array(c, p, a.count, a.size, a.align))
                    v.set("try-release-refused", what);
                break;
            }
            if (W.live != 0)
                v.set("block-never-released", what + ": leaf still holds the block after the release");
        }
    }

    void body(const acase& a, verdict& v)
    {
        W.reset(a.misalign);
        switch (a.kind)
        {
        case 0:
        {
            C0 c(a.min, leaf<0>(4));
            drive(c, a, v);
            break;
        }
        case 1:
        {
            C1 c(a.min, fm::allocator_adapter<leaf<0>>(leaf<0>(4)));
            drive(c, a, v);
            break;
        }
        case 2:
        {
            C2 c(a.min, fm::fallback_allocator<leaf<0>, leaf<1>>(leaf<0>(0), leaf<1>(4)));
            drive(c, a, v);
            break;
        }
        case 3:
        {
            C3 c(a.min, fm::aligned_allocator<leaf<0>>(4, leaf<0>(4)));
            drive(c, a, v);
            break;
        }
        case 4:
        {
            C4 c(fm::aligned_allocator<leaf<0>>(a.min, leaf<0>(4)));
            drive(c, a, v);
            break;
        }
        }
    }

    verdict run(const acase& a)
    {
        verdict v;
        int     out = OUT_OK;
        VERIF_GUARDED(out, {
            try
            {
                body(a, v);
            }
            catch (...)
            {
                v.set("request-failed", "exception although the leaf has room: " + case_str(a));
            }
        });
        if (out != OUT_OK)
        {
            v.viol = false;
            v.set(std::string("adapter-") + outcome_name(out), case_str(a) + " " + outcome_name(out) + " inside the library");
        }
        return v;
    }
} // namespace

int main(int argc, char** argv)
{
    std::string tier = "quick", out, replay_in;
    for (int i = 1; i < argc; ++i)
    {
        std::string a    = argv[i];
        auto        next = [&]() -> std::string { return i + 1 < argc ? argv[++i] : ""; };
        if (a == "--tier")
            tier = next();
        else if (a == "--out")
            out = next();
        else if (a == "--replay")
            replay_in = next();
    }
    setvbuf(stdout, nullptr, _IOLBF, 0);
    install_guards(2000);
    if (!replay_in.empty())
    {
        while (!replay_in.empty() && (replay_in.front() == '"' || replay_in.front() == ' '))
            replay_in.erase(replay_in.begin());
        while (!replay_in.empty() && (replay_in.back() == '"' || replay_in.back() == ' '))
            replay_in.pop_back();
        acase a{};
        if (std::sscanf(replay_in.c_str(), "%d.%d.%zu.%zu.%zu.%zu.%zu", &a.kind, &a.member, &a.min, &a.align,
                        &a.count, &a.size, &a.misalign)
                != 7
            || a.kind < 0 || a.kind > 4 || a.member < 0 || a.member > 3)
        {
            std::printf("cannot parse '%s' (kind.member.min.align.count.size.misalign)\n", replay_in.c_str());
            return 2;
        }
        VERBOSE   = true;
        verdict v = run(a);
        if (v.viol)
        {
            std::printf("VIOLATION [%s] %s\n", v.tag.c_str(), v.detail.c_str());
            return 1;
        }
        std::printf("no violation\n");
        return 0;
    }

    double                  t0       = now_s();
    bool                    thorough = tier == "thorough";
    long                    evals = 0, excluded = 0;
    std::unordered_set<u64> classes;
    jarr                    viol, samples;
    std::vector<std::string> tags;
    std::vector<long>        counts;
    static const std::size_t AL[] = {1, 2, 4, 8, 16, 32, 64};
    std::vector<std::size_t> sizes  = thorough ? std::vector<std::size_t>{1, 3, 8, 24, 48, 100} : std::vector<std::size_t>{1, 8, 24};
    std::vector<std::size_t> countv = {1, 2, 5};
    std::vector<std::size_t> mis    = thorough ? std::vector<std::size_t>{1, 3, 5, 9, 17, 33} : std::vector<std::size_t>{1, 9, 33};
    for (int kind = 0; kind < 5; ++kind)
        for (int member = 0; member < 4; ++member)
            for (std::size_t min : AL)
                for (std::size_t align : AL)
                    for (std::size_t cnt : countv)
                        for (std::size_t size : sizes)
                            for (std::size_t m : mis)
                            {
                                if (member % 2 == 0 && cnt != 1)
                                    continue; // node members have no count
                                acase   a{kind, member, min, align, cnt, size, m};
                                verdict v = run(a);
                                ++evals;
                                hasher h;
                                h.word(kind * 4 + member);
                                h.word(min * 1000 + align);
                                h.word(v.viol);
                                classes.insert(h.get().a);
                                if (v.viol)
                                {
                                    verdict v2 = run(a); // confirm
                                    if (!v2.viol || v2.tag != v.tag)
                                        continue;
                                    std::size_t i = 0;
                                    while (i < tags.size() && tags[i] != v.tag)
                                        ++i;
                                    if (i == tags.size())
                                        tags.push_back(v.tag), counts.push_back(0);
                                    if (++counts[i] <= 3)
                                        viol.raw(jobj().str("tag", v.tag).str("detail", v.detail).str("input", case_str(a)).done());
                                }
                                else if (evals % 5003 == 1)
                                    samples.str(case_str(a));
                            }
    jobj tagc;
    for (std::size_t i = 0; i < tags.size(); ++i)
        tagc.num(tags[i], counts[i]);
    jobj o;
    o.num("evaluations", evals)
        .num("distinct_nontrivial", (long long)classes.size())
        .str("rule", "5 compositions around aligned_allocator x 4 allocation members x minimum alignment 1..64 x requested "
                     "alignment 1..64 x count 1/2/5 x sizes x leaf bump misalignment; class = (composition, member, minimum, "
                     "requested, verdict); oracle: pointer aligned to max(requested, minimum), leaf asked for exactly that")
        .raw("samples", samples.done())
        .boolean("exhaustive", true)
        .num("excluded", excluded)
        .dbl("wall_s", now_s() - t0)
        .raw("violations", viol.done())
        .raw("harness_errors", "[]")
        .raw("extra", jobj().raw("violations_per_tag", tagc.done()).done());
    std::string js = o.done();
    if (!out.empty())
    {
        FILE* f = std::fopen(out.c_str(), "w");
        if (!f)
            return 2;
        std::fputs(js.c_str(), f);
        std::fputc('\n', f);
        std::fclose(f);
    }
    else
        std::printf("%s\n", js.c_str());
    return 0;
}
