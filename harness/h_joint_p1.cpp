// C11 harness, joint types with index == 1 (mod 4) (see joint_body.hpp).
#define VERIF_JOINT_PARTS 4
#define VERIF_JOINT_PART 1
#include "joint_body.hpp"
