// Explorable system: memory_pool<node_pool|array_pool|small_node_pool> over growing / constant /
// fixed block sources, member / traits / composable interface families.
#include "asys.hpp"

#include <foonathan/memory/allocator_traits.hpp>
#include <foonathan/memory/memory_pool.hpp>

#include "listwalk.hpp"

using namespace verif;

struct pool_params
{
    std::size_t ns = 16, bs = 272;
    int         fam = 0; // 0 member 1 traits 2 composable
    bool        tries = false, bad = false;
    std::vector<long> arrays;                    // member family: node counts
    std::vector<std::pair<long, long>> tarrays;  // traits family: count x size
    std::vector<long> sizes;                     // traits family: node sizes
    long        align = 0;                       // traits family alignment (0 = natural)
};
static pool_params PP;

struct named_req
{
    alloc_req   r;
    std::string name, kind;
};
static std::vector<named_req> ALLOCS;

template <class PoolType, class Src>
struct pool_policy
{
    using object = fm::memory_pool<PoolType, Src>;
    using list_t = typename PoolType::type;
    using traits = fm::allocator_traits<object>;
    using ctraits = fm::composable_allocator_traits<object>;
    struct extra_t
    {
        u32 dummy;
    };

    static void init_extra(extra_t&) {}
    static void construct(void* where)
    {
        ::new (where) object(PP.ns, PP.bs);
    }
    //=== deliberately invalid calls (C16) ===//
    // 0..3: release the free node at list position 0..3 again, 4: the last free node, 5: the middle one,
    // 6: (small pools) a pointer into a chunk header, 7: a pointer above all blocks, 8..10: inside a live node at offset 1..3
    static int nbad()
    {
        return 12;
    }
    static std::string bad_kind(int i)
    {
        return i <= 5 ? "double_free" : (i <= 7 || i == 11) ? "foreign_pointer" : "misaligned_pointer";
    }
    template <class W>
    static u8* bad_ptr(W& w, int s, int i)
    {
        auto& o = asys<pool_policy>::obj(s);
        if (i <= 5)
        {
            if (!list_kind<list_t>::double_free_checked)
                return nullptr;
            std::vector<u8*> fr;
            collect_free(o.free_list_, fr);
            if (fr.empty())
                return nullptr;
            if (i <= 3)
                return std::size_t(i) < fr.size() ? fr[std::size_t(i)] : nullptr;
            if (i == 4)
                return fr.size() > 4 ? fr.back() : nullptr;
            return fr.size() > 6 ? fr[fr.size() / 2] : nullptr;
        }
        if (!list_kind<list_t>::is_small || !cfg_ptr)
            return nullptr;
        if (i == 6)
        {
            // first chunk's header (inside the pool's block, not node memory)
            if (w.h.up.nblk == 0)
                return nullptr;
            return w.arena + w.h.up.blk[0].off + fm::detail::memory_block_stack::implementation_offset() + 1;
        }
        if (i == 7)
            return w.arena + CP().arena - 8; // never part of a block in these configurations
        if (i == 11)
        {
            // exactly one past the node area of the first chunk (the next chunk's header / the block's end)
            return one_past_first_chunk(o.free_list_);
        }
        if (i > 10 || w.h.sh.n == 0 || std::size_t(i - 7) >= o.node_size())
            return nullptr;
        return w.arena + w.h.sh.v[0].off + (i - 7);
    }
    template <class W>
    static std::string bad_name(W& w, int s, int i)
    {
        u8* p = bad_ptr(w, s, i);
        return fmt("deallocate_node(%s at offset %ld)", i <= 5 ? "already free node" : (i <= 7 || i == 11) ? "pointer outside the pool's nodes" : "pointer inside a node",
                   p ? long(p - w.arena) : -1L);
    }
    template <class W>
    static bool bad_enabled(W& w, int s, int i)
    {
        u8* p = bad_ptr(w, s, i);
        if (!p)
            return false;
        if (i == 7)
        {
            // must really be outside every block
            return w.h.up.find_containing(w.h.up.offset_of(p), 1) < 0;
        }
        return true;
    }
    template <class W>
    static void bad_call(W& w, int s, int i)
    {
        asys<pool_policy>::obj(s).deallocate_node(bad_ptr(w, s, i));
    }
    template <class W>
    static u64 digest(W&, int s)
    {
        auto& o = asys<pool_policy>::obj(s);
        return u64(o.capacity_left()) ^ (u64(o.arena_.size()) << 40);
    }
    static bool fills_new()
    {
        return true;
    }
    static bool has_leak_check()
    {
        return true;
    }
    static std::size_t block_header()
    {
        return fm::detail::memory_block_stack::implementation_offset();
    }

    static int nalloc()
    {
        return int(ALLOCS.size());
    }
    static std::string alloc_name(int i)
    {
        return ALLOCS[i].name;
    }
    static std::string alloc_kind(int i)
    {
        return ALLOCS[i].kind;
    }
    static verif::alloc_req make_req(extra_t&, int, int i)
    {
        return ALLOCS[i].r;
    }
    static bool alloc_enabled(extra_t&, int, int)
    {
        return true;
    }
    static bool release_enabled(extra_t&, shadow_t<MAXL>&, int)
    {
        return true;
    }

    static void* do_alloc(object& o, const verif::alloc_req& r)
    {
        switch (r.fam)
        {
        case 0:
            if (r.kind == 0)
                return r.is_try ? o.try_allocate_node() : o.allocate_node();
            return r.is_try ? o.try_allocate_array(r.count) : o.allocate_array(r.count);
        case 1:
            if (r.kind == 0)
                return traits::allocate_node(o, r.size, r.align);
            return traits::allocate_array(o, r.count, r.size, r.align);
        default:
            if (r.kind == 0)
                return ctraits::try_allocate_node(o, r.size, r.align);
            return ctraits::try_allocate_array(o, r.count, r.size, r.align);
        }
    }
    static bool do_release(object& o, void* p, const live_t& l, bool try_)
    {
        switch (l.fam)
        {
        case 0:
            if (l.kind == 0)
            {
                if (try_)
                    return o.try_deallocate_node(p);
                o.deallocate_node(p);
                return true;
            }
            if (try_)
                return o.try_deallocate_array(p, l.count);
            o.deallocate_array(p, l.count);
            return true;
        case 1:
            if (l.kind == 0)
                traits::deallocate_node(o, p, l.size, l.align);
            else
                traits::deallocate_array(o, p, l.count, l.size, l.align);
            return true;
        default:
            if (l.kind == 0)
                return ctraits::try_deallocate_node(o, p, l.size, l.align);
            return ctraits::try_deallocate_array(o, p, l.count, l.size, l.align);
        }
    }

    // extras: none
    static int nextra()
    {
        return 0;
    }
    static std::string extra_kind(int)
    {
        return "";
    }
    static std::string extra_name(extra_t&, int)
    {
        return "";
    }
    static bool extra_enabled(extra_t&, shadow_t<MAXL>&, int, int)
    {
        return false;
    }
    template <class W>
    static void extra_apply(W&, int, int) {}
    static void after_alloc(extra_t&, const live_t&) {}
    static void after_release(extra_t&, const live_t&) {}
    static void after_move(extra_t&, int, int) {}
    static void after_swap(extra_t&) {}
    static void after_destroy(extra_t&, int) {}

    struct obs
    {
        std::size_t cap, capleft, nextcap, next_block, list_ns, max_node, max_array, max_align;
        bool        list_empty;
    };
    template <class W>
    static obs observe(W&, int s)
    {
        auto& o = asys<pool_policy>::obj(s);
        obs   b;
        b.cap        = o.free_list_.capacity();
        b.capleft    = o.capacity_left();
        b.nextcap    = o.next_capacity();
        b.next_block = o.arena_.next_block_size();
        b.list_ns    = o.free_list_.node_size();
        b.list_empty = o.free_list_.empty();
        b.max_node   = traits::max_node_size(o);
        b.max_array  = traits::max_array_size(o);
        b.max_align  = traits::max_alignment(o);
        return b;
    }
    static std::size_t nodes_of(const obs& b, u8 kind, u32 bytes)
    {
        if (kind == 0 || bytes <= b.list_ns)
            return 1;
        return (bytes + b.list_ns - 1) / b.list_ns;
    }

    template <class W>
    static void check_alloc(W& w, int s, const verif::alloc_req& r, const live_t& l, const obs& before)
    {
        auto& t     = T();
        auto  after = observe(w, s);
        auto  taken = nodes_of(before, r.kind, l.bytes);
        if (t.up_allocs == 0)
        {
            if (after.cap + taken < before.cap)
                t.fail("M-capacity", "nodes-lost-on-alloc",
                       fmt("allocation took %zu node(s) but the free list shrank from %zu to %zu", taken, before.cap, after.cap));
            if (after.cap + taken != before.cap)
                t.fail("M-counters", "capacity-delta-alloc",
                       fmt("allocation of %zu node(s) changed the list capacity from %zu to %zu", taken, before.cap, after.cap));
            if (after.capleft + taken * o_node_size(s) != before.capleft)
                t.fail("M-counters", "capacity-left-delta-alloc",
                       fmt("capacity_left went from %zu to %zu for an allocation of %zu node(s) of %zu bytes", before.capleft,
                           after.capleft, taken, o_node_size(s)));
        }
        else
        {
            auto& b = w.h.up.blk[w.h.up.nblk - 1];
            if (b.size != before.next_block + block_header())
                t.fail("M-counters", "next-block-size",
                       fmt("arena announced a next block of %zu usable bytes but requested %u bytes upstream", before.next_block, b.size));
            std::size_t gained = after.cap + taken - before.cap;
            if (gained * before.list_ns != before.nextcap)
                t.fail("M-counters", "next-capacity",
                       fmt("next_capacity() promised %zu bytes, growth added %zu nodes of %zu", before.nextcap, gained, before.list_ns));
            if (r.kind == 0 && !before.list_empty)
                t.fail("M-nogrow", "grew-with-free-node", "single node request grew the pool although the free list still held a node");
            // an array that needs ONE node (count * element size <= node size) is a single node request as well
            if (r.kind == 1 && taken == 1 && !before.list_empty)
                t.fail("M-nogrow", "grew-with-free-node",
                       fmt("array request of %u x %u bytes needs one node of %zu bytes and grew the pool although the free list still held a node", r.count,
                           r.size, before.list_ns));
        }
        // maxima are upper bounds (C18)
        if (r.fam >= 1)
        {
            if (r.size > before.max_node)
                t.fail("M-maxima", "above-max-node-size", fmt("request of node size %u succeeded, max_node_size() was %zu", r.size, before.max_node));
            if (r.kind == 1 && std::size_t(r.count) * r.size > before.max_array)
                t.fail("M-maxima", "above-max-array-size", fmt("array of %u bytes succeeded, max_array_size() was %zu", r.count * r.size, before.max_array));
            if (r.align > before.max_align)
                t.fail("M-maxima", "above-max-alignment", fmt("alignment %u succeeded, max_alignment() was %zu", r.align, before.max_align));
        }
    }
    static std::size_t o_node_size(int s)
    {
        return asys<pool_policy>::obj(s).node_size();
    }
    template <class W>
    static void check_failed_alloc(W& w, int s, const verif::alloc_req& r, const obs& before, int)
    {
        auto& t     = T();
        auto  after = observe(w, s);
        if (t.up_allocs == 0 && after.cap != before.cap)
            t.fail("M-counters", "capacity-changed-by-failed-alloc",
                   fmt("failed allocation changed the list capacity from %zu to %zu", before.cap, after.cap));
        if (t.up_allocs == 0 && after.nextcap != before.nextcap)
            t.fail("M-counters", "next-capacity-changed-by-failed-alloc",
                   fmt("next_capacity() went from %zu to %zu across a request that failed and obtained no block", before.nextcap, after.nextcap));
        if (r.is_try && r.kind == 0 && !before.list_empty && r.size <= before.max_node && r.align <= before.max_align)
            t.fail("M-try", "try-null-with-free-node", "try_allocate_node returned null although the free list held a node");
    }
    template <class W>
    static void check_release(W& w, int s, const live_t& l, const obs& before)
    {
        auto& t     = T();
        auto  after = observe(w, s);
        auto  taken = nodes_of(before, l.kind, l.bytes);
        if (after.cap < before.cap + taken)
            t.fail("M-capacity", "nodes-lost-on-release",
                   fmt("release of %zu node(s) raised the free list only from %zu to %zu", taken, before.cap, after.cap));
        if (after.cap != before.cap + taken)
            t.fail("M-counters", "capacity-delta-release",
                   fmt("release of %zu node(s) changed the list capacity from %zu to %zu", taken, before.cap, after.cap));
        if (after.capleft != before.capleft + taken * o_node_size(s))
            t.fail("M-counters", "capacity-left-delta-release",
                   fmt("capacity_left went from %zu to %zu for a release of %zu node(s)", before.capleft, after.capleft, taken));
        if (cfg_fill)
        {
            const int link = list_walk<list_t>::link_bytes;
            for (u32 i = 0; i < l.bytes; ++i)
            {
                if (int(i % before.list_ns) < link)
                    continue;
                if (w.arena[l.off + i] != 0xDD)
                {
                    t.fail("M-fillfree", "not-freed-pattern",
                           fmt("byte %u of memory released to the pool (offset %u) is 0x%02X, not 0xDD", i, l.off, w.arena[l.off + i]));
                    break;
                }
            }
        }
    }
    template <class W>
    static void check_structure(W& w, int s)
    {
        list_walk<list_t>::check(w, s, asys<pool_policy>::obj(s).free_list_);
    }
};

static void build_allocs()
{
    ALLOCS.clear();
    auto add = [&](u8 kind, u32 count, u32 size, u32 align, bool is_try, u8 fam, const std::string& name,
                   const std::string& kd) {
        alloc_req r{};
        r.kind   = kind;
        r.count  = count;
        r.size   = size;
        r.align  = align;
        r.is_try = is_try;
        r.fam    = fam;
        ALLOCS.push_back({r, name, kd});
    };
    if (PP.fam == 0)
    {
        add(0, 1, u32(PP.ns), 0, false, 0, "allocate_node()", "node");
        if (PP.tries)
            add(0, 1, u32(PP.ns), 0, true, 0, "try_allocate_node()", "try_node");
        for (auto c : PP.arrays)
        {
            add(1, u32(c), u32(PP.ns), 0, false, 0, fmt("allocate_array(%ld)", c), "array");
            if (PP.tries)
                add(1, u32(c), u32(PP.ns), 0, true, 0, fmt("try_allocate_array(%ld)", c), "try_array");
        }
    }
    else
    {
        bool ct = PP.fam == 2;
        auto nm = ct ? "ctraits::try_" : "traits::";
        for (auto sz : PP.sizes)
        {
            u32 al = PP.align ? u32(PP.align) : 1;
            add(0, 1, u32(sz), al, ct, u8(PP.fam), fmt("%sallocate_node(%ld,%u)", nm, sz, al), ct ? "try_node" : "node");
        }
        for (auto& cs : PP.tarrays)
        {
            u32 al = PP.align ? u32(PP.align) : 1;
            add(1, u32(cs.first), u32(cs.second), al, ct, u8(PP.fam),
                fmt("%sallocate_array(%ld,%ld,%u)", nm, cs.first, cs.second, al), ct ? "try_array" : "array");
        }
    }
}

template <class PT, class Src>
static int run(const argmap& a, const std::string& name)
{
    return run_system<asys<pool_policy<PT, Src>>>(a, name);
}

int main(int argc, char** argv)
{
    argmap a(argc, argv);
    read_common(a);
    PP.ns     = std::size_t(a.n("ns", 16));
    PP.bs     = std::size_t(a.n("bs", 272));
    PP.tries  = a.n("tries", 0) != 0;
    PP.align  = a.n("align", 0);
    std::string fam = a.s("fam", "member");
    PP.fam    = fam == "member" ? 0 : fam == "traits" ? 1 : 2;
    PP.arrays = a.list("arrays");
    PP.sizes  = a.list("sizes");
    if (PP.sizes.empty())
        PP.sizes.push_back(long(PP.ns));
    {
        std::string v = a.s("tarrays");
        std::size_t p = 0;
        while (p < v.size())
        {
            auto e = v.find(',', p);
            if (e == std::string::npos)
                e = v.size();
            auto x = v.find('x', p);
            if (x != std::string::npos && x < e)
                PP.tarrays.push_back({std::atol(v.substr(p, x - p).c_str()), std::atol(v.substr(x + 1, e - x - 1).c_str())});
            p = e + 1;
        }
    }
    build_allocs();
    std::string type = a.s("type", "node"), src = a.s("src", "growing");
    std::string name = a.s("name", type + "/" + src);
#define DISPATCH(PT)                                                                               \
    if (src == "growing")                                                                          \
        return run<PT, src_growing>(a, name);                                                      \
    if (src == "constant")                                                                         \
        return run<PT, src_constant>(a, name);                                                     \
    return run<PT, src_fixed>(a, name);
    if (type == "node")
    {
        DISPATCH(fm::node_pool)
    }
    if (type == "array")
    {
        DISPATCH(fm::array_pool)
    }
    DISPATCH(fm::small_node_pool)
}
