// Explorable system: memory_arena<BlockAllocator, cached|uncached> driven directly
// (allocate_block / deallocate_block / shrink_to_fit / move / swap / destroy) over growing, constant,
// fixed and static block sources; every block source is wrapped in a logging BlockAllocator so that the
// block-level protocol (C05) is observed for sources that do not go through the raw upstream.
#include "asys.hpp"

#include <foonathan/memory/memory_arena.hpp>
#include <foonathan/memory/static_allocator.hpp>
#include <foonathan/memory/virtual_memory.hpp>

#include <sys/mman.h>

using namespace verif;

struct arena_params
{
    std::size_t bs = 64;
    std::size_t storage = 256; // static storage bytes (multiple of bs)
};
static arena_params PP;

struct blog_entry
{
    u32 off, size;
    u8  owner, pad[3];
};
struct blog_t
{
    blog_entry e[MAXB];
    u32        n;
    u32        allocs_op, deallocs_op; // reset by the policy at the start of an operation
};
static blog_t* g_blog = nullptr;

template <class Inner>
struct logged_src : Inner
{
    using Inner::Inner;
    logged_src(logged_src&&) noexcept            = default;
    logged_src& operator=(logged_src&&) noexcept = default;
    friend void swap(logged_src& a, logged_src& b) noexcept
    {
        using std::swap;
        swap(static_cast<Inner&>(a), static_cast<Inner&>(b));
    }

    fm::memory_block allocate_block()
    {
        auto  b  = Inner::allocate_block();
        auto& bl = *g_blog;
        auto& up = *g_up();
        ++bl.allocs_op;
        if (!b.memory || !up.in_arena(b.memory))
        {
            T().fail("M-upstream", "block-outside", "block source returned a block outside the known memory");
            return b;
        }
        u32 off = up.offset_of(b.memory);
        for (u32 i = 0; i < bl.n; ++i)
            if (off < bl.e[i].off + bl.e[i].size && bl.e[i].off < off + u32(b.size))
                T().fail("M-upstream", "block-handed-out-twice",
                         fmt("block source handed out [%u,%u) which overlaps the outstanding block [%u,%u)", off, off + u32(b.size),
                             bl.e[i].off, bl.e[i].off + bl.e[i].size));
        if (bl.n < u32(MAXB))
        {
            bl.e[bl.n].off   = off;
            bl.e[bl.n].size  = u32(b.size);
            bl.e[bl.n].owner = u8(up.cur_owner);
            ++bl.n;
        }
        return b;
    }
    void deallocate_block(fm::memory_block b) noexcept
    {
        auto& bl = *g_blog;
        auto& up = *g_up();
        ++bl.deallocs_op;
        int idx = -1;
        u32 off = up.in_arena(b.memory) ? up.offset_of(b.memory) : 0xFFFFFFFFu;
        for (u32 i = 0; i < bl.n; ++i)
            if (bl.e[i].off == off)
                idx = int(i);
        if (idx < 0)
            T().fail("M-upstream", "release-unknown",
                     fmt("block at offset %u returned to the block source but it is not outstanding (double release or wrong address)", off));
        else
        {
            if (bl.e[idx].size != b.size)
                T().fail("M-upstream", "release-mismatch",
                         fmt("block at offset %u returned with size %zu, it was acquired with size %u", off, b.size, bl.e[idx].size));
            for (u32 i = u32(idx) + 1; i < bl.n; ++i)
                if (bl.e[i].owner == bl.e[idx].owner)
                {
                    T().fail("M-upstream", "release-not-lifo",
                             fmt("block at offset %u returned while the block at offset %u, acquired later, is still outstanding", off,
                                 bl.e[i].off));
                    break;
                }
            for (u32 i = u32(idx); i + 1 < bl.n; ++i)
                bl.e[i] = bl.e[i + 1];
            --bl.n;
            std::memset(&bl.e[bl.n], 0, sizeof(blog_entry));
        }
        Inner::deallocate_block(b);
    }
};


//=== virtual memory: the library's mmap(PROT_NONE) reservations are served from the deterministic upstream arena ===//
extern "C" void* __real_mmap(void*, size_t, int, int, int, off_t);
extern "C" int   __real_munmap(void*, size_t);
extern "C" int   __real_mprotect(void*, size_t, int);
extern "C" int   __real_madvise(void*, size_t, int);
static int g_mprotect_fail = 0;
// commit state of every page of the deterministic arena (lives in the world: snapshot/restore and the state key see it).
// A block of the virtual source is "obtained" by committing its pages and "given back" by decommitting exactly those pages.
static const unsigned VM_PAGES = 64;
static verif::u8*     g_pages  = nullptr;
static void vm_pages(void* p, size_t len, int commit)
{
    if (!g_pages)
        return;
    size_t first = g_up()->offset_of(p) / 4096, n = (len + 4095) / 4096;
    for (size_t i = first; i < first + n && i < VM_PAGES; ++i)
    {
        if (commit == 1 && g_pages[i])
            T().fail("M-upstream", "commit-of-committed-page", verif::fmt("page %zu of the reservation is committed although it already is (a block was handed out twice or never given back)", i));
        if (commit == 0 && !g_pages[i])
            T().fail("M-upstream", "decommit-of-uncommitted-page", verif::fmt("page %zu of the reservation is decommitted although no block committed it (the wrong range is given back)", i));
        if (commit == 2 && g_pages[i])
            T().fail("M-upstream", "release-of-committed-page", verif::fmt("page %zu is still committed when its reservation is released (a block was never given back)", i));
        g_pages[i] = commit == 1;
    }
}
extern "C" void* __wrap_mmap(void* addr, size_t len, int prot, int flags, int fd, off_t off)
{
    if (prot == PROT_NONE && fd == -1 && g_up())
    {
        try
        {
            return g_up()->alloc(UP_BLOCK, 1, len, 4096, 7);
        }
        catch (...)
        {
            return MAP_FAILED;
        }
    }
    return __real_mmap(addr, len, prot, flags, fd, off);
}
extern "C" int __wrap_munmap(void* p, size_t len)
{
    if (g_up() && g_up()->in_arena(p))
    {
        vm_pages(p, len, 2);
        g_up()->dealloc(UP_BLOCK, p, 1, len, 4096, 7);
        return 0;
    }
    return __real_munmap(p, len);
}
extern "C" int __wrap_mprotect(void* p, size_t len, int prot)
{
    if (g_up() && g_up()->in_arena(p))
    {
        if (g_up()->find_containing(g_up()->offset_of(p), u32(len)) < 0)
            T().fail("M-upstream", "commit-outside-reservation", "virtual memory commit/decommit outside a reserved range");
        if (prot != PROT_NONE && g_up()->fail_armed)
        {
            // "fail the next upstream call": for the virtual source the commit of a block is that call
            g_up()->fail_armed = 0;
            ++T().up_failed;
            T().event("upstream_injected_failure");
            return -1;
        }
        vm_pages(p, len, prot != PROT_NONE);
        return 0;
    }
    return __real_mprotect(p, len, prot);
}
extern "C" int __wrap_madvise(void* p, size_t len, int adv)
{
    if (g_up() && g_up()->in_arena(p))
        return 0;
    return __real_madvise(p, len, adv);
}

enum src_kind
{
    SRC_RAW,
    SRC_STATIC,
    SRC_VIRTUAL
};
template <class Src>
struct src_traits
{
    static const int kind = SRC_RAW;
};
template <>
struct src_traits<fm::static_block_allocator>
{
    static const int kind = SRC_STATIC;
};

template <>
struct src_traits<fm::virtual_block_allocator>
{
    static const int kind = SRC_VIRTUAL;
};

constexpr std::size_t STATIC_MAX = 1024;

template <class Src, bool Cached>
struct arena_policy
{
    using object = fm::memory_arena<logged_src<Src>, Cached>;
    using S      = asys<arena_policy>;
    struct extra_t
    {
        blog_t bl;
        u8     pages[VM_PAGES];
    };
    static void init_extra(extra_t& x)
    {
        std::memset(&x, 0, sizeof x);
        g_blog  = &x.bl;
        g_pages = x.pages;
    }
    template <class Q = Src>
    static typename std::enable_if<src_traits<Q>::kind == SRC_RAW>::type construct_impl(void* where)
    {
        ::new (where) object(PP.bs);
    }
    template <class Q = Src>
    static typename std::enable_if<src_traits<Q>::kind == SRC_STATIC>::type construct_impl(void* where)
    {
        // the static storage is carved out of the upstream arena as a pinned region of the constructing owner
        auto& up  = *g_up();
        void* mem = up.alloc(UP_BLOCK, 1, STATIC_MAX, 16, 9);
        up.blk[up.nblk - 1].pad = 1; // pinned
        auto& st  = *static_cast<fm::static_allocator_storage<STATIC_MAX>*>(mem);
        // use only the first PP.storage bytes: a storage object of exactly that size
        ::new (where) object(PP.bs, reinterpret_cast<fm::static_allocator_storage<1>&>(st), PP.storage);
    }
    template <class Q = Src>
    static typename std::enable_if<src_traits<Q>::kind == SRC_VIRTUAL>::type construct_impl(void* where)
    {
        ::new (where) object(4096, std::size_t(PP.storage / 4096 ? PP.storage / 4096 : 3)); // block = one page, N blocks reserved
    }
    static void construct(void* where)
    {
        construct_impl(where);
    }
    static int nbad()
    {
        return 0;
    }
    static std::string bad_kind(int)
    {
        return "";
    }
    template <class W>
    static std::string bad_name(W&, int, int)
    {
        return "";
    }
    template <class W>
    static bool bad_enabled(W&, int, int)
    {
        return false;
    }
    template <class W>
    static void bad_call(W&, int, int)
    {
    }
    template <class W>
    static u64 digest(W&, int s)
    {
        (void)s;
        return 0;
    }
    static bool fills_new()
    {
        return false;
    }
    static bool has_leak_check()
    {
        return false;
    }
    static std::size_t block_header()
    {
        return fm::detail::memory_block_stack::implementation_offset();
    }
    static int nalloc()
    {
        return 1;
    }
    static std::string alloc_name(int)
    {
        return "allocate_block()";
    }
    static std::string alloc_kind(int)
    {
        return "allocate_block";
    }
    static verif::alloc_req make_req(extra_t&, int s, int)
    {
        auto&            o = S::obj(s);
        verif::alloc_req r{};
        r.kind  = 0;
        r.count = 1;
        r.size  = u32(o.next_block_size()); // what the arena announces; verified against the result
        r.align = 16;
        r.tag   = u8(o.size()); // stack depth
        return r;
    }
    static bool alloc_enabled(extra_t&, int, int)
    {
        return true;
    }
    static bool release_enabled(extra_t&, shadow_t<MAXL>& sh, int k)
    {
        // only the most recently acquired block of that arena can be given back
        u32 owner = sh.v[k].owner;
        for (u32 i = 0; i < sh.n; ++i)
            if (sh.v[i].owner == owner && sh.v[i].tag > sh.v[k].tag)
                return false;
        return true;
    }
    static fm::memory_block last_block;
    static void* do_alloc(object& o, const verif::alloc_req&)
    {
        last_block = o.allocate_block();
        return last_block.memory;
    }
    static bool do_release(object& o, void*, const live_t&, bool)
    {
        o.deallocate_block();
        return true;
    }

    static int nextra()
    {
        return 1;
    }
    static std::string extra_kind(int)
    {
        return "shrink_to_fit";
    }
    static std::string extra_name(extra_t&, int)
    {
        return "shrink_to_fit()";
    }
    static bool extra_enabled(extra_t&, shadow_t<MAXL>&, int, int)
    {
        return true;
    }
    template <class W>
    static void extra_apply(W& w, int s, int)
    {
        auto& o  = S::obj(s);
        auto& t  = T();
        auto& bl = w.x.bl;
        bl.allocs_op = bl.deallocs_op = 0;
        std::size_t used = o.size(), cached = o.cache_size();
        int oc = guarded([&] { o.shrink_to_fit(); });
        if (oc != OUT_OK)
        {
            S::bad_outcome(oc, "shrink_to_fit");
            t.outcome = outcome_name(oc);
            return;
        }
        if (o.cache_size() != 0)
            t.fail("M-upstream", "shrink-kept-cache", "shrink_to_fit() left blocks in the cache");
        if (o.size() != used)
            t.fail("M-upstream", "shrink-changed-used", "shrink_to_fit() changed the number of used blocks");
        if (bl.deallocs_op != cached || bl.allocs_op)
            t.fail("M-upstream", "shrink-release-count",
                   fmt("shrink_to_fit() with %zu cached blocks returned %u blocks and acquired %u", cached, bl.deallocs_op, bl.allocs_op));
        t.outcome = cached ? "ok+released" : "ok";
        if (cached)
            t.event("shrink_released_blocks");
    }
    static void after_alloc(extra_t&, const live_t&) {}
    static void after_release(extra_t&, const live_t&) {}
    static void retag(extra_t& x, u32 from, u32 to)
    {
        for (u32 i = 0; i < x.bl.n; ++i)
            if (x.bl.e[i].owner == from)
                x.bl.e[i].owner = u8(to);
    }
    static void after_move(extra_t& x, int from, int to)
    {
        retag(x, u32(to), 60);
        retag(x, u32(from), u32(to));
        retag(x, 60, u32(from));
    }
    static void after_swap(extra_t& x)
    {
        retag(x, 0, 60);
        retag(x, 1, 0);
        retag(x, 60, 1);
    }
    static void after_destroy(extra_t& x, int s)
    {
        u32 left = 0;
        for (u32 i = 0; i < x.bl.n; ++i)
            left += x.bl.e[i].owner == u32(s);
        if (left)
            T().fail("M-upstream", "block-not-returned", fmt("%u block(s) were not returned to the block source by the arena's destruction", left));
        // release the pinned static storage of that owner
        auto& up = *g_up();
        for (u32 i = 0; i < up.nblk;)
            if (up.blk[i].pad == 1 && up.blk[i].owner == u32(s))
            {
                std::memset(up.mem + up.blk[i].off, 0, up.blk[i].size);
                for (u32 k = i; k + 1 < up.nblk; ++k)
                    up.blk[k] = up.blk[k + 1];
                --up.nblk;
                std::memset(&up.blk[up.nblk], 0, sizeof(up_block));
            }
            else
                ++i;
    }

    struct obs
    {
        std::size_t used, cached, next;
        u32         bl_n;
    };
    template <class W>
    static obs observe(W& w, int s)
    {
        auto& o = S::obj(s);
        w.x.bl.allocs_op = w.x.bl.deallocs_op = 0;
        return {o.size(), o.cache_size(), o.next_block_size(), w.x.bl.n};
    }
    template <class W>
    static void check_alloc(W& w, int s, const verif::alloc_req& r, const live_t& l, const obs& before)
    {
        auto& t  = T();
        auto& o  = S::obj(s);
        auto& bl = w.x.bl;
        if (last_block.size != r.size)
            t.fail("M-counters", "next-block-size",
                   fmt("next_block_size() announced %u usable bytes, allocate_block() returned a block of %zu", r.size, last_block.size));
        if (before.cached)
        {
            t.event("reused_cached_block");
            if (bl.allocs_op)
                t.fail("M-upstream", "cache-not-reused", "a new block was requested from the source although the arena had a cached block");
            if (o.cache_size() + 1 != before.cached)
                t.fail("M-upstream", "cache-count", "taking a block from the cache did not shrink the cache by one");
        }
        else
        {
            t.event("acquired_fresh_block");
            if (bl.allocs_op != 1)
                t.fail("M-upstream", "block-from-nowhere", fmt("arena without cache made %u requests to the block source", bl.allocs_op));
        }
        if (o.size() != before.used + 1)
            t.fail("M-counters", "size", "allocate_block() did not increase size() by one");
        auto cur = o.current_block();
        if (cur.memory != last_block.memory || cur.size != last_block.size)
            t.fail("M-counters", "current-block", "current_block() is not the block just returned");
        // the usable block must lie behind the arena's header inside a block the source handed out
        bool inside = false;
        for (u32 i = 0; i < bl.n; ++i)
            if (bl.e[i].owner == u32(s) && l.off >= bl.e[i].off + block_header() && l.off + l.bytes <= bl.e[i].off + bl.e[i].size)
                inside = true;
        if (!inside)
            t.fail("M-inside", "outside-source-block", "the returned usable block is not inside a block obtained from the block source");
        (void)r;
    }
    template <class W>
    static void check_failed_alloc(W& w, int s, const verif::alloc_req&, const obs& before, int ex)
    {
        auto& o = S::obj(s);
        // a refusal must have a reason: the upstream failed in this operation, or the fixed source is really exhausted
        if (T().up_failed == 0 && (ex == EX_OOM || ex == EX_OOFM))
        {
            u32 mine = 0;
            for (u32 i = 0; i < w.x.bl.n; ++i)
                mine += w.x.bl.e[i].owner == u32(s);
            std::size_t capacity = src_traits<Src>::kind == SRC_STATIC ? PP.storage / PP.bs
                                   : src_traits<Src>::kind == SRC_VIRTUAL ? (PP.storage / 4096 ? PP.storage / 4096 : 3)
                                   : std::is_same<Src, src_fixed>::value ? 1 : std::size_t(-1);
            if (capacity == std::size_t(-1) || mine < capacity)
                T().fail("M-fail", "refused-although-available",
                         fmt("allocate_block() threw %s although the source has %u of %zu blocks outstanding and the upstream did not fail", exc_name(ex),
                             mine, capacity));
        }
        if (o.size() != before.used || o.cache_size() != before.cached)
            T().fail("M-counters", "failed-alloc-changed-state", "a failed allocate_block() changed the arena");
        if (before.cached)
            T().fail("M-upstream", "cache-not-reused", "allocate_block() failed although the arena had a cached block");
        // the block source owes the block it announced: an acquisition that obtained nothing leaves the (growing) block size alone,
        // otherwise the retry asks the upstream for a different block than the one that was refused
        if (o.next_block_size() != before.next)
            T().fail("M-upstream", "failed-acquisition-changed-block-size",
                     fmt("next_block_size() went from %zu to %zu across an allocate_block() that obtained nothing", before.next, o.next_block_size()));
        (void)w;
    }
    template <class W>
    static void check_release(W& w, int s, const live_t&, const obs& before)
    {
        auto& t  = T();
        auto& o  = S::obj(s);
        auto& bl = w.x.bl;
        if (o.size() + 1 != before.used)
            t.fail("M-counters", "size", "deallocate_block() did not decrease size() by one");
        if (Cached)
        {
            if (bl.deallocs_op || o.cache_size() != before.cached + 1)
                t.fail("M-upstream", "cached-release", "a cached arena must keep a deallocated block in its cache");
        }
        else if (bl.deallocs_op != 1)
            t.fail("M-upstream", "uncached-release", fmt("an uncached arena returned %u blocks on deallocate_block()", bl.deallocs_op));
    }
    template <class W>
    static void check_structure(W& w, int s)
    {
        auto& o  = S::obj(s);
        auto& h  = w.h;
        u32   n  = 0, mine = 0;
        for (u32 i = 0; i < h.sh.n; ++i)
            n += h.sh.v[i].owner == u32(s);
        for (u32 i = 0; i < w.x.bl.n; ++i)
            mine += w.x.bl.e[i].owner == u32(s);
        if (o.size() != n)
            T().fail("M-counters", "size", fmt("size() is %zu with %u blocks in use", o.size(), n));
        if (o.size() + o.cache_size() != mine || o.capacity() != mine)
            T().fail("M-upstream", "block-accounting",
                     fmt("%u blocks outstanding at the source, arena uses %zu and caches %zu", mine, o.size(), o.cache_size()));
        // owns(): exactly the bytes of used blocks
        for (u32 i = 0; i < h.sh.n; ++i)
        {
            auto& l = h.sh.v[i];
            bool  exp = l.owner == u32(s);
            if (o.owns(w.arena + l.off) != exp || o.owns(w.arena + l.off + l.bytes - 1) != exp)
            {
                T().fail("M-own", "owns-wrong", fmt("owns() is wrong for the used block at offset %u", l.off));
                return;
            }
            // one past the end is not owned unless another used block of this arena starts there
            bool next_mine = false;
            for (u32 k = 0; k < h.sh.n; ++k)
                if (h.sh.v[k].owner == u32(s) && h.sh.v[k].off <= l.off + l.bytes && l.off + l.bytes < h.sh.v[k].off + h.sh.v[k].bytes)
                    next_mine = true;
            if (exp && o.owns(w.arena + l.off + l.bytes) != next_mine)
            {
                T().fail("M-own", "owns-wrong", fmt("owns() is wrong one past the end of the used block at offset %u", l.off));
                return;
            }
        }
    }
};
template <class Src, bool C>
fm::memory_block arena_policy<Src, C>::last_block;

// static_block_allocator wants a static_allocator_storage<Size>&: adapter with a run-time size
namespace foonathan
{
    namespace memory
    {
    }
} // namespace foonathan

struct static_src : fm::static_block_allocator
{
    static_src(std::size_t block_size, fm::static_allocator_storage<1>& st, std::size_t bytes)
    : fm::static_block_allocator(block_size, reinterpret_cast<fm::static_allocator_storage<STATIC_MAX>&>(st))
    {
        // restrict to the first `bytes` bytes
        this->end_ = this->cur_ + bytes;
    }
    static_src(static_src&&) noexcept            = default;
    static_src& operator=(static_src&&) noexcept = default;
    friend void swap(static_src& a, static_src& b) noexcept
    {
        swap(static_cast<fm::static_block_allocator&>(a), static_cast<fm::static_block_allocator&>(b));
    }
};
template <>
struct src_traits<static_src>
{
    static const int kind = SRC_STATIC;
};

template <class Src>
static int run2(const argmap& a, const std::string& name, bool cached)
{
    if (cached)
        return run_system<asys<arena_policy<Src, true>>>(a, name);
    return run_system<asys<arena_policy<Src, false>>>(a, name);
}

int main(int argc, char** argv)
{
    argmap a(argc, argv);
    read_common(a);
    PP.bs      = std::size_t(a.n("bs", 64));
    PP.storage = std::size_t(a.n("storage", 256));
    if (PP.storage > STATIC_MAX)
        PP.storage = STATIC_MAX;
    std::string src    = a.s("src", "growing");
    bool        cached = a.n("cached", 1) != 0;
    std::string name   = a.s("name", std::string("arena/") + src + (cached ? "/cached" : "/uncached"));
    if (src == "growing")
        return run2<src_growing>(a, name, cached);
    if (src == "constant")
        return run2<src_constant>(a, name, cached);
    if (src == "fixed")
        return run2<src_fixed>(a, name, cached);
    if (src == "virtual")
        return run2<fm::virtual_block_allocator>(a, name, cached);
    return run2<static_src>(a, name, cached);
}
