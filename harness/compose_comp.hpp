// C08 part 2: compositions (fallback / nested fallback / aligned / tracked / reference / type-erased reference /
// thread_safe / binary_segregator) over instrumented leaves leaf<0..2> with a call log.
#ifndef VERIF_COMPOSE_COMP_HPP
#define VERIF_COMPOSE_COMP_HPP

#include "compose_common.hpp"

namespace c08
{
    //=== leaf backends ===//
    struct backend
    {
        std::string name;
        virtual ~backend() {}
        virtual void  construct(int id)                       = 0;
        virtual void  destroy()                               = 0;
        virtual void* alloc(bool try_, const shape& s)        = 0; // throws when !try_ and exhausted
        virtual bool  try_dealloc(void* p, const shape& s)    = 0;
        virtual void  dealloc(void* p, const shape& s)        = 0;
        virtual bool  pristine(std::string& why)              = 0; // everything released => full capacity again
        virtual void  digest(hasher& h)                       = 0;
        virtual int   iterations() // N of an iteration_allocator<N> behind the leaf, 0 otherwise
        {
            return 0;
        }
        virtual int cur_iteration()
        {
            return 0;
        }
        virtual void next_iteration() {}
        // what allocator_traits::max_node_size / max_array_size of the allocator behind the leaf say NOW
        virtual std::size_t max_node_size()
        {
            return std::size_t(-1);
        }
        virtual std::size_t max_array_size()
        {
            return std::size_t(-1);
        }
    };

    // instrumented backend: first fit over 16 byte granules of a tiny buffer; the three buffers are adjacent
    constexpr std::size_t LEAFBUF = 1024;
    alignas(64) static u8 g_leafbuf[3 * LEAFBUF + 64];
    struct slot_backend : backend
    {
        u8*         buf = nullptr;
        std::size_t granules;
        u8          used[64];
        u8          len[64]; // len[start granule] = granules of the allocation starting there
        slot_backend(std::size_t cap_bytes) : granules(cap_bytes / 16)
        {
            name = fmt("instrumented(%zu bytes)", cap_bytes);
        }
        void construct(int) override
        {
            std::memset(used, 0, sizeof used);
            std::memset(len, 0, sizeof len);
        }
        void destroy() override {}
        std::size_t max_node_size() override
        {
            return granules * 16;
        }
        std::size_t max_array_size() override
        {
            return granules * 16;
        }
        void* alloc(bool try_, const shape& s) override
        {
            std::size_t need = (s.bytes() + 15) / 16;
            if (need == 0)
                need = 1;
            for (std::size_t i = 0; i + need <= granules; ++i)
            {
                std::size_t j = 0;
                while (j < need && !used[i + j])
                    ++j;
                if (j == need)
                {
                    for (j = 0; j < need; ++j)
                        used[i + j] = 1;
                    len[i] = u8(need);
                    return buf + 16 * i;
                }
            }
            if (try_)
                return nullptr;
            throw std::bad_alloc();
        }
        bool try_dealloc(void* p, const shape&) override
        {
            auto c = static_cast<u8*>(p);
            if (c < buf || c >= buf + 16 * granules || (c - buf) % 16 != 0 || len[(c - buf) / 16] == 0)
                return false;
            std::size_t i = std::size_t(c - buf) / 16;
            for (std::size_t j = 0; j < len[i]; ++j)
                used[i + j] = 0;
            len[i] = 0;
            return true;
        }
        void dealloc(void* p, const shape& s) override
        {
            try_dealloc(p, s);
        }
        bool pristine(std::string& why) override
        {
            for (std::size_t i = 0; i < granules; ++i)
                if (used[i])
                {
                    why = fmt("granule %zu still in use", i);
                    return false;
                }
            return true;
        }
        void digest(hasher& h) override
        {
            h.bytes(used, granules);
            h.bytes(len, granules);
        }
    };

    alignas(64) static u8 g_leafobj[6][1024];
    template <class A>
    struct real_backend : backend
    {
        using T = fm::allocator_traits<A>;
        using C = fm::composable_allocator_traits<A>;
        std::function<A*(void*, int)> make;
        A*                            a = nullptr;
        int                           id = 0;
        long                          cap0 = 0;
        int                           warm_blocks = 1; // pools: grow to this many upstream blocks before the composition uses them
        void construct(int i) override
        {
            id = i;
            std::memset(g_leafobj[i], 0, sizeof(A));
            a    = make(g_leafobj[i], i);
            cap0 = cap();
            if (warm_blocks > 1)
            {
                // warm-up phase: direct allocate_node calls until the arena has grown, then everything is given back
                void* w[64];
                int   nw = 0;
                auto  blocks = [&] {
                    int c = 0;
                    for (int k = 0; k < UP().n; ++k)
                        if (UP().b[k].owner == id)
                            ++c;
                    return c;
                };
                while (nw < 64 && (blocks() < warm_blocks || cap() > 0))
                    w[nw++] = T::allocate_node(*a, 16, 8);
                // the loop ends with `warm_blocks` blocks completely used
                while (nw > 0)
                    T::deallocate_node(*a, w[--nw], 16, 8);
            }
        }
        template <class X = A>
        auto iters_impl(int) -> decltype(X::max_iterations(), int())
        {
            return int(X::max_iterations());
        }
        int iters_impl(...)
        {
            return 0;
        }
        template <class X = A>
        auto next_impl(int) -> decltype(std::declval<X&>().next_iteration(), int())
        {
            a->next_iteration();
            return int(a->cur_iteration());
        }
        int next_impl(...)
        {
            return 0;
        }
        template <class X = A>
        auto cur_impl(int) -> decltype(std::declval<X&>().cur_iteration(), int())
        {
            return int(a->cur_iteration());
        }
        int cur_impl(...)
        {
            return 0;
        }
        std::size_t max_node_size() override
        {
            return T::max_node_size(*a);
        }
        std::size_t max_array_size() override
        {
            return T::max_array_size(*a);
        }
        int iterations() override
        {
            return iters_impl(0);
        }
        int cur_iteration() override
        {
            return cur_impl(0);
        }
        void next_iteration() override
        {
            next_impl(0);
        }
        void destroy() override
        {
            if (a)
                a->~A();
            a = nullptr;
        }
        template <class X = A>
        auto cap_impl(int) -> decltype(std::declval<X&>().node_size(), long())
        {
            return long(a->capacity_left());
        }
        long cap_impl(...)
        {
            return -1;
        }
        long cap()
        {
            return cap_impl(0);
        }
        void* alloc(bool try_, const shape& s) override
        {
            if (try_)
                return s.array ? C::try_allocate_array(*a, s.count, s.size, s.align) : C::try_allocate_node(*a, s.size, s.align);
            return s.array ? T::allocate_array(*a, s.count, s.size, s.align) : T::allocate_node(*a, s.size, s.align);
        }
        bool try_dealloc(void* p, const shape& s) override
        {
            return s.array ? C::try_deallocate_array(*a, p, s.count, s.size, s.align) : C::try_deallocate_node(*a, p, s.size, s.align);
        }
        void dealloc(void* p, const shape& s) override
        {
            if (s.array)
                T::deallocate_array(*a, p, s.count, s.size, s.align);
            else
                T::deallocate_node(*a, p, s.size, s.align);
        }
        bool pristine(std::string& why) override
        {
            if (cap0 < 0)
                return true; // stacks never give memory back, collections move memory between buckets
            int blocks = 0;
            for (int i = 0; i < UP().n; ++i)
                if (UP().b[i].owner == id)
                    ++blocks;
            long now = cap();
            if (now != cap0 * blocks)
            {
                why = fmt("capacity_left %ld, full capacity %ld x %d block(s)", now, cap0, blocks);
                return false;
            }
            return true;
        }
        void digest(hasher& h) override
        {
            h.bytes(a, sizeof(A));
        }
    };
    template <class A, class F>
    backend* mk_real(const std::string& nm, F f)
    {
        auto b  = new real_backend<A>();
        b->name = nm;
        b->make = f;
        return b;
    }

    //=== leaves ===//
    struct call_rec
    {
        int   leaf, fn; // fn: 0 allocate 1 try_allocate 2 deallocate 3 try_deallocate
        shape s;
        void* p;
        bool  ok;
    };
    struct lrec
    {
        void* p;
        shape s;
        int   slot; // iteration_allocator backend: internal stack active at allocation
    };
    struct leaf_state
    {
        backend*          be = nullptr;
        std::vector<lrec> live;
    };
    static leaf_state            g_leaf[6]; // 0..2: leaves of the (first) composition object, 3..5: leaves of the second object (move systems)
    static std::vector<call_rec> g_calls;
    static bool                  g_verbose_calls = false;

    inline int leaf_find(int I, void* p)
    {
        auto& L = g_leaf[I];
        for (std::size_t i = 0; i < L.live.size(); ++i)
            if (L.live[i].p == p)
                return int(i);
        return -1;
    }
    inline void log_call(int I, int fn, const shape& s, void* p, bool ok)
    {
        g_calls.push_back({I, fn, s, p, ok});
        if (g_verbose_calls)
        {
            static const char* fnn[] = {"allocate", "try_allocate", "deallocate", "try_deallocate"};
            std::printf("      leaf<%d>.%s_%s -> %s\n", I, fnn[fn], s.str().c_str(), fn < 2 ? (p ? "memory" : "null") : (ok ? "released" : "false"));
        }
    }
    inline void* L_alloc(int I, bool try_, const shape& s)
    {
        auto& L = g_leaf[I];
        void* p = nullptr;
        try
        {
            p = L.be->alloc(try_, s);
        }
        catch (...)
        {
            log_call(I, try_ ? 1 : 0, s, nullptr, false);
            throw;
        }
        log_call(I, try_ ? 1 : 0, s, p, p != nullptr);
        if (p)
            L.live.push_back({p, s, L.be->cur_iteration()});
        return p;
    }
    inline void L_dealloc(int I, void* p, const shape& s)
    {
        auto& L = g_leaf[I];
        int   i = leaf_find(I, p);
        if (i < 0)
        {
            log_call(I, 2, s, p, false);
            fail("released-to-leaf-that-did-not-serve-it", fmt("leaf<%d> (%s) received deallocate_%s for memory it did not hand out", I,
                                                               L.be->name.c_str(), s.str().c_str()));
            return; // not forwarded: would corrupt a real pool
        }
        shape orig = L.live[std::size_t(i)].s;
        if (orig != s)
            fail("release-shape-differs-from-allocation",
                 fmt("leaf<%d> (%s) served the memory as %s but it is released as %s", I, L.be->name.c_str(), orig.str().c_str(), s.str().c_str()));
        L.be->dealloc(p, orig);
        L.live.erase(L.live.begin() + i);
        log_call(I, 2, s, p, true);
    }
    inline bool L_try_dealloc(int I, void* p, const shape& s)
    {
        auto& L = g_leaf[I];
        int   i = leaf_find(I, p);
        bool  r = L.be->try_dealloc(p, s);
        log_call(I, 3, s, p, r);
        if (i >= 0)
        {
            shape orig = L.live[std::size_t(i)].s;
            if (orig != s)
                fail("release-shape-differs-from-allocation", fmt("leaf<%d> (%s) served the memory as %s but is asked to take it back as %s (answer: %s)", I,
                                                                  L.be->name.c_str(), orig.str().c_str(), s.str().c_str(), r ? "true" : "false"));
            else if (!r)
                fail("leaf-own-memory-not-recognised", fmt("leaf<%d> (%s): try_deallocate_%s returned false for memory it handed out", I,
                                                           L.be->name.c_str(), s.str().c_str()));
            if (r)
                L.live.erase(L.live.begin() + i);
        }
        else if (r)
            fail("leaf-foreign-memory-accepted", fmt("leaf<%d> (%s): try_deallocate_%s returned true for memory it did not hand out", I,
                                                     L.be->name.c_str(), s.str().c_str()));
        return r;
    }

    template <int I>
    struct leaf
    {
        using is_stateful = std::true_type;
        // not empty (an empty, stateful, not default constructible composition trips a static_assert of the traits): the
        // index of the leaf state this handle refers to; I for the first composition object, I + 3 for the second one
        int idx = I;
        leaf() = default;
        explicit leaf(int i) : idx(i) {}
        // forwarded so that a composition that consults the maxima of its sub-allocators sees the real, possibly shrinking
        // values (iteration_allocator: capacity_left)
        std::size_t max_node_size() const
        {
            return g_leaf[idx].be ? g_leaf[idx].be->max_node_size() : std::size_t(-1);
        }
        std::size_t max_array_size() const
        {
            return g_leaf[idx].be ? g_leaf[idx].be->max_array_size() : std::size_t(-1);
        }
        void* allocate_node(std::size_t size, std::size_t align)
        {
            return L_alloc(idx, false, node_shape(size, align));
        }
        void* allocate_array(std::size_t count, std::size_t size, std::size_t align)
        {
            return L_alloc(idx, false, array_shape(count, size, align));
        }
        void deallocate_node(void* p, std::size_t size, std::size_t align) noexcept
        {
            L_dealloc(idx, p, node_shape(size, align));
        }
        void deallocate_array(void* p, std::size_t count, std::size_t size, std::size_t align) noexcept
        {
            L_dealloc(idx, p, array_shape(count, size, align));
        }
        void* try_allocate_node(std::size_t size, std::size_t align) noexcept
        {
            return L_alloc(idx, true, node_shape(size, align));
        }
        void* try_allocate_array(std::size_t count, std::size_t size, std::size_t align) noexcept
        {
            return L_alloc(idx, true, array_shape(count, size, align));
        }
        bool try_deallocate_node(void* p, std::size_t size, std::size_t align) noexcept
        {
            return L_try_dealloc(idx, p, node_shape(size, align));
        }
        bool try_deallocate_array(void* p, std::size_t count, std::size_t size, std::size_t align) noexcept
        {
            return L_try_dealloc(idx, p, array_shape(count, size, align));
        }
    };
    using L0 = leaf<0>;
    using L1 = leaf<1>;
    using L2 = leaf<2>;
    static L0 g_l0;
    static L1 g_l1;
    static L2 g_l2;

    // instrumented Tracker: every tracked_allocator layer of a composition gets its own id and logs its callbacks
    struct trk_ev
    {
        int   id, fn; // fn 0 allocation, 1 deallocation
        int   array;
        void* p;
    };
    constexpr int                MAX_TRK = 4;
    static std::vector<trk_ev>   g_trkev;          // callbacks during the current operation
    static long                  g_trktot[MAX_TRK][2]; // per tracker: allocations, deallocations of the whole sequence
    static long                  g_trkexpired[MAX_TRK]; // allocations below the tracker that expired through next_iteration()
    struct trk
    {
        int id = 0;
        trk() = default;
        explicit trk(int i) : id(i) {}
        void ev(int fn, int array, void* p) noexcept
        {
            g_trkev.push_back({id, fn, array, p});
            ++g_trktot[id][fn];
            if (g_verbose_calls)
                std::printf("      tracker %d: on_%s_%s\n", id, array ? "array" : "node", fn ? "deallocation" : "allocation");
        }
        void on_node_allocation(void* p, std::size_t, std::size_t) noexcept
        {
            ev(0, 0, p);
        }
        void on_array_allocation(void* p, std::size_t, std::size_t, std::size_t) noexcept
        {
            ev(0, 1, p);
        }
        void on_node_deallocation(void* p, std::size_t, std::size_t) noexcept
        {
            ev(1, 0, p);
        }
        void on_array_deallocation(void* p, std::size_t, std::size_t, std::size_t) noexcept
        {
            ev(1, 1, p);
        }
    };

    //=== type-erased handle on a composition ===//
    struct IComp
    {
        bool composable = false;
        bool tracked    = false;
        virtual ~IComp() {}
        virtual void* alloc(const shape& s, bool try_)            = 0;
        virtual bool  dealloc(void* p, const shape& s, bool try_) = 0;
        virtual void  move_assign(IComp&)
        {
            herror("move assignment not available for this composition");
        }
    };
    template <class C, bool Composable>
    struct comp_ops
    {
        static void* try_alloc(C&, const shape&)
        {
            return nullptr;
        }
        static bool try_dealloc(C&, void*, const shape&)
        {
            return false;
        }
    };
    template <class C>
    struct comp_ops<C, true>
    {
        using CT = fm::composable_allocator_traits<C>;
        static void* try_alloc(C& c, const shape& s)
        {
            return s.array ? CT::try_allocate_array(c, s.count, s.size, s.align) : CT::try_allocate_node(c, s.size, s.align);
        }
        static bool try_dealloc(C& c, void* p, const shape& s)
        {
            return s.array ? CT::try_deallocate_array(c, p, s.count, s.size, s.align) : CT::try_deallocate_node(c, p, s.size, s.align);
        }
    };
    template <class C>
    struct CompBase : IComp
    {
        using T = fm::allocator_traits<C>;
        static constexpr bool is_comp = fm::is_composable_allocator<C>::value;
        virtual C& get() = 0;
        CompBase()
        {
            composable = is_comp;
        }
        void* alloc(const shape& s, bool try_) override
        {
            C& c = get();
            if (try_)
                return comp_ops<C, is_comp>::try_alloc(c, s);
            return s.array ? T::allocate_array(c, s.count, s.size, s.align) : T::allocate_node(c, s.size, s.align);
        }
        bool dealloc(void* p, const shape& s, bool try_) override
        {
            C& c = get();
            if (try_)
                return comp_ops<C, is_comp>::try_dealloc(c, p, s);
            if (s.array)
                T::deallocate_array(c, p, s.count, s.size, s.align);
            else
                T::deallocate_node(c, p, s.size, s.align);
            return true;
        }
    };
    template <class C>
    struct Comp : CompBase<C>
    {
        C c;
        template <class... A>
        explicit Comp(A&&... a) : c(std::forward<A>(a)...)
        {
        }
        C& get() override
        {
            return c;
        }
    };
    // composition that can be move-assigned from another object of the same type
    template <class C>
    struct CompMv : Comp<C>
    {
        template <class... A>
        explicit CompMv(A&&... a) : Comp<C>(std::forward<A>(a)...)
        {
        }
        void move_assign(IComp& o) override
        {
            this->c = std::move(static_cast<CompMv<C>&>(o).c);
        }
    };
    // composition that refers to an inner composition held next to it
    template <class Inner, class C>
    struct CompRef : CompBase<C>
    {
        Inner inner;
        C     c;
        template <class MakeInner, class MakeOuter>
        CompRef(MakeInner mi, MakeOuter mo) : inner(mi()), c(mo(inner))
        {
        }
        C& get() override
        {
            return c;
        }
    };

    template <class A>
    using AL = fm::aligned_allocator<A>;
    template <class A>
    using TR = fm::tracked_allocator<trk, A>;
    template <class A>
    using RF = fm::allocator_reference<A>;
    using ANY = fm::any_allocator_reference;
    template <class A>
    using TS = fm::thread_safe_allocator<A>;
    template <class D, class F>
    using FB = fm::fallback_allocator<D, F>;
    template <class A>
    using TH = fm::threshold_segregatable<A>;
    template <class S, class F>
    using SG = fm::binary_segregator<S, F>;

    struct comp_def
    {
        std::string             name, type;
        int                     leaves;
        std::function<IComp*()> make;
        std::vector<unsigned>   tmask; // per tracker id: bit i set = leaf<i> lies below that tracked_allocator layer
        // move systems: two objects of the same type, object k over the leaf states 3k..3k+2 with its own minimum alignment
        std::function<IComp*(int base, std::size_t min_alignment)> make2;
        bool dual() const
        {
            return bool(make2);
        }
    };

    inline std::vector<comp_def> comp_defs()
    {
        std::vector<comp_def> v;
        static constexpr std::size_t MINAL = 16;
        v.push_back({"F01", "fallback<L0,L1>", 2, [] { return new Comp<FB<L0, L1>>(L0{}, L1{}); }});
        v.push_back({"F01_2", "fallback<fallback<L0,L1>,L2>", 3, [] { return new Comp<FB<FB<L0, L1>, L2>>(FB<L0, L1>(L0{}, L1{}), L2{}); }});
        v.push_back({"F0_12", "fallback<L0,fallback<L1,L2>>", 3, [] { return new Comp<FB<L0, FB<L1, L2>>>(L0{}, FB<L1, L2>(L1{}, L2{})); }});
        v.push_back({"Fa0_1", "fallback<aligned<L0>,L1>", 2, [] { return new Comp<FB<AL<L0>, L1>>(AL<L0>(MINAL, L0{}), L1{}); }});
        v.push_back({"Ft0_1", "fallback<tracked<L0>,L1>", 2, [] { return new Comp<FB<TR<L0>, L1>>(TR<L0>(trk{0}, L0{}), L1{}); }, {1u}});
        v.push_back({"Fr0_1", "fallback<allocator_reference<L0>,L1>", 2, [] { return new Comp<FB<RF<L0>, L1>>(RF<L0>(g_l0), L1{}); }});
        v.push_back({"Fy0_1", "fallback<any_allocator_reference(L0),L1>", 2, [] { return new Comp<FB<ANY, L1>>(ANY(g_l0), L1{}); }});
        v.push_back({"Fs0_1", "fallback<thread_safe_allocator<L0>,L1>", 2, [] { return new Comp<FB<TS<L0>, L1>>(TS<L0>(L0{}), L1{}); }});
        v.push_back({"F0_r1", "fallback<L0,allocator_reference<L1>>", 2, [] { return new Comp<FB<L0, RF<L1>>>(L0{}, RF<L1>(g_l1)); }});
        v.push_back({"F0_y1", "fallback<L0,any_allocator_reference(L1)>", 2, [] { return new Comp<FB<L0, ANY>>(L0{}, ANY(g_l1)); }});
        // depth 3 around the default
        v.push_back({"Fatr0_1", "fallback<aligned<tracked<allocator_reference<L0>>>,L1>", 2,
                     [] { return new Comp<FB<AL<TR<RF<L0>>>, L1>>(AL<TR<RF<L0>>>(MINAL, TR<RF<L0>>(trk{0}, RF<L0>(g_l0))), L1{}); }, {1u}});
        v.push_back({"Ftay0_1", "fallback<tracked<aligned<any_allocator_reference(L0)>>,L1>", 2,
                     [] { return new Comp<FB<TR<AL<ANY>>, L1>>(TR<AL<ANY>>(trk{0}, AL<ANY>(MINAL, ANY(g_l0))), L1{}); }, {1u}});
        v.push_back({"Fsat0_1", "fallback<thread_safe<aligned<tracked<L0>>>,L1>", 2,
                     [] { return new Comp<FB<TS<AL<TR<L0>>>, L1>>(TS<AL<TR<L0>>>(AL<TR<L0>>(MINAL, TR<L0>(trk{0}, L0{}))), L1{}); }, {1u}});
        // nested fallbacks with layers
        v.push_back({"F_a0t1_2", "fallback<fallback<aligned<L0>,tracked<L1>>,L2>", 3, [] {
                         return new Comp<FB<FB<AL<L0>, TR<L1>>, L2>>(FB<AL<L0>, TR<L1>>(AL<L0>(MINAL, L0{}), TR<L1>(trk{0}, L1{})), L2{});
                     }, {2u}});
        v.push_back({"Fr0_Fy1_2", "fallback<allocator_reference<L0>,fallback<any_allocator_reference(L1),L2>>", 3,
                     [] { return new Comp<FB<RF<L0>, FB<ANY, L2>>>(RF<L0>(g_l0), FB<ANY, L2>(ANY(g_l1), L2{})); }});
        v.push_back({"aF01_2", "aligned<fallback<fallback<L0,L1>,L2>>", 3, [] {
                         return new Comp<AL<FB<FB<L0, L1>, L2>>>(MINAL, FB<FB<L0, L1>, L2>(FB<L0, L1>(L0{}, L1{}), L2{}));
                     }});
        v.push_back({"tF0_12", "tracked<fallback<L0,fallback<L1,L2>>>", 3, [] {
                         return new Comp<TR<FB<L0, FB<L1, L2>>>>(trk{0}, FB<L0, FB<L1, L2>>(L0{}, FB<L1, L2>(L1{}, L2{})));
                     }, {7u}});
        v.push_back({"sF01_2", "thread_safe_allocator<fallback<fallback<L0,L1>,L2>>", 3, [] {
                         return new Comp<TS<FB<FB<L0, L1>, L2>>>(FB<FB<L0, L1>, L2>(FB<L0, L1>(L0{}, L1{}), L2{}));
                     }});
        // every default has its own tracker: a tracker must only hear of its own allocator's memory
        v.push_back({"F_t0t1_2", "fallback<fallback<tracked#0<L0>,tracked#1<L1>>,L2>", 3, [] {
                         return new Comp<FB<FB<TR<L0>, TR<L1>>, L2>>(FB<TR<L0>, TR<L1>>(TR<L0>(trk{0}, L0{}), TR<L1>(trk{1}, L1{})), L2{});
                     }, {1u, 2u}});
        v.push_back({"Ft0_Ft1_2", "fallback<tracked#0<L0>,fallback<tracked#1<L1>,L2>>", 3, [] {
                         return new Comp<FB<TR<L0>, FB<TR<L1>, L2>>>(TR<L0>(trk{0}, L0{}), FB<TR<L1>, L2>(TR<L1>(trk{1}, L1{}), L2{}));
                     }, {1u, 2u}});
        v.push_back({"F_tF01_t2", "fallback<tracked#0<fallback<L0,L1>>,tracked#1<L2>>", 3, [] {
                         return new Comp<FB<TR<FB<L0, L1>>, TR<L2>>>(TR<FB<L0, L1>>(trk{0}, FB<L0, L1>(L0{}, L1{})), TR<L2>(trk{1}, L2{}));
                     }, {3u, 4u}});
        {
            using IN = FB<FB<L0, L1>, L2>;
            v.push_back({"yF01_2", "any_allocator_reference(fallback<fallback<L0,L1>,L2>)", 3, [] {
                             return new CompRef<IN, ANY>([] { return IN(FB<L0, L1>(L0{}, L1{}), L2{}); }, [](IN& in) { return ANY(in); });
                         }});
            v.push_back({"rF0_12", "allocator_reference<fallback<L0,fallback<L1,L2>>>", 3, [] {
                             using I2 = FB<L0, FB<L1, L2>>;
                             return new CompRef<I2, RF<I2>>([] { return I2(L0{}, FB<L1, L2>(L1{}, L2{})); }, [](I2& in) { return RF<I2>(in); });
                         }});
        }
        {
            using IN = FB<L0, L1>;
            v.push_back({"F_rF01_2", "fallback<allocator_reference<fallback<L0,L1>>,L2>", 3, [] {
                             return new CompRef<IN, FB<RF<IN>, L2>>([] { return IN(L0{}, L1{}); }, [](IN& in) { return FB<RF<IN>, L2>(RF<IN>(in), L2{}); });
                         }});
            v.push_back({"F_yF01_2", "fallback<any_allocator_reference(fallback<L0,L1>),L2>", 3, [] {
                             return new CompRef<IN, FB<ANY, L2>>([] { return IN(L0{}, L1{}); }, [](IN& in) { return FB<ANY, L2>(ANY(in), L2{}); });
                         }});
        }
        // segregator with a fallback inside / fallback with a segregator as last resort (threshold 32 bytes)
        v.push_back({"S_F01_2", "binary_segregator<threshold<fallback<L0,L1>>,L2>", 3, [] {
                         return new Comp<SG<TH<FB<L0, L1>>, L2>>(TH<FB<L0, L1>>(32, FB<L0, L1>(L0{}, L1{})), L2{});
                     }});
        v.push_back({"F0_S12", "fallback<L0,binary_segregator<threshold<L1>,L2>>", 3, [] {
                         return new Comp<FB<L0, SG<TH<L1>, L2>>>(L0{}, SG<TH<L1>, L2>(TH<L1>(32, L1{}), L2{}));
                     }});
        v.push_back({"S_F01_F2x", "binary_segregator<threshold<fallback<fallback<L0,L1>,L2>>,null>", 3, [] {
                         using IN = FB<FB<L0, L1>, L2>;
                         return new Comp<SG<TH<IN>, fm::null_allocator>>(TH<IN>(4096, IN(FB<L0, L1>(L0{}, L1{}), L2{})), fm::null_allocator{});
                     }});
        // move systems (C08-H): aligned_allocator layers with DIFFERENT minimum alignments in the two objects
        auto dual = [&](const char* nm, const char* ty, int leaves, std::function<IComp*(int, std::size_t)> m2) {
            comp_def d{nm, ty, leaves, [m2] { return m2(0, 16); }, {}, m2};
            v.push_back(d);
        };
        dual("mvA0", "aligned<L0> (two objects, move assignment)", 1, [](int b, std::size_t al) { return new CompMv<AL<L0>>(al, L0(b)); });
        dual("mvFa0_1", "fallback<aligned<L0>,L1> (two objects, move assignment)", 2,
             [](int b, std::size_t al) { return new CompMv<FB<AL<L0>, L1>>(AL<L0>(al, L0(b)), L1(b + 1)); });
        dual("mvFa0_a1", "fallback<aligned<L0>,aligned<L1>> (two objects, move assignment)", 2,
             [](int b, std::size_t al) { return new CompMv<FB<AL<L0>, AL<L1>>>(AL<L0>(al, L0(b)), AL<L1>(al, L1(b + 1))); });
        dual("mvF_Fa0_1_2", "fallback<fallback<aligned<L0>,L1>,L2> (two objects, move assignment)", 3, [](int b, std::size_t al) {
            return new CompMv<FB<FB<AL<L0>, L1>, L2>>(FB<AL<L0>, L1>(AL<L0>(al, L0(b)), L1(b + 1)), L2(b + 2));
        });
        dual("mvF0_Fa1_2", "fallback<L0,fallback<aligned<L1>,L2>> (two objects, move assignment)", 3, [](int b, std::size_t al) {
            return new CompMv<FB<L0, FB<AL<L1>, L2>>>(L0(b), FB<AL<L1>, L2>(AL<L1>(al, L1(b + 1)), L2(b + 2)));
        });
        dual("mvS_a0_1", "binary_segregator<threshold<aligned<L0>>,L1> (two objects, move assignment)", 2, [](int b, std::size_t al) {
            return new CompMv<SG<TH<AL<L0>>, L1>>(TH<AL<L0>>(16, AL<L0>(al, L0(b))), L1(b + 1));
        });
        dual("mvaF01", "aligned<fallback<L0,L1>> (two objects, move assignment)", 2,
             [](int b, std::size_t al) { return new CompMv<AL<FB<L0, L1>>>(al, FB<L0, L1>(L0(b), L1(b + 1))); });
        return v;
    }

    //=== leaf configurations ===//
    struct leaf_cfg
    {
        std::string name;
        backend*    be[3];
        bool        extended = false; // run with the subset of compositions only
        backend*    be2[3] = {nullptr, nullptr, nullptr}; // move systems: leaves of the second object
        bool dual() const
        {
            return be2[0] != nullptr;
        }
    };
    inline bool comp_in_subset(const std::string& n)
    {
        static const char* sub[] = {"F01", "F01_2", "F0_12", "Fr0_1", "Fy0_1", "Ft0_1", "F_t0t1_2", "aF01_2", "S_F01_2", "Fsat0_1"};
        for (auto x : sub)
            if (n == x)
                return true;
        return false;
    }
    inline std::vector<leaf_cfg> leaf_cfgs()
    {
        using AP = fm::memory_pool<fm::array_pool, vblk>;
        using NP = fm::memory_pool<fm::node_pool, vblk>;
        using SP = fm::memory_pool<fm::small_node_pool, vblk>;
        using ST = fm::memory_stack<vblk>;
        using CL = fm::memory_pool_collection<fm::array_pool, fm::log2_buckets, vblk>;
        auto pool = [](auto tag, const char* nm, std::size_t ns, std::size_t nodes) {
            using P = typename decltype(tag)::type;
            auto bs = r16(P::min_block_size(ns, nodes));
            return mk_real<P>(fmt("%s(node %zu, block %zu bytes)", nm, ns, bs), [=](void* m, int id) { return ::new (m) P(ns, bs, id); });
        };
        std::vector<leaf_cfg> v;
        v.push_back({"iii", {new slot_backend(48), new slot_backend(32), new slot_backend(1008)}});
        v.push_back({"tiny", {new slot_backend(32), new slot_backend(16), new slot_backend(48)}});
        v.push_back({"Pii", {pool(std::common_type<AP>{}, "memory_pool<array_pool>", 16, 3), new slot_backend(32), new slot_backend(1008)}});
        v.push_back({"NPi", {pool(std::common_type<NP>{}, "memory_pool<node_pool>", 16, 3), pool(std::common_type<AP>{}, "memory_pool<array_pool>", 16, 2),
                             new slot_backend(1008)}});
        v.push_back({"Sii", {pool(std::common_type<SP>{}, "memory_pool<small_node_pool>", 16, 3), new slot_backend(32), new slot_backend(1008)}});
        v.push_back({"KPi", {mk_real<ST>("memory_stack(block 64)", [](void* m, int id) { return ::new (m) ST(64, id); }),
                             pool(std::common_type<AP>{}, "memory_pool<array_pool>", 16, 2), new slot_backend(1008)}});
        v.push_back({"Cii", {mk_real<CL>("collection<array_pool,log2>(max 16, block 192)", [](void* m, int id) { return ::new (m) CL(16, 192, id); }),
                             new slot_backend(32), new slot_backend(1008)}});
        v.push_back({"iiP", {new slot_backend(32), new slot_backend(32), pool(std::common_type<AP>{}, "memory_pool<array_pool>", 16, 4)}});
        // extended configurations (subset of compositions): default pools that were WARMED UP to two upstream blocks before the
        // composition uses them (so that the order of their block addresses matters), iteration allocators as default
        {
            auto w1 = pool(std::common_type<AP>{}, "memory_pool<array_pool>", 16, 2);
            static_cast<real_backend<AP>*>(w1)->warm_blocks = 2;
            w1->name += " warmed up to 2 blocks";
            v.push_back({"P2ii", {w1, new slot_backend(32), new slot_backend(1008)}, true});
            auto w2 = pool(std::common_type<NP>{}, "memory_pool<node_pool>", 16, 2);
            static_cast<real_backend<NP>*>(w2)->warm_blocks = 3;
            w2->name += " warmed up to 3 blocks";
            auto w3 = pool(std::common_type<AP>{}, "memory_pool<array_pool>", 16, 2);
            static_cast<real_backend<AP>*>(w3)->warm_blocks = 2;
            w3->name += " warmed up to 2 blocks";
            v.push_back({"N3P2i", {w2, w3, new slot_backend(1008)}, true});
            using I2 = fm::iteration_allocator<2, vblk>;
            using I3 = fm::iteration_allocator<3, vblk>;
            v.push_back({"I2ii", {mk_real<I2>("iteration_allocator<2>(block 96)", [](void* m, int id) { return ::new (m) I2(96, id); }), new slot_backend(32),
                                  new slot_backend(1008)}, true});
            {
                // move systems: object 0 (minimum alignment 16) over pools with 32-byte nodes, object 1 (minimum alignment 8)
                // over pools with 8-byte nodes whose nodes only guarantee alignment 8
                leaf_cfg a{"mvI", {new slot_backend(48), new slot_backend(32), new slot_backend(496)}, true};
                a.be2[0] = new slot_backend(48);
                a.be2[1] = new slot_backend(32);
                a.be2[2] = new slot_backend(496);
                v.push_back(a);
                leaf_cfg b{"mvP", {pool(std::common_type<NP>{}, "memory_pool<node_pool>", 32, 3), new slot_backend(32), new slot_backend(496)}, true};
                b.be2[0] = pool(std::common_type<NP>{}, "memory_pool<node_pool>", 8, 4);
                b.be2[1] = new slot_backend(32);
                b.be2[2] = new slot_backend(496);
                v.push_back(b);
                leaf_cfg c{"mvPP", {pool(std::common_type<AP>{}, "memory_pool<array_pool>", 32, 2), pool(std::common_type<AP>{}, "memory_pool<array_pool>", 32, 2),
                                    new slot_backend(496)}, true};
                c.be2[0] = pool(std::common_type<AP>{}, "memory_pool<array_pool>", 8, 4);
                c.be2[1] = pool(std::common_type<AP>{}, "memory_pool<array_pool>", 8, 4);
                c.be2[2] = new slot_backend(496);
                v.push_back(c);
            }
            v.push_back({"I3Pi", {mk_real<I3>("iteration_allocator<3>(block 144)", [](void* m, int id) { return ::new (m) I3(144, id); }),
                                  pool(std::common_type<AP>{}, "memory_pool<array_pool>", 16, 2), new slot_backend(1008)}, true});
        }
        return v;
    }

    //=== the system ===//
    struct comp_system : system_t
    {
        comp_def cd;
        leaf_cfg lc;
        bool     try_mode;
        shape    alpha[4];
        struct live_t
        {
            void* p;
            shape s;      // as requested by the user
            int   leaf;   // leaf that served it
            u32   pat;
            int   slot;   // iteration_allocator behind the leaf: internal stack active at allocation
            int   obj;    // move systems: composition object that owns it now
        };
        std::vector<live_t> live;
        std::vector<int>    ids;           // active leaf state indexes
        IComp*              C2[2] = {nullptr, nullptr};
        bool                valid[2] = {true, false};
        bool                abandoned[6] = {};
        backend* BE(int idx) const
        {
            return idx < 3 ? lc.be[idx] : lc.be2[idx - 3];
        }
        u32                 next_pat = 0;
        u8*                 outsider = nullptr;
        volatile int        cur_step = -1;
        bool                used_fallback = false;

        comp_system(const comp_def& c, const leaf_cfg& l, bool tm) : cd(c), lc(l), try_mode(tm)
        {
            alpha[0] = node_shape(16, 8);
            alpha[1] = array_shape(1, 16, 8);
            alpha[2] = array_shape(2, 16, 8);
            alpha[3] = array_shape(3, 16, 8);
            if (cd.dual())
            {
                // 8-byte requests with alignment 8: object 1's pools have 8-byte nodes (maximum alignment 8)
                alpha[0] = node_shape(8, 8);
                alpha[1] = array_shape(1, 8, 8);
                alpha[2] = array_shape(2, 8, 8);
                alpha[3] = array_shape(3, 8, 8);
            }
        }
        std::string name() const override
        {
            return cd.name + "/" + lc.name + (try_mode ? "/try" : "/std");
        }
        std::string op_name(int op)
        {
            if (op < 4)
                return (cd.dual() ? "x: " : "") + std::string(try_mode ? "try_allocate " : "allocate ") + alpha[op].str();
            if (op >= 10 && op < 14)
                return "y: " + std::string(try_mode ? "try_allocate " : "allocate ") + alpha[op - 10].str();
            if (op == 70)
                return "x = std::move(y)";
            if (op == 71)
                return "y = std::move(x)";
            if (op == 72)
                return "std::swap(x, y) (move construction + two move assignments)";
            if (op == 50)
                return "try_deallocate(outsider pointer directly behind the leaf buffers)";
            if (op == 60)
                return "next_iteration() on the iteration_allocator behind leaf<0>";
            return fmt("%s live #%d", try_mode ? "try_deallocate" : "deallocate", op - 100);
        }
        void enabled(std::vector<int>& out)
        {
            out.clear();
            if (valid[0])
                for (int i = 0; i < 4; ++i)
                    out.push_back(i);
            if (cd.dual())
            {
                if (valid[1])
                    for (int i = 0; i < 4; ++i)
                        out.push_back(10 + i);
                if (valid[1])
                    out.push_back(70);
                if (valid[0])
                    out.push_back(71);
            }
            if (try_mode && valid[0])
                out.push_back(50);
            if (lc.be[0]->iterations() > 0)
                out.push_back(60);
            for (std::size_t i = 0; i < live.size(); ++i)
                out.push_back(100 + int(i));
        }
        u64 state_key()
        {
            hasher h;
            UP().digest(h);
            h.word(u64(valid[0]) | u64(valid[1]) << 1);
            for (int i : ids)
            {
                BE(i)->digest(h);
                for (auto& r : g_leaf[i].live)
                    h.word(u64(static_cast<u8*>(r.p) - g_leafbuf) ^ (u64(r.s.array) << 40) ^ (u64(r.s.count) << 44) ^ (u64(r.s.size) << 52));
                h.word(0xfeed);
            }
            for (auto& l : live)
                h.word(u64(l.leaf) | u64(l.s.array) << 8 | u64(l.s.count) << 16 | u64(l.obj) << 24);
            return h.get().a ^ h.get().b;
        }
        bool contents_ok(std::string& which)
        {
            for (std::size_t i = 0; i < live.size(); ++i)
                if (!check_pattern(live[i].p, live[i].s.bytes(), live[i].pat))
                {
                    which = fmt("live #%zu (%s served by leaf<%d>)", i, live[i].s.str().c_str(), live[i].leaf);
                    return false;
                }
            return true;
        }

        // tracker oracle for ONE operation: `aleaf` = leaf that served an allocation of `p` in this operation (-1 none),
        // `dleaf` = leaf that took `p` back in this operation (-1 none). A tracker must have exactly one allocation /
        // deallocation callback for `p` iff that leaf lies below its tracked_allocator layer, and no other callback.
        void check_trackers(int aleaf, int dleaf, void* p, int op, const live_t* l)
        {
            if (cd.tmask.empty())
                return;
            auto mkwhat = [&] {
                std::string w = op >= 0 ? op_name(op) : std::string("final release");
                if (l)
                    w += " (" + l->s.str() + fmt(" served by leaf<%d>)", l->leaf);
                return w;
            };
            for (std::size_t t = 0; t < cd.tmask.size(); ++t)
            {
                int na = 0, nd = 0, other = 0;
                for (auto& e : g_trkev)
                    if (e.id == int(t))
                    {
                        if (e.p != p)
                            ++other;
                        else if (e.fn == 0)
                            ++na;
                        else
                            ++nd;
                    }
                int wa = aleaf >= 0 && (cd.tmask[t] >> aleaf & 1u) ? 1 : 0;
                int wd = dleaf >= 0 && (cd.tmask[t] >> dleaf & 1u) ? 1 : 0;
                if (nd > wd)
                    fail("tracker-told-of-release-its-allocator-refused",
                         fmt("%s: tracker #%zu (over leaves mask 0x%x) got %d deallocation callback(s), its allocator %s", mkwhat().c_str(), t, cd.tmask[t], nd,
                             dleaf < 0 ? "released nothing (every try_deallocate answered false)"
                                       : wd ? "accepted the memory once" : fmt("refused the memory, leaf<%d> took it", dleaf).c_str()));
                else if (nd < wd)
                    fail("tracker-missed-release", fmt("%s: tracker #%zu got no deallocation callback although leaf<%d> below it took the memory back",
                                                       mkwhat().c_str(), t, dleaf));
                if (na != wa)
                    fail("tracker-allocation-callbacks-wrong", fmt("%s: tracker #%zu got %d allocation callback(s), expected %d (serving leaf %d)", mkwhat().c_str(),
                                                                   t, na, wa, aleaf));
                if (other)
                    fail("tracker-callback-for-other-memory", fmt("%s: tracker #%zu got %d callback(s) for a pointer this operation did not touch", mkwhat().c_str(), t, other));
            }
            if (counting() && !cd.tmask.empty())
            {
                if (dleaf >= 0)
                    bump("p2_tracker_checked_releases");
                for (std::size_t t = 0; t < cd.tmask.size(); ++t)
                    if (dleaf >= 0 && !(cd.tmask[t] >> dleaf & 1u))
                        bump("p2_tracker_must_stay_silent_on_sibling_release");
            }
        }

        void body(const std::vector<int>& ops, outcome& out, bool verbose)
        {
            auto& u = UP();
            u.reset();
            live.clear();
            next_pat      = 0;
            cur_step      = -1;
            used_fallback = false;
            std::memset(g_trktot, 0, sizeof g_trktot);
            std::memset(g_trkexpired, 0, sizeof g_trkexpired);
            g_trkev.clear();
            g_verbose_calls = verbose;
            // leaf buffers adjacent: leaf0 | leaf1 | leaf2 | outsider
            std::size_t off = 0;
            ids.clear();
            for (int i = 0; i < 6; ++i)
            {
                g_leaf[i].live.clear();
                g_leaf[i].be = nullptr;
                abandoned[i] = false;
                if (i % 3 >= cd.leaves || (i >= 3 && !cd.dual()))
                    continue;
                ids.push_back(i);
                g_leaf[i].be = BE(i);
                if (auto sb = dynamic_cast<slot_backend*>(BE(i)))
                {
                    sb->buf = g_leafbuf + off;
                    off += sb->granules * 16;
                }
            }
            outsider = g_leafbuf + off;
            std::memset(outsider, 0x77, 16);
            for (int i : ids)
                BE(i)->construct(i);
            C2[0]    = cd.dual() ? cd.make2(0, 16) : cd.make();
            C2[1]    = cd.dual() ? cd.make2(3, 8) : nullptr;
            valid[0] = true;
            valid[1] = cd.dual();
            IComp* C = C2[0];
            if (verbose)
                std::printf("composition %s over leaves [%s]%s\n", cd.type.c_str(),
                            (lc.be[0]->name + " | " + lc.be[1]->name + (cd.leaves > 2 ? " | " + lc.be[2]->name : "")).c_str(), try_mode ? ", composable interface" : "");
            if (verbose && cd.dual())
                std::printf("  x: minimum alignment 16 over leaf states 0..%d; y: minimum alignment 8 over leaf states 3..%d [%s | %s%s]\n", cd.leaves - 1,
                            2 + cd.leaves, lc.be2[0]->name.c_str(), lc.be2[1]->name.c_str(), cd.leaves > 2 ? (" | " + lc.be2[2]->name).c_str() : "");
            if (try_mode && !C->composable)
            {
                herror("composition " + cd.name + " is not composable but was scheduled in try mode");
                delete C2[0];
                delete C2[1];
                return;
            }
            bool bad = false;
            for (std::size_t step = 0; step < ops.size() && !bad; ++step)
            {
                cur_step = int(step);
                counting() = int(step) >= count_from();
                int op   = ops[step];
                g_calls.clear();
                g_trkev.clear();
                std::string res;
                if (verbose)
                    std::printf("  step %zu: %s\n", step, op_name(op).c_str());
                if (op < 4 || (op >= 10 && op < 14))
                {
                    int   ob    = op >= 10 ? 1 : 0;
                    shape sh    = alpha[op % 10];
                    void* p     = nullptr;
                    bool  threw = false;
                    u64   up0   = UP().allocs;
                    if (!valid[ob])
                    {
                        herror(fmt("operation %d on a moved-from object at step %zu", op, step));
                        bad = true;
                        break;
                    }
                    try
                    {
                        p = C2[ob]->alloc(sh, try_mode);
                    }
                    catch (...)
                    {
                        threw = true;
                    }
                    if (try_mode)
                    {
                        // C03: a composable try_ function never enters a throwing allocate_*, never grows, never throws
                        for (auto& c : g_calls)
                            if (c.fn == 0)
                            {
                                fail("try-called-throwing-path", fmt("%s entered the THROWING allocate_%s of leaf<%d> (%s)", op_name(op).c_str(),
                                                                     c.s.array ? "array" : "node", c.leaf, g_leaf[c.leaf].be->name.c_str()));
                                bad = true;
                                break;
                            }
                        if (UP().allocs != up0)
                        {
                            fail("try-grew-upstream", fmt("%s made an allocator take %llu new upstream block(s)", op_name(op).c_str(),
                                                          (unsigned long long)(UP().allocs - up0)));
                            bad = true;
                        }
                        if (threw)
                        {
                            fail("try-threw", op_name(op) + " let an exception escape");
                            bad = true;
                        }
                    }
                    int served = -1, nserved = 0;
                    for (auto& c : g_calls)
                        if (c.fn < 2 && c.ok)
                        {
                            ++nserved;
                            served = c.leaf;
                            if (c.p != p)
                            {
                                fail("returned-pointer-differs-from-leaf", fmt("leaf<%d> handed out %p, the composition returned %p", c.leaf, c.p, p));
                                bad = true;
                            }
                        }
                    if (p && nserved != 1)
                    {
                        fail("allocation-not-served-by-exactly-one-leaf", fmt("%s returned memory, %d leaves report a successful allocation", op_name(op).c_str(), nserved));
                        bad = true;
                    }
                    if (!p && nserved != 0)
                    {
                        fail("leaf-allocation-lost", fmt("%s %s but leaf<%d> handed out memory", op_name(op).c_str(), threw ? "threw" : "returned null", served));
                        bad = true;
                    }
                    if (p && !bad)
                    {
                        live_t l{p, sh, served, next_pat++, served >= 0 ? BE(served)->cur_iteration() : 0, ob};
                        fill_pattern(p, sh.bytes(), l.pat);
                        live.push_back(l);
                        bump(served % 3 == 0 ? "p2_served_by_default" : "p2_served_by_fallback");
                        if (served % 3 != 0)
                            used_fallback = true;
                        else if (used_fallback)
                            bump("p2_default_serves_again_after_running_full");
                        if (counting()) class_keys().insert(fmt("%s|alloc|%d|leaf%d|%d", name().c_str(), op, served, int(live.size())));
                    }
                    else if (!p)
                    {
                        bump(threw ? "p2_alloc_threw" : "p2_try_alloc_null");
                        if (counting()) class_keys().insert(fmt("%s|alloc|%d|none", name().c_str(), op));
                    }
                    if (verbose) res = p ? fmt("memory of leaf<%d>", served) : threw ? "exception" : "null";
                    if (!bad)
                        check_trackers(p ? served : -1, -1, p, op, nullptr);
                }
                else if (op == 70 || op == 71)
                {
                    // target = std::move(source): the target now owns what the source's allocators handed out; what the target
                    // had handed out before is gone with its old allocators (dropped from the model), the source is moved-from
                    int tgt = op == 70 ? 0 : 1, src = 1 - tgt;
                    if (!valid[src])
                    {
                        herror(fmt("move from a moved-from object at step %zu", step));
                        bad = true;
                        break;
                    }
                    C2[tgt]->move_assign(*C2[src]);
                    std::size_t dropped = 0;
                    for (std::size_t i = 0; i < live.size();)
                        if (live[i].obj == tgt)
                        {
                            int lf = live[i].leaf;
                            auto& LL = g_leaf[lf].live;
                            LL.erase(std::remove_if(LL.begin(), LL.end(), [&](const lrec& r) { return r.p == live[i].p; }), LL.end());
                            abandoned[lf] = true;
                            live.erase(live.begin() + long(i));
                            ++dropped;
                        }
                        else
                            ++i;
                    for (auto& l : live)
                        l.obj = tgt;
                    valid[tgt] = true;
                    valid[src] = false;
                    if (!g_calls.empty())
                    {
                        fail("move-assignment-touched-leaves", fmt("%s made %zu leaf call(s)", op_name(op).c_str(), g_calls.size()));
                        bad = true;
                    }
                    bump("p2_move_assignments");
                    if (!live.empty())
                        bump("p2_move_assignments_with_live_allocations_taken_over");
                    if (counting()) class_keys().insert(fmt("%s|move|%d|%zu|%zu", name().c_str(), op, dropped, live.size()));
                    if (verbose) res = fmt("%zu allocation(s) taken over, %zu of the old target dropped", live.size(), dropped);
                }
                else if (op == 60)
                {
                    // allocations of an iteration_allocator<N> live until next_iteration() was called N times
                    lc.be[0]->next_iteration();
                    int  cur = lc.be[0]->cur_iteration();
                    auto& LL = g_leaf[0].live;
                    std::size_t before = live.size();
                    LL.erase(std::remove_if(LL.begin(), LL.end(), [&](const lrec& r) { return r.slot == cur; }), LL.end());
                    live.erase(std::remove_if(live.begin(), live.end(), [&](const live_t& l) { return l.leaf == 0 && l.slot == cur; }), live.end());
                    bump("p2_next_iteration");
                    if (before != live.size())
                        bump("p2_next_iteration_expired_allocations");
                    for (std::size_t t = 0; t < cd.tmask.size(); ++t)
                        if (cd.tmask[t] & 1u)
                            g_trkexpired[t] += long(before - live.size());
                    check_trackers(-1, -1, nullptr, op, nullptr);
                    if (verbose) res = fmt("active stack %d, %zu allocation(s) expired", cur, before - live.size());
                }
                else if (op == 50)
                {
                    bool r = C->dealloc(outsider, node_shape(16, 8), true);
                    bump("p2_outsider_try_dealloc");
                    for (auto& c : g_calls)
                        if (c.fn >= 2 && c.ok)
                        {
                            fail("outsider-memory-accepted", fmt("leaf<%d> accepted a pointer no allocator handed out", c.leaf));
                            bad = true;
                        }
                    if (r && !bad)
                    {
                        fail("outsider-memory-accepted", "try_deallocate_node of the composition returned true for memory none of its allocators handed out");
                        bad = true;
                    }
                    if (!bad)
                        check_trackers(-1, -1, outsider, op, nullptr);
                    if (counting()) class_keys().insert(fmt("%s|outsider|%d", name().c_str(), r ? 1 : 0));
                    if (verbose) res = r ? "true" : "false";
                }
                else
                {
                    int idx = op - 100;
                    if (idx < 0 || idx >= int(live.size()))
                    {
                        herror(fmt("operation %d not enabled at step %zu", op, step));
                        bad = true;
                        break;
                    }
                    live_t l = live[std::size_t(idx)];
                    bool   r = C2[l.obj]->dealloc(l.p, l.s, try_mode);
                    int    accepted = 0, where = -1;
                    for (auto& c : g_calls)
                        if (c.fn >= 2 && c.ok)
                        {
                            ++accepted;
                            where = c.leaf;
                        }
                    if (vios().empty())
                    {
                        if (accepted != 1)
                            fail("release-not-delivered-exactly-once", fmt("%s of %s served by leaf<%d>: %d leaves took memory back", op_name(op).c_str(),
                                                                           l.s.str().c_str(), l.leaf, accepted));
                        else if (where != l.leaf)
                            fail("released-to-leaf-that-did-not-serve-it", fmt("%s served by leaf<%d> was released to leaf<%d>", l.s.str().c_str(), l.leaf, where));
                        else if (try_mode && !r)
                            fail("composition-own-memory-not-recognised", fmt("try_deallocate of the composition returned false for %s it handed out (leaf<%d>)",
                                                                              l.s.str().c_str(), l.leaf));
                    }
                    if (vios().empty())
                        check_trackers(-1, where, l.p, op, &l);
                    if (!vios().empty())
                        bad = true;
                    live.erase(live.begin() + idx);
                    bump(l.leaf % 3 == 0 ? "p2_released_to_default" : "p2_released_to_fallback");
                    if (l.leaf == 0 && lc.be[0]->iterations() > 0 && l.slot != lc.be[0]->cur_iteration())
                        bump("p2_released_memory_of_earlier_iteration");
                    if (counting()) class_keys().insert(fmt("%s|release|%d|%d|leaf%d", name().c_str(), int(l.s.array), int(l.s.count), l.leaf));
                    if (verbose) res = "released to leaf<" + std::to_string(where) + ">";
                    if (!bad && live.empty())
                    {
                        bump("p2_everything_released");
                        for (int i : ids)
                        {
                            std::string why;
                            if (!g_leaf[i].live.empty())
                            {
                                fail("leaf-still-holds-memory", fmt("all allocations released but leaf<%d> still has %zu outstanding", i, g_leaf[i].live.size()));
                                bad = true;
                            }
                            else if (!abandoned[i] && !BE(i)->pristine(why))
                            {
                                fail("not-back-to-full-capacity", fmt("all allocations released but leaf<%d> (%s) is not back to full capacity: %s", i,
                                                                      BE(i)->name.c_str(), why.c_str()));
                                bad = true;
                            }
                        }
                    }
                }
                if (!vios().empty())
                    bad = true;
                std::string which;
                if (!bad && !contents_ok(which))
                {
                    fail("live-contents-changed", fmt("after %s: %s no longer holds its byte pattern", op_name(op).c_str(), which.c_str()));
                    bad = true;
                }
                // leaf bookkeeping and user bookkeeping agree
                if (!bad)
                {
                    std::size_t tot = 0;
                    for (int i : ids)
                        tot += g_leaf[i].live.size();
                    if (tot != live.size())
                    {
                        fail("leaf-books-disagree", fmt("%zu allocations live, leaves hold %zu", live.size(), tot));
                        bad = true;
                    }
                }
                if (verbose)
                    std::printf("      -> %s\n", res.c_str());
                if (verbose)
                    out.trace += op_name(op) + " -> " + res + "; ";
            }
            cur_step = 1000;
            if (!bad)
            {
                enabled(out.next);
                out.state = state_key();
                // release what is left, in order, then destroy
                if (verbose && !live.empty())
                    std::printf("  end of sequence: releasing the %zu remaining allocation(s), newest first\n", live.size());
                while (!live.empty())
                {
                    live_t l = live.back();
                    live.pop_back();
                    g_calls.clear();
                    g_trkev.clear();
                    C2[l.obj]->dealloc(l.p, l.s, try_mode);
                    int where = -1;
                    for (auto& c : g_calls)
                        if (c.fn >= 2 && c.ok)
                            where = c.leaf;
                    if (vios().empty())
                        check_trackers(-1, where, l.p, -1, &l);
                }
                if (vios().empty())
                    for (std::size_t t = 0; t < cd.tmask.size(); ++t)
                        if (g_trktot[t][0] != g_trktot[t][1] + g_trkexpired[t])
                            fail("tracker-unbalanced-at-end", fmt("everything released: tracker #%zu saw %ld allocation(s) and %ld deallocation(s)", t,
                                                                  g_trktot[t][0], g_trktot[t][1]));
                if (!vios().empty())
                {
                    for (auto& x : vios())
                        x.detail += " (while releasing the remaining allocations at the end of the sequence)";
                }
                delete C2[0];
                delete C2[1];
                for (std::size_t k = ids.size(); k-- > 0;)
                    BE(ids[k])->destroy();
            }
            g_verbose_calls = false;
        }

        void run(const std::vector<int>& ops, outcome& out, bool verbose) override
        {
            vios().clear();
            int oc = OUT_OK;
            VERIF_GUARDED(oc, body(ops, out, verbose));
            if (oc != OUT_OK)
            {
                int         st = cur_step;
                std::string at = st < 0 ? "construction" : st >= 1000 ? "final release/destruction" : fmt("step %d (%s)", st, op_name(ops[std::size_t(st)]).c_str());
                bool try_alloc = try_mode && st >= 0 && st < 1000 && (ops[std::size_t(st)] < 4 || (ops[std::size_t(st)] >= 10 && ops[std::size_t(st)] < 14));
                if (try_alloc && oc == OUT_ABORTED)
                    fail("try-terminated", fmt("std::terminate / abort reached inside the noexcept composable call at %s (an exception escaped a try_ function?)", at.c_str()));
                else
                    fail(outcome_name(oc), fmt("the library %s during %s of a sequence that respects all preconditions", outcome_name(oc), at.c_str()));
            }
            out.v = vios();
        }
        std::string describe(const std::vector<int>& ops) override
        {
            std::string s;
            for (int o : ops)
                s += op_name(o) + "; ";
            return s;
        }
    };
} // namespace c08

#endif
