// C09 harness, shared between harness/h_adapt.cpp (driver, oracle, enumeration) and the generated
// composition TUs (scripts/adapt_gen.py): instrumented leaf allocators, instrumented tracker, build
// environment and the type-erased per-composition operation table.
#ifndef VERIF_ADAPT_COMMON_HPP
#define VERIF_ADAPT_COMMON_HPP

#include <cstddef>
#include <cstdint>
#include <memory>
#include <new>
#include <string>
#include <type_traits>
#include <utility>
#include <vector>

#include <foonathan/memory/aligned_allocator.hpp>
#include <foonathan/memory/allocator_storage.hpp>
#include <foonathan/memory/allocator_traits.hpp>
#include <foonathan/memory/deleter.hpp>
#include <foonathan/memory/fallback_allocator.hpp>
#include <foonathan/memory/memory_resource_adapter.hpp>
#include <foonathan/memory/segregator.hpp>
#include <foonathan/memory/smart_ptr.hpp>
#include <foonathan/memory/std_allocator.hpp>
#include <foonathan/memory/threading.hpp>
#include <foonathan/memory/tracking.hpp>

namespace adapt
{
    namespace fm = foonathan::memory;

    //=== out-of-line instrumentation (defined in h_adapt.cpp) ===//
    // handle = generation * 16 + position, -1 = moved-from object
    void*       leaf_alloc(int h, bool array, std::size_t count, std::size_t size, std::size_t align,
                           bool is_try);
    bool        leaf_dealloc(int h, void* p, bool array, std::size_t count, std::size_t size,
                             std::size_t align, bool is_try);
    std::size_t leaf_max_node(int h);
    std::size_t leaf_max_array(int h);
    std::size_t leaf_max_align(int h);
    void        tracker_event(int h, bool dealloc, bool array, void* p, std::size_t count,
                              std::size_t size, std::size_t align);

    struct leaf_full : std::bad_alloc
    {
    };

    // instrumented composable RawAllocator; distinct type per position in the composition
    template <int I>
    struct leaf
    {
        using is_stateful = std::true_type;
        int h;

        explicit leaf(int handle) noexcept : h(handle) {}
        leaf(leaf&& o) noexcept : h(o.h)
        {
            o.h = -1;
        }
        leaf& operator=(leaf&& o) noexcept
        {
            int t = o.h;
            o.h   = -1;
            h     = t;
            return *this;
        }

        void* allocate_node(std::size_t s, std::size_t a)
        {
            return leaf_alloc(h, false, 1, s, a, false);
        }
        void* allocate_array(std::size_t c, std::size_t s, std::size_t a)
        {
            return leaf_alloc(h, true, c, s, a, false);
        }
        void deallocate_node(void* p, std::size_t s, std::size_t a) noexcept
        {
            leaf_dealloc(h, p, false, 1, s, a, false);
        }
        void deallocate_array(void* p, std::size_t c, std::size_t s, std::size_t a) noexcept
        {
            leaf_dealloc(h, p, true, c, s, a, false);
        }
        void* try_allocate_node(std::size_t s, std::size_t a) noexcept
        {
            return leaf_alloc(h, false, 1, s, a, true);
        }
        void* try_allocate_array(std::size_t c, std::size_t s, std::size_t a) noexcept
        {
            return leaf_alloc(h, true, c, s, a, true);
        }
        bool try_deallocate_node(void* p, std::size_t s, std::size_t a) noexcept
        {
            return leaf_dealloc(h, p, false, 1, s, a, true);
        }
        bool try_deallocate_array(void* p, std::size_t c, std::size_t s, std::size_t a) noexcept
        {
            return leaf_dealloc(h, p, true, c, s, a, true);
        }
        std::size_t max_node_size() const
        {
            return leaf_max_node(h);
        }
        std::size_t max_array_size() const
        {
            return leaf_max_array(h);
        }
        std::size_t max_alignment() const
        {
            return leaf_max_align(h);
        }
    };

    // stateless variant: all objects of the type share the state of position I of generation 15
    template <int I>
    struct sleaf
    {
        static constexpr int h = 15 * 16 + I;
        void*                allocate_node(std::size_t s, std::size_t a)
        {
            return leaf_alloc(h, false, 1, s, a, false);
        }
        void* allocate_array(std::size_t c, std::size_t s, std::size_t a)
        {
            return leaf_alloc(h, true, c, s, a, false);
        }
        void deallocate_node(void* p, std::size_t s, std::size_t a) noexcept
        {
            leaf_dealloc(h, p, false, 1, s, a, false);
        }
        void deallocate_array(void* p, std::size_t c, std::size_t s, std::size_t a) noexcept
        {
            leaf_dealloc(h, p, true, c, s, a, false);
        }
        void* try_allocate_node(std::size_t s, std::size_t a) noexcept
        {
            return leaf_alloc(h, false, 1, s, a, true);
        }
        void* try_allocate_array(std::size_t c, std::size_t s, std::size_t a) noexcept
        {
            return leaf_alloc(h, true, c, s, a, true);
        }
        bool try_deallocate_node(void* p, std::size_t s, std::size_t a) noexcept
        {
            return leaf_dealloc(h, p, false, 1, s, a, true);
        }
        bool try_deallocate_array(void* p, std::size_t c, std::size_t s, std::size_t a) noexcept
        {
            return leaf_dealloc(h, p, true, c, s, a, true);
        }
        std::size_t max_node_size() const
        {
            return leaf_max_node(h);
        }
        std::size_t max_array_size() const
        {
            return leaf_max_array(h);
        }
        std::size_t max_alignment() const
        {
            return leaf_max_align(h);
        }
    };

    // instrumented Tracker; distinct type per position (tracked_allocator derives from it)
    template <int I>
    struct tracker
    {
        int h;
        explicit tracker(int handle) noexcept : h(handle) {}
        tracker(tracker&& o) noexcept : h(o.h)
        {
            o.h = -1;
        }
        tracker& operator=(tracker&& o) noexcept
        {
            int t = o.h;
            o.h   = -1;
            h     = t;
            return *this;
        }
        void on_node_allocation(void* p, std::size_t s, std::size_t a) noexcept
        {
            tracker_event(h, false, false, p, 1, s, a);
        }
        void on_array_allocation(void* p, std::size_t c, std::size_t s, std::size_t a) noexcept
        {
            tracker_event(h, false, true, p, c, s, a);
        }
        void on_node_deallocation(void* p, std::size_t s, std::size_t a) noexcept
        {
            tracker_event(h, true, false, p, 1, s, a);
        }
        void on_array_deallocation(void* p, std::size_t c, std::size_t s, std::size_t a) noexcept
        {
            tracker_event(h, true, true, p, c, s, a);
        }
    };

    //=== user-written Segregatables (doc/concepts.md): node rule and array rule are independent ===//
    // nodes up to max go to the allocator, arrays never do ("the pool cannot serve arrays")
    template <class RawAllocator>
    class node_only_segregatable
    {
    public:
        using allocator_type = typename fm::allocator_traits<RawAllocator>::allocator_type;
        node_only_segregatable(std::size_t max, allocator_type&& a) noexcept
        : alloc_(std::move(a)), max_(max)
        {
        }
        allocator_type& get_allocator() noexcept
        {
            return alloc_;
        }
        const allocator_type& get_allocator() const noexcept
        {
            return alloc_;
        }
        bool use_allocate_node(std::size_t size, std::size_t) noexcept
        {
            return size <= max_;
        }
        bool use_allocate_array(std::size_t, std::size_t, std::size_t) noexcept
        {
            return false;
        }

    private:
        allocator_type alloc_;
        std::size_t    max_;
    };
    // nodes up to max; arrays by their *element* size (any count)
    template <class RawAllocator>
    class element_segregatable
    {
    public:
        using allocator_type = typename fm::allocator_traits<RawAllocator>::allocator_type;
        element_segregatable(std::size_t max, allocator_type&& a) noexcept
        : alloc_(std::move(a)), max_(max)
        {
        }
        allocator_type& get_allocator() noexcept
        {
            return alloc_;
        }
        const allocator_type& get_allocator() const noexcept
        {
            return alloc_;
        }
        bool use_allocate_node(std::size_t size, std::size_t) noexcept
        {
            return size <= max_;
        }
        bool use_allocate_array(std::size_t, std::size_t size, std::size_t) noexcept
        {
            return size <= max_;
        }

    private:
        allocator_type alloc_;
        std::size_t    max_;
    };

    //=== build environment: parameters of one object generation + objects referenced by it ===//
    struct env
    {
        int         gen = 0;
        std::size_t min_align_[4] = {1, 1, 1, 1};
        std::size_t threshold_[4] = {16, 40, 28, 20};
        struct kept
        {
            void* p;
            void (*del)(void*);
        };
        std::vector<kept> keep_;

        int leaf(int pos) const noexcept
        {
            return gen * 16 + pos;
        }
        int tracker(int pos) const noexcept
        {
            return gen * 16 + pos;
        }
        std::size_t min_align(int k) const noexcept
        {
            return min_align_[k & 3];
        }
        std::size_t threshold(int k) const noexcept
        {
            return threshold_[k & 3];
        }
        // object with a stable address that outlives the composition (referee of a reference)
        template <class T, class A>
        T& keep(A&& a)
        {
            T* p = new T(std::forward<A>(a));
            keep_.push_back({p, [](void* q) { delete static_cast<T*>(q); }});
            return *p;
        }
        void release_kept() noexcept
        {
            while (!keep_.empty())
            {
                auto k = keep_.back();
                keep_.pop_back();
                k.del(k.p);
            }
        }
    };

    //=== value types for the typed helpers ===//
    template <std::size_t S, std::size_t A>
    struct alignas(A) val
    {
        char d[S];
    };
    struct ctor_failure
    {
    };
    // value type whose constructor throws after the helper has obtained the memory
    template <std::size_t S, std::size_t A>
    struct alignas(A) tval
    {
        char d[S];
        tval()
        {
            throw ctor_failure();
        }
    };
    struct vbase
    {
        virtual ~vbase() {}
    };
    template <std::size_t S, std::size_t A>
    struct alignas(A) pval : vbase
    {
        char d[S > sizeof(void*) ? S - sizeof(void*) : 1];
    };

    //=== type-erased operation table ===//
    enum typed_kind
    {
        TK_UNIQUE,       // allocate_unique<T>(c)                       -> allocator_deleter<T>
        TK_UNIQUE_ANY,   // allocate_unique<T>(any_allocator{}, c)
        TK_UARRAY,       // allocate_unique<T[]>(c, n)                  -> allocator_deleter<T[]>
        TK_UARRAY_ANY,   // allocate_unique<T[]>(any_allocator{}, c, n)
        TK_POLY,         // unique_base_ptr<vbase, C> = allocate_unique<pval>(c) -> allocator_polymorphic_deleter
        TK_POLY_ANY,     //   "  with any_allocator
        TK_SHARED,       // allocate_shared<T>(c)
        TK_STD,          // std_allocator<T, C>(c).allocate(n) / deallocate(p, n)
        TK_STD_ANY,      // std_allocator<T, any_allocator>
        TK_DEALLOC,      // allocator_deallocator<T, C>
        TK_DEALLOC_ARR,  // allocator_deallocator<T[], C>
        TK_DEALLOC_POLY, // allocator_polymorphic_deallocator<vbase, C>
        TK_UNIQUE_THROW,     // allocate_unique<T>(c) where T's constructor throws
        TK_UNIQUE_ANY_THROW, // allocate_unique<T>(any_allocator{}, c)    "
        TK_SHARED_THROW,     // allocate_shared<T>(c)                      "
        TK_COUNT
    };
    inline const char* typed_kind_name(int k)
    {
        static const char* n[] = {"unique",      "unique_any", "unique_array", "unique_array_any",
                                  "poly",        "poly_any",   "shared",       "std_allocator",
                                  "std_any",     "deallocator", "deallocator_array",
                                  "deallocator_poly", "unique_throw", "unique_any_throw", "shared_throw"};
        return k >= 0 && k < TK_COUNT ? n[k] : "?";
    }
    inline bool typed_takes_count(int k)
    {
        return k == TK_UARRAY || k == TK_UARRAY_ANY || k == TK_STD || k == TK_STD_ANY
               || k == TK_DEALLOC_ARR;
    }

    struct typed_entry
    {
        int         kind;
        std::size_t nominal, aparam, size, align; // template parameters S, A; sizeof(T), alignof(T)
        // allocate n objects (n == 1 for the non-array kinds) through the helper, then release them
        void (*run)(void* obj, std::size_t n);
    };

    struct comp
    {
        std::string name, type;
        int         n_leaves = 0, n_trackers = 0, n_align = 0, n_seg = 0, depth = 0;
        bool        composable = false, has_null = false, stateless = false;
        bool        root_aligned = false; // outermost adapter is aligned_allocator (its minimum is min_align(0))
        unsigned    tracker_mask[4] = {0, 0, 0, 0}; // leaf positions below tracker k
        std::size_t align_cap[4]    = {64, 64, 64, 64}; // max_alignment() of the allocator below aligned_allocator k
        std::size_t obj_size = 0, obj_align = 0;
        bool        can_move_assign = false;

        void (*build)(env&, void*)                                          = nullptr;
        void (*destroy)(void*)                                              = nullptr;
        void (*move_construct)(void*, void*)                                = nullptr;
        void (*move_assign)(void*, void*)                                   = nullptr;
        void* (*alloc_node)(void*, std::size_t, std::size_t)                = nullptr;
        void* (*alloc_array)(void*, std::size_t, std::size_t, std::size_t)  = nullptr;
        void (*dealloc_node)(void*, void*, std::size_t, std::size_t)        = nullptr;
        void (*dealloc_array)(void*, void*, std::size_t, std::size_t, std::size_t) = nullptr;
        void* (*try_alloc_node)(void*, std::size_t, std::size_t)            = nullptr;
        void* (*try_alloc_array)(void*, std::size_t, std::size_t, std::size_t) = nullptr;
        bool (*try_dealloc_node)(void*, void*, std::size_t, std::size_t)    = nullptr;
        bool (*try_dealloc_array)(void*, void*, std::size_t, std::size_t, std::size_t) = nullptr;
        std::size_t (*max_node)(const void*)                                = nullptr;
        std::size_t (*max_array)(const void*)                               = nullptr;
        std::size_t (*max_align)(const void*)                               = nullptr;
        std::vector<typed_entry> typed;
    };

    struct registry
    {
        std::vector<comp> comps;
    };

    //=== per-type operation implementations ===//
    template <class C, bool Composable>
    struct ops
    {
        using traits  = fm::allocator_traits<C>;
        using ctraits = fm::composable_allocator_traits<C>;
        static_assert(std::is_same<typename traits::allocator_type, C>::value,
                      "composition is its own allocator_type");
        static_assert(fm::is_raw_allocator<C>::value, "composition must be a RawAllocator");

        static C& get(void* o)
        {
            return *static_cast<C*>(o);
        }
        static void destroy(void* o)
        {
            get(o).~C();
        }
        static void mc(void* d, void* s)
        {
            ::new (d) C(std::move(get(s)));
        }
        static void ma(void* d, void* s)
        {
            if constexpr (std::is_move_assignable<C>::value)
                get(d) = std::move(get(s));
        }
        static void* an(void* o, std::size_t s, std::size_t a)
        {
            return traits::allocate_node(get(o), s, a);
        }
        static void* aa(void* o, std::size_t c, std::size_t s, std::size_t a)
        {
            return traits::allocate_array(get(o), c, s, a);
        }
        static void dn(void* o, void* p, std::size_t s, std::size_t a)
        {
            traits::deallocate_node(get(o), p, s, a);
        }
        static void da(void* o, void* p, std::size_t c, std::size_t s, std::size_t a)
        {
            traits::deallocate_array(get(o), p, c, s, a);
        }
        static void* tan(void* o, std::size_t s, std::size_t a)
        {
            if constexpr (Composable)
                return ctraits::try_allocate_node(get(o), s, a);
            else
                return nullptr;
        }
        static void* taa(void* o, std::size_t c, std::size_t s, std::size_t a)
        {
            if constexpr (Composable)
                return ctraits::try_allocate_array(get(o), c, s, a);
            else
                return nullptr;
        }
        static bool tdn(void* o, void* p, std::size_t s, std::size_t a)
        {
            if constexpr (Composable)
                return ctraits::try_deallocate_node(get(o), p, s, a);
            else
                return false;
        }
        static bool tda(void* o, void* p, std::size_t c, std::size_t s, std::size_t a)
        {
            if constexpr (Composable)
                return ctraits::try_deallocate_array(get(o), p, c, s, a);
            else
                return false;
        }
        static std::size_t mn(const void* o)
        {
            return traits::max_node_size(*static_cast<const C*>(o));
        }
        static std::size_t mar(const void* o)
        {
            return traits::max_array_size(*static_cast<const C*>(o));
        }
        static std::size_t mal(const void* o)
        {
            return traits::max_alignment(*static_cast<const C*>(o));
        }

        static void fill(comp& c)
        {
            static_assert(!Composable || fm::is_composable_allocator<C>::value,
                          "composition expected to be composable");
            c.obj_size        = sizeof(C);
            c.obj_align       = alignof(C);
            c.can_move_assign = std::is_move_assignable<C>::value;
            c.composable      = Composable;
            c.destroy         = &destroy;
            c.move_construct  = &mc;
            c.move_assign     = &ma;
            c.alloc_node      = &an;
            c.alloc_array     = &aa;
            c.dealloc_node    = &dn;
            c.dealloc_array   = &da;
            if (Composable)
            {
                c.try_alloc_node    = &tan;
                c.try_alloc_array   = &taa;
                c.try_dealloc_node  = &tdn;
                c.try_dealloc_array = &tda;
            }
            c.max_node  = &mn;
            c.max_array = &mar;
            c.max_align = &mal;
        }
    };

    //=== typed helpers ===//
    template <class C, std::size_t S, std::size_t A>
    struct typed
    {
        using T  = val<S, A>;
        using PT = pval<S, A>;
        static C& get(void* o)
        {
            return *static_cast<C*>(o);
        }
        static void unique(void* o, std::size_t)
        {
            auto p = fm::allocate_unique<T>(get(o));
            auto q = std::move(p); // the deleter travels with the pointer
            q.reset();
        }
        static void unique_any(void* o, std::size_t)
        {
            auto p = fm::allocate_unique<T>(fm::any_allocator{}, get(o));
            auto q = std::move(p);
            q.reset();
        }
        static void uarray(void* o, std::size_t n)
        {
            auto p = fm::allocate_unique<T[]>(get(o), n);
            auto q = std::move(p);
            q.reset();
        }
        static void uarray_any(void* o, std::size_t n)
        {
            auto p = fm::allocate_unique<T[]>(fm::any_allocator{}, get(o), n);
            auto q = std::move(p);
            q.reset();
        }
        static void poly(void* o, std::size_t)
        {
            fm::unique_base_ptr<vbase, C> b = fm::allocate_unique<PT>(get(o));
            b.reset();
        }
        static void poly_any(void* o, std::size_t)
        {
            fm::unique_base_ptr<vbase, fm::any_allocator> b =
                fm::allocate_unique<PT>(fm::any_allocator{}, get(o));
            b.reset();
        }
        static void shared(void* o, std::size_t)
        {
            auto p = fm::allocate_shared<T>(get(o));
            auto q = p;
            p.reset();
            q.reset();
        }
        static void stda(void* o, std::size_t n)
        {
            fm::std_allocator<T, C> a(get(o));
            T*                      p = a.allocate(n);
            fm::std_allocator<T, C> b(a); // copies compare equal and may release
            b.deallocate(p, n);
        }
        static void stda_any(void* o, std::size_t n)
        {
            fm::std_allocator<T, fm::any_allocator> a(get(o));
            T*                                      p = a.allocate(n);
            fm::std_allocator<T, fm::any_allocator> b(a);
            b.deallocate(p, n);
        }
        static void dealloc(void* o, std::size_t)
        {
            fm::allocator_reference<C>        r(get(o));
            void*                             m = r.allocate_node(sizeof(T), alignof(T));
            fm::allocator_deallocator<T, C>   d(r);
            d(static_cast<T*>(m));
        }
        static void dealloc_arr(void* o, std::size_t n)
        {
            fm::allocator_reference<C>        r(get(o));
            void*                             m = r.allocate_array(n, sizeof(T), alignof(T));
            fm::allocator_deallocator<T[], C> d(r, n);
            d(static_cast<T*>(m));
        }
        static void dealloc_poly(void* o, std::size_t)
        {
            fm::allocator_reference<C>                       r(get(o));
            void*                                            m = r.allocate_node(sizeof(PT), alignof(PT));
            fm::allocator_deallocator<PT, C>                 d(r);
            fm::allocator_polymorphic_deallocator<vbase, C> pd(d);
            pd(static_cast<vbase*>(static_cast<PT*>(m)));
        }

        using TT = tval<S, A>;
        static void unique_throw(void* o, std::size_t)
        {
            auto p = fm::allocate_unique<TT>(get(o));
            p.reset();
        }
        static void unique_any_throw(void* o, std::size_t)
        {
            auto p = fm::allocate_unique<TT>(fm::any_allocator{}, get(o));
            p.reset();
        }
        static void shared_throw(void* o, std::size_t)
        {
            auto p = fm::allocate_shared<TT>(get(o));
            p.reset();
        }

        // Mask: bit per typed_kind, decided by the generator (kinds that are ill-formed for C are left out)
        template <unsigned Mask>
        static void add(comp& c)
        {
#define ADAPT_PUT(K, TYPE, F)                                                                      \
    if constexpr ((Mask & (1u << K)) != 0)                                                         \
        c.typed.push_back({K, S, A, sizeof(TYPE), alignof(TYPE), &F});
            ADAPT_PUT(TK_UNIQUE, T, unique)
            ADAPT_PUT(TK_UNIQUE_ANY, T, unique_any)
            ADAPT_PUT(TK_UARRAY, T, uarray)
            ADAPT_PUT(TK_UARRAY_ANY, T, uarray_any)
            ADAPT_PUT(TK_POLY, PT, poly)
            ADAPT_PUT(TK_POLY_ANY, PT, poly_any)
            ADAPT_PUT(TK_SHARED, T, shared)
            ADAPT_PUT(TK_STD, T, stda)
            ADAPT_PUT(TK_STD_ANY, T, stda_any)
            ADAPT_PUT(TK_DEALLOC, T, dealloc)
            ADAPT_PUT(TK_DEALLOC_ARR, T, dealloc_arr)
            ADAPT_PUT(TK_DEALLOC_POLY, PT, dealloc_poly)
            if constexpr (S == 24 || S == 70000) // throwing constructors: two sizes are enough (compile time)
            {
                ADAPT_PUT(TK_UNIQUE_THROW, TT, unique_throw)
                ADAPT_PUT(TK_UNIQUE_ANY_THROW, TT, unique_any_throw)
                ADAPT_PUT(TK_SHARED_THROW, TT, shared_throw)
            }
#undef ADAPT_PUT
        }
    };

    // value type sets
    template <class C, std::size_t S, unsigned Mask>
    void add_typed_aligns(comp& c)
    {
        typed<C, S, 1>::template add<Mask>(c);
        typed<C, S, 2>::template add<Mask>(c);
        typed<C, S, 4>::template add<Mask>(c);
        typed<C, S, 8>::template add<Mask>(c);
        typed<C, S, 16>::template add<Mask>(c);
        typed<C, S, 32>::template add<Mask>(c);
        typed<C, S, 64>::template add<Mask>(c);
    }
    template <class C, unsigned Mask>
    void add_typed_reduced(comp& c)
    {
        typed<C, 1, 1>::template add<Mask>(c);
        typed<C, 24, 8>::template add<Mask>(c);
        typed<C, 65535, 2>::template add<Mask>(c);
        typed<C, 65536, 16>::template add<Mask>(c);
        typed<C, 70000, 64>::template add<Mask>(c);
    }
    template <class C, unsigned Mask>
    void add_typed_mini(comp& c)
    {
        typed<C, 24, 8>::template add<Mask>(c);
        typed<C, 70000, 64>::template add<Mask>(c);
    }
} // namespace adapt

#endif
