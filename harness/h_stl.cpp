// C10 part 1: standard containers / smart pointers built on std_allocator<T, Raw> (Raw = an instrumented
// stateful RawAllocator, or the type-erased any_allocator) give every block back to the allocator OBJECT
// it was obtained from, for every sequence of container operations.
//
// Stateless depth-first enumeration of ALL operation sequences up to a depth over three slots
// (c0,c1 bound to allocator object A, c2 bound to allocator object B). Every program is executed from
// scratch on the real library code, together with the same program on std::allocator containers.
//
// usage: h_stl --family <f> --mode std|any|shared --depth D [--from_level L] [--shard k/n] [--deadline_s S | --deadline_at EPOCH] --tier quick|thorough --out f
//        h_stl --family <f> --mode std|any|shared --replay '[op,op,...]'
#define FOONATHAN_MEMORY_NO_NODE_SIZE 1
#include "../engine/core.hpp"

#include <algorithm>
#include <memory>
#include <optional>
#include <unordered_set>

#include <foonathan/memory/container.hpp>
#include <foonathan/memory/deleter.hpp>
#include <foonathan/memory/smart_ptr.hpp>
#include <foonathan/memory/std_allocator.hpp>

namespace fm = foonathan::memory;
using namespace verif;

//=== environment: ledger of outstanding blocks, violations of the running program ===//
struct viol
{
    std::string tag, detail;
};

struct blockrec
{
    void*       p;
    std::size_t size, align, count;
    bool        array;
    int         owner;
};

struct env_t
{
    std::vector<blockrec> live;
    std::vector<viol>     viols;
    bool                  verbose = false, probing = false, tainted = false, any_mode = false, false_equal_reported = false;
    int                   probe_owner = -1;
    long                  allocs = 0, releases = 0, wrong = 0, arrays = 0;
    std::size_t           max_live = 0;

    void reset()
    {
        for (auto& b : live)
            std::free(b.p);
        live.clear();
        viols.clear();
        probing = tainted = false_equal_reported = false;
        probe_owner       = -1;
        allocs = releases = wrong = arrays = 0;
        max_live                           = 0;
    }
};
static env_t E;

static const char* TAG_ANY_EQ = "any-std-allocator-equality";

static void add_viol(const std::string& tag, const std::string& detail)
{
    for (auto& v : E.viols)
        if (v.tag == tag && v.detail.compare(0, 12, detail, 0, 12) == 0)
            return;
    E.viols.push_back({tag, detail});
    if (E.verbose)
        std::printf("    !! [%s] %s\n", tag.c_str(), detail.c_str());
}

//=== the instrumented stateful RawAllocator (no propagation typedefs: library defaults apply) ===//
struct rawlog
{
    int id;
    explicit rawlog(int i) : id(i) {}
    rawlog(const rawlog&)            = delete;
    rawlog& operator=(const rawlog&) = delete;

    static char name_of(int i)
    {
        return i == 0 ? 'A' : i == 1 ? 'B' : '?';
    }

    void* get(bool array, std::size_t count, std::size_t size, std::size_t align)
    {
        std::size_t al    = align < sizeof(void*) ? sizeof(void*) : align;
        std::size_t bytes = count * size;
        bytes             = (bytes + al - 1) / al * al;
        if (bytes == 0)
            bytes = al;
        void* p = std::aligned_alloc(al, bytes);
        E.live.push_back({p, size, align, count, array, id});
        if (E.probing)
            E.probe_owner = id;
        else
        {
            ++E.allocs;
            if (array)
                ++E.arrays;
            if (E.live.size() > E.max_live)
                E.max_live = E.live.size();
            if (E.verbose)
                std::printf("      %c: allocate_%s(%s%zu, %zu) -> #%p\n", name_of(id), array ? "array" : "node",
                            array ? (std::to_string(count) + " x ").c_str() : "", size, align, p);
        }
        return p;
    }

    void put(bool array, void* p, std::size_t count, std::size_t size, std::size_t align) noexcept
    {
        std::size_t k = 0;
        for (; k < E.live.size(); ++k)
            if (E.live[k].p == p)
                break;
        if (!E.probing)
        {
            ++E.releases;
            if (E.verbose)
                std::printf("      %c: deallocate_%s(#%p, %s%zu, %zu)\n", name_of(id), array ? "array" : "node", p,
                            array ? (std::to_string(count) + " x ").c_str() : "", size, align);
        }
        if (k == E.live.size())
        {
            add_viol("unknown-release",
                     fmt("allocator %c was asked to release a block that is not outstanding in any allocator "
                         "(%s, size %zu, count %zu)",
                         name_of(id), array ? "array" : "node", size, count));
            return; // not freed: may be a double release
        }
        blockrec b = E.live[k];
        E.live.erase(E.live.begin() + long(k));
        if (b.owner != id)
        {
            ++E.wrong;
            std::string d = fmt("%s of size %zu%s obtained from allocator object %c was released through allocator "
                                "object %c",
                                b.array ? "array" : "node", b.size, b.array ? fmt(" x %zu", b.count).c_str() : "",
                                name_of(b.owner), name_of(id));
            if (E.any_mode && E.tainted)
                add_viol(TAG_ANY_EQ, "consequence of any_std_allocators on different allocator objects comparing equal: " + d);
            else
                add_viol("wrong-allocator", d);
        }
        if (b.array != array || b.size != size || b.align != align || b.count != count)
            add_viol("release-mismatch",
                     fmt("block allocated as %s(count %zu, size %zu, alignment %zu) released as %s(count %zu, size %zu, "
                         "alignment %zu)",
                         b.array ? "array" : "node", b.count, b.size, b.align, array ? "array" : "node", count, size, align));
        std::free(p);
    }

    void* allocate_node(std::size_t size, std::size_t align)
    {
        return get(false, 1, size, align);
    }
    void deallocate_node(void* p, std::size_t size, std::size_t align) noexcept
    {
        put(false, p, 1, size, align);
    }
    void* allocate_array(std::size_t count, std::size_t size, std::size_t align)
    {
        return get(true, count, size, align);
    }
    void deallocate_array(void* p, std::size_t count, std::size_t size, std::size_t align) noexcept
    {
        put(true, p, count, size, align);
    }
};

// a SHARED RawAllocator (is_shared_allocator): a copyable handle to one of the instrumented allocator objects; the
// library embeds a COPY of it in every std_allocator / deleter and must compare the copies with operator==
struct sharedlog
{
    rawlog* target;
    explicit sharedlog(rawlog& r) : target(&r) {}
    void* allocate_node(std::size_t size, std::size_t align)
    {
        return target->allocate_node(size, align);
    }
    void deallocate_node(void* p, std::size_t size, std::size_t align) noexcept
    {
        target->deallocate_node(p, size, align);
    }
    void* allocate_array(std::size_t count, std::size_t size, std::size_t align)
    {
        return target->allocate_array(count, size, align);
    }
    void deallocate_array(void* p, std::size_t count, std::size_t size, std::size_t align) noexcept
    {
        target->deallocate_array(p, count, size, align);
    }
    friend bool operator==(const sharedlog& a, const sharedlog& b) noexcept
    {
        return a.target == b.target;
    }
    friend bool operator!=(const sharedlog& a, const sharedlog& b) noexcept
    {
        return a.target != b.target;
    }
};
namespace foonathan
{
    namespace memory
    {
        template <>
        struct is_shared_allocator<sharedlog> : std::true_type
        {
        };
    } // namespace memory
} // namespace foonathan

static rawlog  ALLOC_A(0), ALLOC_B(1);
static rawlog* HOME[3] = {&ALLOC_A, &ALLOC_A, &ALLOC_B};

//=== element types for the smart pointer helpers ===//
struct boom
{
};
// the (countdown+1)-th construction throws
struct thrower
{
    static int countdown;
    int        v;
    thrower() : v(0)
    {
        if (countdown-- == 0)
            throw boom{};
    }
    explicit thrower(int x) : v(x)
    {
        if (countdown-- == 0)
            throw boom{};
    }
};
int thrower::countdown = -1;

struct pbase
{
    int x = 1;
    virtual ~pbase() {}
};
// more strictly aligned than its base: the polymorphic deleter has to give the node back with the DERIVED alignment
struct pderived : pbase
{
    int              y = 2;
    alignas(16) char pad[16];
};
static_assert(alignof(pderived) > alignof(pbase), "derived type must be stricter aligned than its base");

// overwrite the dead stack frames below the caller (makes use of a dangling reference into them deterministic)
__attribute__((noinline)) static void scribble_stack()
{
    volatile char junk[8192];
    for (std::size_t i = 0; i < sizeof junk; ++i)
        junk[i] = 0;
}

//=== allocator policies ===//
inline auto lib_unique(rawlog& r, int v, rawlog*)
{
    return fm::allocate_unique<int>(r, v);
}
inline auto lib_unique(rawlog& r, int v, sharedlog*)
{
    return fm::allocate_unique<int>(sharedlog(r), v);
}
inline auto lib_unique_array(rawlog& r, std::size_t n, sharedlog*)
{
    return fm::allocate_unique<int[]>(sharedlog(r), n);
}
inline void lib_throwing(int what, rawlog& r, sharedlog*)
{
    sharedlog s(r);
    if (what == 0)
        (void)fm::allocate_unique<thrower>(s, 1);
    else if (what == 1)
        (void)fm::allocate_unique<thrower[]>(s, std::size_t(3));
    else
        (void)fm::allocate_shared<thrower>(s, 1);
}
__attribute__((noinline, optimize("O0"))) void lib_base_convert(rawlog& r, sharedlog*)
{
    sharedlog                              s(r);
    auto                                   d = fm::allocate_unique<pderived>(s);
    fm::unique_base_ptr<pbase, sharedlog> b = std::move(d);
    scribble_stack();
    b.reset();
}
inline std::shared_ptr<int> lib_shared(rawlog& r, int v, sharedlog*)
{
    return fm::allocate_shared<int>(sharedlog(r), v);
}
inline auto lib_unique(rawlog& r, int v, fm::any_allocator*)
{
    return fm::allocate_unique<int>(fm::any_allocator{}, r, v);
}
inline auto lib_unique_array(rawlog& r, std::size_t n, rawlog*)
{
    return fm::allocate_unique<int[]>(r, n);
}
inline auto lib_unique_array(rawlog& r, std::size_t n, fm::any_allocator*)
{
    return fm::allocate_unique<int[]>(fm::any_allocator{}, r, n);
}
// allocate_unique / allocate_shared with a constructor that throws (k-th element for the array form)
inline void lib_throwing(int what, rawlog& r, rawlog*)
{
    if (what == 0)
        (void)fm::allocate_unique<thrower>(r, 1);
    else if (what == 1)
        (void)fm::allocate_unique<thrower[]>(r, std::size_t(3));
    else
        (void)fm::allocate_shared<thrower>(r, 1);
}
inline void lib_throwing(int what, rawlog& r, fm::any_allocator*)
{
    if (what == 0)
        (void)fm::allocate_unique<thrower>(fm::any_allocator{}, r, 1);
    else if (what == 1)
        (void)fm::allocate_unique<thrower[]>(fm::any_allocator{}, r, std::size_t(3));
    else
        (void)std::allocate_shared<thrower>(fm::make_any_std_allocator<thrower>(r), 1);
}
// unique_ptr<derived> -> unique_base_ptr<base> (the polymorphic deleter takes its reference from the deleter's
// get_allocator()), then release through the base pointer
// (not optimised: the by-value deleter parameter of the converting constructor then lives in a callee frame that is dead
// afterwards, as in a debug build)
__attribute__((noinline, optimize("O0"))) void lib_base_convert(rawlog& r, rawlog*)
{
    auto                                d = fm::allocate_unique<pderived>(r);
    fm::unique_base_ptr<pbase, rawlog> b = std::move(d);
    scribble_stack();
    b.reset();
}
__attribute__((noinline, optimize("O0"))) void lib_base_convert(rawlog& r, fm::any_allocator*)
{
    auto                                           d = fm::allocate_unique<pderived>(fm::any_allocator{}, r);
    fm::unique_base_ptr<pbase, fm::any_allocator> b = std::move(d);
    scribble_stack();
    b.reset();
}
inline std::shared_ptr<int> lib_shared(rawlog& r, int v, rawlog*)
{
    return fm::allocate_shared<int>(r, v);
}
inline std::shared_ptr<int> lib_shared(rawlog& r, int v, fm::any_allocator*)
{
    return std::allocate_shared<int>(fm::make_any_std_allocator<int>(r), v);
}

template <class Raw>
struct pol_lib
{
    static constexpr bool reference = false;
    template <class T>
    using alloc = fm::std_allocator<T, Raw>;
    template <class T>
    static alloc<T> make(rawlog& r)
    {
        if constexpr (std::is_same<Raw, sharedlog>::value)
        {
            sharedlog s(r);
            return alloc<T>(s); // embeds a copy of the handle
        }
        else
            return alloc<T>(r);
    }
    using uptr = std::unique_ptr<int, fm::allocator_deleter<int, Raw>>;
    using uarr = std::unique_ptr<int[], fm::allocator_deleter<int[], Raw>>;
    static uptr make_unique(rawlog& r, int v)
    {
        return lib_unique(r, v, static_cast<Raw*>(nullptr));
    }
    static uarr make_unique_array(rawlog& r, std::size_t n)
    {
        return lib_unique_array(r, n, static_cast<Raw*>(nullptr));
    }
    static std::shared_ptr<int> make_shared(rawlog& r, int v)
    {
        return lib_shared(r, v, static_cast<Raw*>(nullptr));
    }
    static void throwing(int what, rawlog& r)
    {
        lib_throwing(what, r, static_cast<Raw*>(nullptr));
    }
    static void base_convert(rawlog& r)
    {
        lib_base_convert(r, static_cast<Raw*>(nullptr));
    }
    // a std_allocator built from the (possibly type-erased) allocator object another std_allocator refers to
    template <class T>
    static alloc<T> derive(alloc<T>& from)
    {
        return alloc<T>(from.get_allocator());
    }
};

struct pol_ref
{
    static constexpr bool reference = true;
    template <class T>
    using alloc = std::allocator<T>;
    template <class T>
    static alloc<T> make(rawlog&)
    {
        return {};
    }
    using uptr = std::unique_ptr<int>;
    using uarr = std::unique_ptr<int[]>;
    static uptr make_unique(rawlog&, int v)
    {
        return uptr(new int(v));
    }
    static uarr make_unique_array(rawlog&, std::size_t n)
    {
        return uarr(new int[n]());
    }
    static std::shared_ptr<int> make_shared(rawlog&, int v)
    {
        return std::make_shared<int>(v);
    }
    static void throwing(int, rawlog&) {}
    static void base_convert(rawlog&) {}
    template <class T>
    static alloc<T> derive(alloc<T>& from)
    {
        return from;
    }
};

// which allocator object does this std_allocator hand memory to / take memory from? (behavioural probe)
template <class P, class A>
int owner_of(const A& a)
{
    typename P::template alloc<char> pa(a);
    E.probing     = true;
    E.probe_owner = -1;
    char* p       = pa.allocate(1);
    pa.deallocate(p, 1);
    E.probing = false;
    return E.probe_owner;
}

//=== container families ===//
template <class D>
struct fam_base
{
    static constexpr bool smart = false, has_splice = false, copyable = true, alloc_ctor = true, has_alloc = true,
                          has_erase = true, has_clear = true, direct = false, differential = true, initial_live = true,
                          destroyable = true, base_convert = false, zero_length = false;
    static constexpr int throw_what = -1, throw_positions = 0; // smart pointer helpers: which helper, how many positions
    template <class P, class C>
    static void init(std::optional<C>& slot, rawlog& home)
    {
        slot.emplace(P::template make<typename D::value>(home));
    }
    template <class P, class C>
    static void insert(C& c, int v, rawlog&)
    {
        D::ins(c, v);
    }
    template <class C>
    static void erase_first(C& c)
    {
        if (!c.empty())
            c.erase(c.begin());
    }
    template <class C>
    static void clear(C& c)
    {
        c.clear();
    }
    template <class C>
    static auto get_alloc(const C& c)
    {
        return c.get_allocator();
    }
    template <class C>
    static void contents(const C& c, std::vector<long>& o)
    {
        for (const auto& x : c)
            o.push_back(long(x));
    }
    template <class C>
    static void do_splice(C&, C&)
    {
    }
};

struct F_list : fam_base<F_list>
{
    static const char* name()
    {
        return "list";
    }
    using value = int;
    template <class P>
    using cont = std::list<int, typename P::template alloc<int>>;
    static constexpr bool has_splice = true;
    template <class C>
    static void ins(C& c, int v)
    {
        if (v & 1)
            c.push_back(v);
        else
            c.push_front(v);
    }
    template <class C>
    static void do_splice(C& a, C& b)
    {
        a.splice(a.end(), b);
    }
};

struct F_forward_list : fam_base<F_forward_list>
{
    static const char* name()
    {
        return "forward_list";
    }
    using value = int;
    template <class P>
    using cont = std::forward_list<int, typename P::template alloc<int>>;
    static constexpr bool has_splice = true;
    template <class C>
    static void ins(C& c, int v)
    {
        c.push_front(v);
    }
    template <class C>
    static void erase_first(C& c)
    {
        if (!c.empty())
            c.pop_front();
    }
    template <class C>
    static void do_splice(C& a, C& b)
    {
        a.splice_after(a.before_begin(), b);
    }
};

struct F_set : fam_base<F_set>
{
    static const char* name()
    {
        return "set";
    }
    using value = int;
    template <class P>
    using cont = std::set<int, std::less<int>, typename P::template alloc<int>>;
    template <class C>
    static void ins(C& c, int v)
    {
        c.insert(v);
    }
};

struct F_map : fam_base<F_map>
{
    static const char* name()
    {
        return "map";
    }
    using value = std::pair<const int, int>;
    template <class P>
    using cont = std::map<int, int, std::less<int>, typename P::template alloc<value>>;
    template <class C>
    static void ins(C& c, int v)
    {
        c.emplace(v, v * 7);
    }
    template <class C>
    static void contents(const C& c, std::vector<long>& o)
    {
        for (const auto& x : c)
            o.push_back(long(x.first) * 1000 + x.second);
    }
};

struct F_unordered_set : fam_base<F_unordered_set>
{
    static const char* name()
    {
        return "unordered_set";
    }
    using value = int;
    template <class P>
    using cont = std::unordered_set<int, std::hash<int>, std::equal_to<int>, typename P::template alloc<int>>;
    template <class C>
    static void ins(C& c, int v)
    {
        c.insert(v);
    }
    template <class C>
    static void contents(const C& c, std::vector<long>& o)
    {
        for (const auto& x : c)
            o.push_back(long(x));
        std::sort(o.begin(), o.end());
    }
};

struct F_unordered_map : fam_base<F_unordered_map>
{
    static const char* name()
    {
        return "unordered_map";
    }
    using value = std::pair<const int, int>;
    template <class P>
    using cont = std::unordered_map<int, int, std::hash<int>, std::equal_to<int>, typename P::template alloc<value>>;
    template <class C>
    static void ins(C& c, int v)
    {
        c.emplace(v, v * 7);
    }
    template <class C>
    static void contents(const C& c, std::vector<long>& o)
    {
        for (const auto& x : c)
            o.push_back(long(x.first) * 1000 + x.second);
        std::sort(o.begin(), o.end());
    }
};

struct F_vector : fam_base<F_vector>
{
    static const char* name()
    {
        return "vector";
    }
    using value = int;
    template <class P>
    using cont = std::vector<int, typename P::template alloc<int>>;
    template <class C>
    static void ins(C& c, int v)
    {
        c.push_back(v);
    }
    template <class C>
    static void clear(C& c)
    {
        c.clear();
        c.shrink_to_fit();
    }
};

struct F_deque : fam_base<F_deque>
{
    static const char* name()
    {
        return "deque";
    }
    using value = int;
    template <class P>
    using cont = std::deque<int, typename P::template alloc<int>>;
    template <class C>
    static void ins(C& c, int v)
    {
        if (v & 1)
            c.push_back(v);
        else
            c.push_front(v);
    }
    template <class C>
    static void clear(C& c)
    {
        c.clear();
        c.shrink_to_fit();
    }
};

struct F_string : fam_base<F_string>
{
    static const char* name()
    {
        return "string";
    }
    using value = char;
    template <class P>
    using cont = std::basic_string<char, std::char_traits<char>, typename P::template alloc<char>>;
    template <class C>
    static void ins(C& c, int v)
    {
        c.append(20, char('a' + v % 26)); // longer than the small string buffer
    }
    template <class C>
    static void erase_first(C& c)
    {
        if (!c.empty())
        {
            c.erase(0, 20);
            c.shrink_to_fit();
        }
    }
    template <class C>
    static void clear(C& c)
    {
        c.clear();
        c.shrink_to_fit();
    }
};

// smart pointer helpers: slots start dead, "insert" (re)creates the pointee from the slot's home allocator
template <class D>
struct smart_base : fam_base<D>
{
    static constexpr bool smart = true, alloc_ctor = false, has_alloc = false, has_erase = false, initial_live = false;
    using value = int;
    template <class P, class C>
    static void init(std::optional<C>&, rawlog&)
    {
    }
    template <class C>
    static void clear(C& c)
    {
        c.reset();
    }
};

struct F_shared : smart_base<F_shared>
{
    static const char* name()
    {
        return "shared_ptr";
    }
    static constexpr int throw_what = 2, throw_positions = 1;
    template <class P>
    using cont = std::shared_ptr<int>;
    template <class P, class C>
    static void insert(C& c, int v, rawlog& home)
    {
        c = P::make_shared(home, v);
    }
    template <class P>
    static std::shared_ptr<int> create(int v, rawlog& home)
    {
        return P::make_shared(home, v);
    }
    template <class C>
    static void contents(const C& c, std::vector<long>& o)
    {
        o.push_back(c ? long(*c) : -1);
        o.push_back(long(c.use_count()));
    }
};

struct F_unique : smart_base<F_unique>
{
    static const char* name()
    {
        return "unique_ptr";
    }
    static constexpr bool copyable = false, base_convert = true;
    static constexpr int  throw_what = 0, throw_positions = 1;
    template <class P>
    using cont = typename P::uptr;
    template <class P, class C>
    static void insert(C& c, int v, rawlog& home)
    {
        c = P::make_unique(home, v);
    }
    template <class P>
    static typename P::uptr create(int v, rawlog& home)
    {
        return P::make_unique(home, v);
    }
    template <class C>
    static void contents(const C& c, std::vector<long>& o)
    {
        o.push_back(c ? long(*c) : -1);
    }
};

struct F_unique_array : smart_base<F_unique_array>
{
    static const char* name()
    {
        return "unique_ptr_array";
    }
    static constexpr bool copyable = false, zero_length = true; // allocate_unique<int[]>(alloc, 0) is an operation
    static constexpr int  throw_what = 1, throw_positions = 3;
    template <class P>
    using cont = typename P::uarr;
    template <class P, class C>
    static void insert(C& c, int v, rawlog& home)
    {
        c = P::make_unique_array(home, std::size_t(1 + v % 3));
    }
    template <class P>
    static typename P::uarr create(int v, rawlog& home)
    {
        return P::make_unique_array(home, std::size_t(1 + v % 3));
    }
    template <class C>
    static void contents(const C& c, std::vector<long>& o)
    {
        o.push_back(c ? 1 : 0);
    }
};

// direct use of std_allocator objects: allocate(0/1/2) through one object, deallocate through another object
// that compares equal ("memory from one may be released through the other")
template <class P>
struct dblock
{
    int*                              p;
    std::size_t                       n;
    typename P::template alloc<int>   by;
};
template <class P>
struct dslot
{
    typename P::template alloc<int> a;
    explicit dslot(typename P::template alloc<int> x) : a(x) {}
    static std::vector<dblock<P>>& blocks()
    {
        static std::vector<dblock<P>> b;
        return b;
    }
    friend void swap(dslot& x, dslot& y)
    {
        std::swap(x.a, y.a);
    }
};

struct F_direct : fam_base<F_direct>
{
    static const char* name()
    {
        return "direct";
    }
    static constexpr bool direct = true, alloc_ctor = false, differential = false, destroyable = false, has_clear = false;
    using value = int;
    template <class P>
    using cont = dslot<P>;
    template <class P, class C>
    static void init(std::optional<C>& slot, rawlog& home)
    {
        slot.emplace(P::template make<int>(home));
    }
    template <class C>
    static auto get_alloc(const C& c)
    {
        return c.a;
    }
    template <class C>
    static void contents(const C&, std::vector<long>&)
    {
    }
};

//=== operations ===//
enum opkind
{
    K_INSERT = 0,
    K_ERASE,
    K_CLEAR,
    K_COPY_ASSIGN,
    K_MOVE_ASSIGN,
    K_SWAP,
    K_SPLICE,
    K_COPY_CONSTRUCT,
    K_MOVE_CONSTRUCT,
    K_DESTROY,
    K_COPY_CONSTRUCT_ALLOC,
    K_MOVE_CONSTRUCT_ALLOC,
    K_ALLOC2, // direct family only: allocate(2)
    K_ALLOC0, // direct family only: allocate(0)
    K_DERIVE, // direct family only: ci = std_allocator(cj.get_allocator())
    K_THROW,  // smart pointer helpers only: allocate_unique/allocate_shared whose (j+1)-th construction throws
    K_BASE,   // unique_ptr only: unique_ptr<derived> -> unique_base_ptr<base>, release
    K_COUNT
};
static const char* KNAME[K_COUNT] = {"insert",         "erase_first",    "clear",   "copy_assign",          "move_assign",
                                     "swap",           "splice",         "copy_construct", "move_construct", "destroy",
                                     "copy_construct_with_home_allocator", "move_construct_with_home_allocator",
                                     "allocate2",      "allocate_zero_elements", "construct_from_get_allocator",
                                     "create_with_throwing_constructor", "convert_to_base_ptr_and_release"};

inline int op_code(int k, int i, int j)
{
    return k * 9 + i * 3 + j;
}
static std::string op_text(int code, bool direct = false)
{
    int k = code / 9, i = (code % 9) / 3, j = code % 3;
    if (k < 0 || k >= K_COUNT)
        return fmt("?%d", code);
    const char* n = KNAME[k];
    if (direct)
    {
        if (k == K_INSERT)
            n = "allocate1";
        if (k == K_ERASE)
            n = "deallocate_oldest_through";
    }
    switch (k)
    {
    case K_INSERT:
    case K_ERASE:
    case K_CLEAR:
    case K_DESTROY:
    case K_ALLOC2:
    case K_ALLOC0:
    case K_BASE:
        return fmt("%s(c%d)", n, i);
    case K_THROW:
        return fmt("%s(home allocator of c%d, construction %d throws)", n, i, j + 1);
    case K_SWAP:
    case K_SPLICE:
        return fmt("%s(c%d,c%d)", n, i, j);
    default:
        return fmt("%s(c%d<-c%d)", n, i, j);
    }
}
inline bool two_slot(int k)
{
    return k == K_COPY_ASSIGN || k == K_MOVE_ASSIGN || k == K_SWAP || k == K_SPLICE || k == K_COPY_CONSTRUCT
           || k == K_MOVE_CONSTRUCT || k == K_COPY_CONSTRUCT_ALLOC || k == K_MOVE_CONSTRUCT_ALLOC || k == K_DERIVE;
}

template <class F, class P>
struct world
{
    using C = typename F::template cont<P>;
    std::optional<C> c[3];
    bool             unspec[3] = {false, false, false};

    void init()
    {
        if (F::initial_live)
            for (int i = 0; i < 3; ++i)
                F::template init<P>(c[i], *HOME[i]);
    }
};

template <class F, class P>
void apply(world<F, P>& w, int k, int i, int j, int v)
{
    rawlog& home = *HOME[i];
    using C      = typename world<F, P>::C;
    switch (k)
    {
    case K_INSERT:
        if constexpr (F::direct)
        {
            auto& s = *w.c[i];
            C::blocks().push_back({s.a.allocate(1), 1, s.a});
        }
        else if constexpr (F::smart)
        {
            if (!w.c[i])
                w.c[i].emplace(F::template create<P>(v, home));
            else
                F::template insert<P>(*w.c[i], v, home);
            w.unspec[i] = false;
        }
        else
            F::template insert<P>(*w.c[i], v, home);
        break;
    case K_ALLOC2:
        if constexpr (F::direct)
        {
            auto& s = *w.c[i];
            C::blocks().push_back({s.a.allocate(2), 2, s.a});
        }
        break;
    case K_ALLOC0:
        if constexpr (F::direct)
        {
            auto& s = *w.c[i];
            C::blocks().push_back({s.a.allocate(0), 0, s.a});
        }
        else if constexpr (F::zero_length)
        {
            // array of length 0: allocate_array(0, ...) is still called and has to be matched by a deallocate_array
            if (!w.c[i])
                w.c[i].emplace(P::make_unique_array(home, 0));
            else
                *w.c[i] = P::make_unique_array(home, 0);
            w.unspec[i] = false;
        }
        break;
    case K_DERIVE:
        if constexpr (F::direct)
            w.c[i].emplace(P::template derive<int>(w.c[j]->a));
        break;
    case K_THROW:
        if constexpr (F::throw_positions > 0)
        {
            std::size_t before = E.live.size();
            bool        thrown = false;
            thrower::countdown = j;
            try
            {
                P::throwing(F::throw_what, home);
            }
            catch (boom&)
            {
                thrown = true;
            }
            thrower::countdown = -1;
            if (!P::reference)
            {
                if (!thrown)
                    add_viol("exception-swallowed", "the exception of the element constructor did not reach the caller");
                if (E.live.size() != before)
                    add_viol("leak-after-throwing-constructor",
                             fmt("%zu block(s) obtained for the request stayed outstanding after the constructor threw "
                                 "(nobody owns them any more)",
                                 E.live.size() - before));
            }
        }
        break;
    case K_BASE:
        if constexpr (F::base_convert)
        {
            std::size_t before = E.live.size();
            P::base_convert(home);
            if (!P::reference && E.live.size() != before)
                add_viol("outstanding", "the object released through unique_base_ptr stayed outstanding");
        }
        break;
    case K_ERASE:
        if constexpr (F::direct)
        {
            auto& bl = C::blocks();
            auto  b  = bl.front();
            bl.erase(bl.begin());
            w.c[i]->a.deallocate(b.p, b.n);
        }
        else if constexpr (F::has_erase)
            F::erase_first(*w.c[i]);
        break;
    case K_CLEAR:
        if constexpr (F::has_clear)
        {
            F::clear(*w.c[i]);
            w.unspec[i] = false;
        }
        break;
    case K_COPY_ASSIGN:
        if constexpr (F::copyable)
        {
            *w.c[i]     = *w.c[j];
            w.unspec[i] = w.unspec[j];
        }
        break;
    case K_MOVE_ASSIGN:
        *w.c[i]     = std::move(*w.c[j]);
        w.unspec[i] = w.unspec[j];
        w.unspec[j] = !F::smart; // moved-from smart pointers are null by specification
        break;
    case K_SWAP:
    {
        using std::swap;
        swap(*w.c[i], *w.c[j]);
        std::swap(w.unspec[i], w.unspec[j]);
        break;
    }
    case K_SPLICE:
        F::do_splice(*w.c[i], *w.c[j]);
        w.unspec[i] = w.unspec[i] || w.unspec[j];
        w.unspec[j] = false;
        break;
    case K_COPY_CONSTRUCT:
        if constexpr (F::copyable)
        {
            w.c[i].emplace(*w.c[j]);
            w.unspec[i] = w.unspec[j];
        }
        break;
    case K_MOVE_CONSTRUCT:
        w.c[i].emplace(std::move(*w.c[j]));
        w.unspec[i] = w.unspec[j];
        w.unspec[j] = !F::smart;
        break;
    case K_COPY_CONSTRUCT_ALLOC:
        if constexpr (F::alloc_ctor)
        {
            w.c[i].emplace(*w.c[j], P::template make<typename F::value>(home));
            w.unspec[i] = w.unspec[j];
        }
        break;
    case K_MOVE_CONSTRUCT_ALLOC:
        if constexpr (F::alloc_ctor)
        {
            w.c[i].emplace(std::move(*w.c[j]), P::template make<typename F::value>(home));
            w.unspec[i] = w.unspec[j];
            w.unspec[j] = true;
        }
        break;
    case K_DESTROY:
        w.c[i].reset();
        w.unspec[i] = false;
        break;
    }
}

//=== one program ===//
struct prog_out;
using run_fn_t = void (*)(const std::vector<int>&, prog_out&);
struct prog_out
{
    std::vector<int>  enabled;
    std::vector<viol> viols;
    bool              prune = false;
    u64               sig   = 0;
    long              cross_ops = 0, two_ops = 0, allocs = 0, releases = 0, arrays = 0, eq_checked = 0, false_equal = 0,
         excluded = 0, content_checked = 0, ops = 0;
    std::size_t max_live = 0;
    bool        tainted  = false;
};

template <class F, class P>
struct state_info
{
    int  owner[3]  = {-1, -1, -1};
    bool lib_eq[3][3];
};

// compare a == b for all std_allocators of the live slots with the ground truth (same allocator object)
template <class F, class P>
void check_state(world<F, P>& w, state_info<F, P>& si, prog_out& out, const char* mode_tag_false_equal,
                 const char* mode_tag_other)
{
    if constexpr (F::has_alloc)
    {
        for (int i = 0; i < 3; ++i)
            si.owner[i] = w.c[i] ? owner_of<P>(F::get_alloc(*w.c[i])) : -1;
        for (int i = 0; i < 3; ++i)
            for (int j = 0; j < 3; ++j)
            {
                si.lib_eq[i][j] = false;
                if (!w.c[i] || !w.c[j])
                    continue;
                auto                                ai = F::get_alloc(*w.c[i]);
                auto                                aj = F::get_alloc(*w.c[j]);
                typename P::template alloc<char>    ri(ai); // rebound copy
                bool                                eq = (ai == aj), ne = (ai != aj), req = (ri == aj);
                bool                                truth = si.owner[i] == si.owner[j];
                si.lib_eq[i][j]                           = eq;
                ++out.eq_checked;
                if (si.owner[i] < 0 || si.owner[j] < 0)
                    add_viol("probe-failed", fmt("std_allocator of c%d/c%d did not reach any instrumented allocator", i, j));
                if (eq == ne || eq != req)
                    add_viol(mode_tag_other, fmt("inconsistent comparison for the allocators of c%d and c%d: ==:%d !=:%d "
                                                 "rebound==:%d",
                                                 i, j, int(eq), int(ne), int(req)));
                else if (eq && !truth)
                {
                    ++out.false_equal;
                    if (!E.false_equal_reported) // (formatting the same text again for every pair and step is wasted time)
                        add_viol(mode_tag_false_equal,
                             fmt("allocators of c%d (memory goes to object %c) and c%d (object %c) compare EQUAL although "
                                 "they refer to different allocator objects",
                                 i, rawlog::name_of(si.owner[i]), j, rawlog::name_of(si.owner[j])));
                    E.false_equal_reported = true;
                }
                else if (!eq && truth)
                    add_viol(mode_tag_other,
                             fmt("allocators of c%d and c%d both refer to allocator object %c but compare UNEQUAL", i, j,
                                 rawlog::name_of(si.owner[i])));
            }
    }
}

template <class F, class PT>
void enabled_ops(world<F, PT>& w, state_info<F, PT>& si, prog_out& out)
{
    using C = typename world<F, PT>::C;
    out.enabled.clear();
    bool live[3];
    for (int i = 0; i < 3; ++i)
        live[i] = bool(w.c[i]);
    for (int k = 0; k < K_COUNT; ++k)
        for (int i = 0; i < 3; ++i)
        {
            if (!two_slot(k))
            {
                bool ok = false;
                switch (k)
                {
                case K_INSERT:
                    ok = live[i] || F::smart;
                    break;
                case K_ERASE:
                    if constexpr (F::direct)
                    {
                        auto& bl = C::blocks();
                        if (!bl.empty())
                        {
                            // precondition of deallocate: the object compares equal to the one that allocated
                            ok = (w.c[i]->a == bl.front().by);
                            if (!ok)
                                ++out.excluded;
                        }
                    }
                    else
                        ok = live[i] && F::has_erase;
                    break;
                case K_CLEAR:
                    ok = live[i] && F::has_clear;
                    break;
                case K_DESTROY:
                    ok = live[i] && F::destroyable;
                    break;
                case K_ALLOC2:
                    ok = F::direct;
                    break;
                case K_ALLOC0:
                    ok = F::direct || F::zero_length;
                    break;
                case K_BASE:
                    ok = F::base_convert;
                    break;
                case K_THROW:
                    for (int pos = 0; pos < F::throw_positions; ++pos)
                        out.enabled.push_back(op_code(k, i, pos));
                    break;
                }
                if (ok)
                    out.enabled.push_back(op_code(k, i, 0));
                continue;
            }
            for (int j = 0; j < 3; ++j)
            {
                if (i == j)
                    continue;
                bool ok = false;
                switch (k)
                {
                case K_COPY_ASSIGN:
                    ok = live[i] && live[j] && F::copyable;
                    break;
                case K_MOVE_ASSIGN:
                    ok = live[i] && live[j];
                    break;
                case K_SWAP:
                    ok = live[i] && live[j] && i < j;
                    break;
                case K_SPLICE:
                    if (F::has_splice && live[i] && live[j])
                    {
                        ok = si.lib_eq[i][j]; // the standard requires get_allocator() == x.get_allocator()
                        if (!ok)
                            ++out.excluded;
                    }
                    break;
                case K_COPY_CONSTRUCT:
                    ok = !live[i] && live[j] && F::copyable;
                    break;
                case K_MOVE_CONSTRUCT:
                    ok = !live[i] && live[j];
                    break;
                case K_COPY_CONSTRUCT_ALLOC:
                    ok = !live[i] && live[j] && F::copyable && F::alloc_ctor;
                    break;
                case K_MOVE_CONSTRUCT_ALLOC:
                    ok = !live[i] && live[j] && F::alloc_ctor;
                    break;
                case K_DERIVE:
                    ok = F::direct;
                    break;
                }
                if (ok)
                    out.enabled.push_back(op_code(k, i, j));
            }
        }
}

template <class F, class Raw>
void run_program_body(const std::vector<int>& ops, prog_out& out)
{
    using PT               = pol_lib<Raw>;
    constexpr bool any     = std::is_same<Raw, fm::any_allocator>::value;
    const char*    tag_feq = any ? TAG_ANY_EQ : "std-allocator-equality";
    const char*    tag_oth = any ? "any-std-allocator-comparison" : "std-allocator-equality";
    E.reset();
    E.any_mode = any;
    if constexpr (F::direct)
        dslot<PT>::blocks().clear();

    auto* wt = new world<F, PT>;
    auto* wr = new world<F, pol_ref>;
    wt->init();
    if (F::differential)
        wr->init();
    state_info<F, PT> si;
    hasher            sig;
    bool              stop = false;
    int               last_k = -1, last_i = 0, last_j = 0, prev_owner[3] = {-1, -1, -1};

    auto observe = [&](int step) {
        check_state(*wt, si, out, tag_feq, tag_oth);
        if constexpr (F::has_alloc)
            if (step > 0)
            {
                // a std_allocator keeps referring to its allocator object unless it is itself assigned / swapped /
                // (re)constructed; operations on OTHER objects must not re-route it
                for (int s = 0; s < 3; ++s)
                {
                    bool touched = (s == last_i && two_slot(last_k)) || (s == last_i && last_k == K_DESTROY)
                                   || (s == last_j && (last_k == K_SWAP || last_k == K_MOVE_ASSIGN || last_k == K_MOVE_CONSTRUCT
                                                       || last_k == K_MOVE_CONSTRUCT_ALLOC));
                    if (!touched && wt->c[s] && prev_owner[s] >= 0 && si.owner[s] != prev_owner[s])
                        add_viol("allocator-rebound",
                                 fmt("the allocator of c%d referred to allocator object %c and now hands memory to object %c "
                                     "although step %d did not assign, swap or construct it",
                                     s, rawlog::name_of(prev_owner[s]), rawlog::name_of(si.owner[s]), step));
                }
                if (last_k == K_DERIVE && si.owner[last_i] != prev_owner[last_j])
                    add_viol("allocator-rebound",
                             fmt("an allocator constructed from c%d.get_allocator() (object %c) refers to object %c", last_j,
                                 rawlog::name_of(prev_owner[last_j]), rawlog::name_of(si.owner[last_i])));
            }
        if (F::differential)
        {
            std::vector<long> a, b;
            for (int i = 0; i < 3; ++i)
            {
                if (bool(wt->c[i]) != bool(wr->c[i]))
                {
                    add_viol("harness", "liveness differs between the two worlds");
                    continue;
                }
                if (!wt->c[i] || wt->unspec[i])
                    continue;
                a.clear();
                b.clear();
                F::contents(*wt->c[i], a);
                F::contents(*wr->c[i], b);
                ++out.content_checked;
                if (a != b)
                {
                    std::string sa, sb;
                    for (long x : a)
                        sa += fmt("%ld ", x);
                    for (long x : b)
                        sb += fmt("%ld ", x);
                    add_viol("contents", fmt("after step %d container c%d holds [%s] but the same program on std::allocator "
                                             "containers gives [%s]",
                                             step, i, sa.c_str(), sb.c_str()));
                }
            }
        }
        // everything except the (known) false equality of any_std_allocator ends the program
        for (auto& v : E.viols)
            if (!(any && v.tag == TAG_ANY_EQ))
                stop = true;
    };

    observe(0);
    int step = 0;
    for (int code : ops)
    {
        if (stop)
            break;
        ++step;
        int k = code / 9, i = (code % 9) / 3, j = code % 3;
        if (E.verbose)
            std::printf("  step %d: %s\n", step, op_text(code, F::direct).c_str());
        bool cross = false, lib_equal = false; // the two allocators involved: different objects? compare equal?
        if constexpr (F::has_alloc)
        {
            if (two_slot(k))
            {
                bool home = (k == K_COPY_CONSTRUCT_ALLOC || k == K_MOVE_CONSTRUCT_ALLOC);
                int  oi   = home ? HOME[i]->id : si.owner[i];
                int  oj   = si.owner[j];
                // plain copy/move construction involves only the source's allocator
                if (k != K_COPY_CONSTRUCT && k != K_MOVE_CONSTRUCT && oi != oj)
                {
                    cross = true;
                    // assigning / swapping / deriving the allocator objects themselves (direct family) does not
                    // depend on their equality: only containers consult == in these operations
                    lib_equal = F::direct ? false
                                : home    ? (PT::template make<typename F::value>(*HOME[i]) == F::get_alloc(*wt->c[j]))
                                          : si.lib_eq[i][j];
                }
            }
        }
        else if (two_slot(k) && F::smart)
            cross = true; // pointees may come from different allocators; not tracked further
        if constexpr (F::direct)
            if (k == K_ERASE)
            {
                auto& bl  = dslot<PT>::blocks();
                cross     = !bl.empty() && owner_of<PT>(bl.front().by) != si.owner[i];
                lib_equal = true; // only enabled when the two allocator objects compare equal
            }
        if (two_slot(k))
            ++out.two_ops;
        if (cross)
        {
            ++out.cross_ops;
            if (any && lib_equal)
                E.tainted = true; // operation between allocators that FALSELY compare equal: what follows may be its consequence
        }
        sig.word(u64(k) * 2 + (cross ? 1 : 0));
        last_k = k;
        last_i = i;
        last_j = j;
        for (int s = 0; s < 3; ++s)
            prev_owner[s] = si.owner[s];
        apply(*wt, k, i, j, step);
        if (F::differential)
            apply(*wr, k, i, j, step);
        ++out.ops;
        observe(step);
    }
    if (!stop)
        enabled_ops(*wt, si, out);
    // teardown: everything is destroyed, nothing may stay outstanding
    if (E.verbose)
        std::printf("  teardown\n");
    if constexpr (F::direct)
    {
        auto& bl = dslot<PT>::blocks();
        for (auto& b : bl)
            b.by.deallocate(b.p, b.n);
        bl.clear();
    }
    for (int i = 0; i < 3; ++i)
        wt->c[i].reset();
    delete wt;
    delete wr;
    if (!E.live.empty())
    {
        auto& b = E.live.front();
        add_viol("outstanding", fmt("%zu block(s) never released after all objects were destroyed, first: %s size %zu from "
                                    "allocator object %c",
                                    E.live.size(), b.array ? "array" : "node", b.size, rawlog::name_of(b.owner)));
    }
    sig.word(E.releases ? 1 : 0);
    out.sig      = sig.get().a;
    out.allocs   = E.allocs;
    out.releases = E.releases;
    out.arrays   = E.arrays;
    out.max_live = E.max_live;
    out.tainted  = E.tainted;
}

template <class F, class Raw>
void run_program_caught(const std::vector<int>& ops, prog_out& out)
{
    try
    {
        run_program_body<F, Raw>(ops, out);
    }
    catch (std::exception& e)
    {
        add_viol("exception", std::string("exception escaped the program: ") + e.what());
    }
    catch (...)
    {
        add_viol("exception", "unknown exception escaped the program");
    }
}

template <class F, class Raw>
void run_program(const std::vector<int>& ops, prog_out& out)
{
    int    oc = OUT_OK;
    run_fn_t fn = &run_program_caught<F, Raw>;
    VERIF_GUARDED(oc, fn(ops, out));
    if (oc != OUT_OK)
        add_viol(outcome_name(oc), std::string("program ") + outcome_name(oc));
    out.viols = E.viols;
    out.prune = false;
    for (auto& v : out.viols)
        if (v.tag != TAG_ANY_EQ)
            out.prune = true;
    if (oc != OUT_OK)
    {
        out.enabled.clear();
        E.live.clear(); // do not free memory of a broken run
    }
}

using run_fn = void (*)(const std::vector<int>&, prog_out&);
struct entry
{
    const char* family;
    const char* mode;
    run_fn      fn;
    bool        direct;
};
#define FAM(F)                                                                                                          \
    {F::name(), "std", &run_program<F, rawlog>, F::direct}, {F::name(), "any", &run_program<F, fm::any_allocator>, F::direct}, \
    {                                                                                                                   \
        F::name(), "shared", &run_program<F, sharedlog>, F::direct                                                      \
    }
static const entry TABLE[] = {FAM(F_list),   FAM(F_forward_list), FAM(F_set),    FAM(F_map),    FAM(F_unordered_set),
                              FAM(F_unordered_map), FAM(F_vector), FAM(F_deque), FAM(F_string), FAM(F_shared),
                              FAM(F_unique), FAM(F_unique_array), FAM(F_direct)};

//=== enumeration ===//
struct found
{
    std::string      tag, detail;
    std::vector<int> ops;
};

struct search_t
{
    const entry* e = nullptr;
    int          shard = 0, nshards = 1;
    double       deadline = 0;
    bool         timed_out = false;
    long         visits = 0;
    long         n2 = 0; // running index of depth-2 nodes (sharding key)
    long         evaluations = 0, ops = 0, cross_ops = 0, two_ops = 0, allocs = 0, releases = 0, arrays = 0, eq_checked = 0,
         false_equal = 0, excluded = 0, content_checked = 0, cross_programs = 0, tainted_programs = 0, violating = 0,
         pruned = 0;
    std::size_t                   max_live = 0;
    std::unordered_set<u64>       sigs;
    std::vector<found>            founds;
    std::vector<long>             per_depth;
    std::vector<std::string>      samples, errors;
    std::unordered_map<std::string, long> tag_counts;

    void record(const std::vector<int>& prefix, const prog_out& r)
    {
        for (auto& v : r.viols)
        {
            ++tag_counts[v.tag];
            // programs are visited in order of length: keep the first (= a shortest) program per tag and kind of detail
            int  same = 0;
            bool dup  = false;
            for (auto& f : founds)
                if (f.tag == v.tag)
                {
                    ++same;
                    if (f.detail.compare(0, 24, v.detail, 0, 24) == 0)
                        dup = true;
                }
            if (dup || same >= 3)
                continue;
            founds.push_back({v.tag, v.detail, prefix});
        }
    }

    void count(const std::vector<int>& prefix, const prog_out& r)
    {
        ++evaluations;
        ops += r.ops;
        cross_ops += r.cross_ops;
        two_ops += r.two_ops;
        allocs += r.allocs;
        releases += r.releases;
        arrays += r.arrays;
        eq_checked += r.eq_checked;
        false_equal += r.false_equal;
        excluded += r.excluded;
        content_checked += r.content_checked;
        if (r.cross_ops)
            ++cross_programs;
        if (r.tainted)
            ++tainted_programs;
        if (r.max_live > max_live)
            max_live = r.max_live;
        if (r.releases > 0)
            sigs.insert(r.sig);
        if (!r.viols.empty())
        {
            ++violating;
            record(prefix, r);
        }
        if (samples.size() < 3 && r.cross_ops && prefix.size() >= 3 && (evaluations % 97) == 0)
        {
            std::string s;
            for (int c : prefix)
                s += op_text(c, e->direct) + "; ";
            samples.push_back(s + fmt("=> %ld allocations, %ld releases, ", r.allocs, r.releases)
                              + (r.viols.empty() ? std::string("every release reached the allocator object that owns the block")
                                                 : fmt("%zu violation(s), first: %s", r.viols.size(), r.viols[0].tag.c_str())));
        }
    }

    // visit all programs of exactly length `level` (shorter ones are re-executed only to learn the enabled operations)
    void dfs(std::vector<int>& prefix, int level)
    {
        if (timed_out)
            return;
        int  d    = int(prefix.size());
        bool mine = true;
        if (d == 2)
            mine = (n2++ % nshards) == shard;
        else if (d < 2)
            mine = true; // executed by every shard, counted by shard 0 only
        if (!mine)
            return;
        prog_out r;
        e->fn(prefix, r);
        if ((++visits & 4095) == 0 && deadline > 0 && now_s() > deadline)
            timed_out = true;
        if (d == level)
        {
            if (d >= 2 || shard == 0)
                count(prefix, r);
            return;
        }
        if (r.prune)
        {
            ++pruned;
            return;
        }
        std::vector<int> en = r.enabled;
        for (int op : en)
        {
            prefix.push_back(op);
            dfs(prefix, level);
            prefix.pop_back();
            if (timed_out)
                return;
        }
    }
};

static std::vector<int> parse_ints(const char* s)
{
    std::vector<int> v;
    while (*s)
    {
        if (*s >= '0' && *s <= '9')
            v.push_back(int(std::strtol(s, const_cast<char**>(&s), 10)));
        else
            ++s;
    }
    return v;
}

int main(int argc, char** argv)
{
    std::string family = "list", mode = "std", tier = "quick", out, replay;
    bool        have_replay = false;
    int         depth = 3, shard = 0, nshards = 1, from_level = 0;
    double      deadline_s = 0, deadline_at = 0;
    for (int i = 1; i < argc; ++i)
    {
        std::string a = argv[i];
        auto        next = [&]() -> std::string { return i + 1 < argc ? argv[++i] : ""; };
        if (a == "--family")
            family = next();
        else if (a == "--mode")
            mode = next();
        else if (a == "--tier")
            tier = next();
        else if (a == "--out")
            out = next();
        else if (a == "--depth")
            depth = std::atoi(next().c_str());
        else if (a == "--from_level") // count only programs of length from_level..depth (shorter ones belong to another job)
            from_level = std::atoi(next().c_str());
        else if (a == "--deadline_s")
            deadline_s = std::atof(next().c_str());
        else if (a == "--deadline_at") // absolute (epoch seconds), shared by all jobs of one check run
            deadline_at = std::atof(next().c_str());
        else if (a == "--shard")
        {
            std::string s = next();
            std::sscanf(s.c_str(), "%d/%d", &shard, &nshards);
        }
        else if (a == "--replay")
        {
            replay      = next();
            have_replay = true;
        }
    }
    const entry* e = nullptr;
    for (auto& t : TABLE)
        if (family == t.family && mode == t.mode)
            e = &t;
    if (!e)
    {
        std::fprintf(stderr, "unknown family/mode %s/%s\n", family.c_str(), mode.c_str());
        return 2;
    }
    install_guards(2000);
    double t0 = now_s();

    if (have_replay)
    {
        std::vector<int> ops = parse_ints(replay.c_str());
        std::printf("family %s, allocators through %s; c0,c1 -> allocator object A, c2 -> allocator object B\nprogram:",
                    e->family, mode == "any"      ? "any_std_allocator<T>"
                    : mode == "shared" ? "std_allocator<T, sharedlog> (shared allocator, embedded by value)"
                                       : "std_allocator<T, rawlog>");
        for (int c : ops)
            std::printf(" %s;", op_text(c, e->direct).c_str());
        std::printf("\n");
        E.verbose = true;
        prog_out r;
        e->fn(ops, r);
        E.verbose = false;
        prog_out r2;
        e->fn(ops, r2);
        std::printf("executed %ld operation(s), %ld allocations, %ld releases\n", r.ops, r.allocs, r.releases);
        if (r.viols.empty())
        {
            std::printf("no violation\n");
            return 0;
        }
        for (auto& v : r.viols)
            std::printf("VIOLATION [%s] %s\n", v.tag.c_str(), v.detail.c_str());
        if (r2.viols.size() != r.viols.size())
            std::printf("(second run differs: %zu violation(s))\n", r2.viols.size());
        return 1;
    }

    search_t S;
    S.e        = e;
    S.shard    = shard;
    S.nshards  = nshards;
    S.deadline = deadline_at > 0 ? deadline_at : deadline_s > 0 ? t0 + deadline_s : 0;
    int completed = from_level - 1;
    for (int level = from_level; level <= depth; ++level)
    {
        long             before = S.evaluations;
        std::vector<int> prefix;
        S.n2 = 0;
        S.dfs(prefix, level);
        if (S.timed_out)
            break;
        S.per_depth.push_back(S.evaluations - before);
        completed = level;
    }

    // confirm every reported violation by running its program a second time
    jarr viols;
    for (auto& f : S.founds)
    {
        prog_out r;
        e->fn(f.ops, r);
        bool again = false;
        for (auto& v : r.viols)
            if (v.tag == f.tag)
                again = true;
        if (!again)
        {
            S.errors.push_back("violation [" + f.tag + "] did not reproduce on the second run");
            continue;
        }
        jarr in;
        for (int c : f.ops)
            in.raw(std::to_string(c));
        std::string prog;
        for (int c : f.ops)
            prog += op_text(c, e->direct) + "; ";
        viols.raw(jobj()
                      .str("tag", f.tag)
                      .str("detail", std::string(e->family) + "/" + e->mode + ": " + f.detail + " | program: " + (prog.empty() ? "(empty)" : prog))
                      .raw("input", in.done())
                      .done());
    }

    jarr samples;
    for (auto& s : S.samples)
        samples.str(std::string(e->family) + "/" + e->mode + ": " + s);
    jarr errs;
    for (auto& s : S.errors)
        errs.str(s);
    jarr pd;
    for (long n : S.per_depth)
        pd.raw(std::to_string(n));
    jobj tags;
    for (auto& kv : S.tag_counts)
        tags.num(kv.first, kv.second);
    jobj extra;
    extra.str("family", e->family)
        .str("mode", e->mode)
        .num("depth_requested", depth)
        .num("from_level", from_level)
        .num("depth_completed", completed)
        .raw("programs_per_depth", pd.done())
        .num("operations_executed", S.ops)
        .num("two_container_operations", S.two_ops)
        .num("operations_across_different_allocator_objects", S.cross_ops)
        .num("programs_with_cross_allocator_operation", S.cross_programs)
        .num("allocations_logged", S.allocs)
        .num("array_allocations_logged", S.arrays)
        .num("releases_checked", S.releases)
        .num("equality_comparisons_checked", S.eq_checked)
        .num("false_equal", S.false_equal)
        .num("content_comparisons", S.content_checked)
        .num("max_outstanding_blocks", long(S.max_live))
        .num("programs_with_violation", S.violating)
        .num("prefixes_not_extended_after_violation", S.pruned)
        .num("tainted_programs", S.tainted_programs)
        .raw("violations_by_tag", tags.done())
        .str("shard", fmt("%d/%d", shard, nshards));
    jobj o;
    o.num("evaluations", S.evaluations)
        .num("distinct_nontrivial", long(S.sigs.size()))
        .str("rule", "every sequence of enabled operations {insert, erase_first, clear, copy_assign, move_assign, swap, splice "
                     "(equal allocators only), copy/move construct into a dead slot (plain and with the slot's home allocator), "
                     "destroy} over three slots (c0,c1 -> allocator object A, c2 -> B) up to the completed depth is executed "
                     "from scratch, followed by destruction of everything; distinct_nontrivial = distinct sequences of "
                     "(operation kind, same/different allocator object) among programs that released at least one block")
        .raw("samples", samples.done())
        .boolean("exhaustive", completed == depth && !S.timed_out)
        .num("excluded", S.excluded)
        .dbl("wall_s", now_s() - t0)
        .raw("violations", viols.done())
        .raw("harness_errors", errs.done())
        .raw("extra", extra.done());
    std::string js = o.done();
    if (out.empty())
        std::printf("%s\n", js.c_str());
    else
    {
        FILE* f = std::fopen(out.c_str(), "w");
        if (!f)
            return 2;
        std::fputs(js.c_str(), f);
        std::fclose(f);
    }
    return 0;
}
