// Explorable system: static_allocator over static storage of any size (a pinned region of the upstream arena).
#include "asys.hpp"

#include <foonathan/memory/allocator_traits.hpp>
#include <foonathan/memory/static_allocator.hpp>

using namespace verif;

struct static_params
{
    std::size_t bs = 100;
    bool        tries = false;
    int         fam = 0;
    std::vector<std::pair<long, long>> reqs; // size x alignment
};
static static_params PP;

struct named_req
{
    alloc_req   r;
    std::string name, kind;
};
static std::vector<named_req> ALLOCS;

struct static_policy
{
    using object = fm::static_allocator;
    using traits = fm::allocator_traits<object>;
    using S      = asys<static_policy>;
    struct extra_t
    {
        u32 dummy;
    };
    static void init_extra(extra_t&) {}
    static void construct(void* where)
    {
        // the storage is a pinned region of the upstream arena owned by the constructing slot
        auto& up  = *g_up();
        void* mem = up.alloc(UP_BLOCK, 1, PP.bs, 16, 9);
        up.blk[up.nblk - 1].pad = 1;
        std::memset(mem, 0, PP.bs);
        auto& st = *static_cast<fm::static_allocator_storage<1>*>(mem);
        ::new (where) object(st);
        static_cast<object*>(where)->end_ = static_cast<char*>(mem) + PP.bs; // storage of run-time size
    }
    static int nbad()
    {
        return 0;
    }
    static std::string bad_kind(int)
    {
        return "";
    }
    template <class W>
    static std::string bad_name(W&, int, int)
    {
        return "";
    }
    template <class W>
    static bool bad_enabled(W&, int, int)
    {
        return false;
    }
    template <class W>
    static void bad_call(W&, int, int)
    {
    }
    template <class W>
    static u64 digest(W&, int)
    {
        return 0;
    }
    static bool fills_new()
    {
        return true;
    }
    static bool has_leak_check()
    {
        return false;
    }
    static std::size_t block_header()
    {
        return 0;
    }
    static int nalloc()
    {
        return int(ALLOCS.size());
    }
    static std::string alloc_name(int i)
    {
        return ALLOCS[i].name;
    }
    static std::string alloc_kind(int i)
    {
        return ALLOCS[i].kind;
    }
    static verif::alloc_req make_req(extra_t&, int, int i)
    {
        return ALLOCS[i].r;
    }
    static bool alloc_enabled(extra_t&, int, int)
    {
        return true;
    }
    static bool release_enabled(extra_t&, shadow_t<MAXL>&, int)
    {
        return false; // deallocation is a no-op, memory is never reused
    }
    static void* do_alloc(object& o, const verif::alloc_req& r)
    {
        if (r.fam == 0)
            return o.allocate_node(r.size, r.align);
        if (r.kind == 0)
            return traits::allocate_node(o, r.size, r.align);
        return traits::allocate_array(o, r.count, r.size, r.align);
    }
    static bool do_release(object&, void*, const live_t&, bool)
    {
        return true;
    }
    static int nextra()
    {
        return 0;
    }
    static std::string extra_kind(int)
    {
        return "";
    }
    static std::string extra_name(extra_t&, int)
    {
        return "";
    }
    static bool extra_enabled(extra_t&, shadow_t<MAXL>&, int, int)
    {
        return false;
    }
    template <class W>
    static void extra_apply(W&, int, int)
    {
    }
    static void after_alloc(extra_t&, const live_t&) {}
    static void after_release(extra_t&, const live_t&) {}
    static void after_move(extra_t&, int, int) {}
    static void after_swap(extra_t&) {}
    static void after_destroy(extra_t&, int s)
    {
        auto& up = *g_up();
        for (u32 i = 0; i < up.nblk;)
            if (up.blk[i].pad == 1 && up.blk[i].owner == u32(s))
            {
                std::memset(up.mem + up.blk[i].off, 0, up.blk[i].size);
                for (u32 k = i; k + 1 < up.nblk; ++k)
                    up.blk[k] = up.blk[k + 1];
                --up.nblk;
                std::memset(&up.blk[up.nblk], 0, sizeof(up_block));
            }
            else
                ++i;
    }
    struct obs
    {
        std::size_t maxnode;
        const char* top;
    };
    template <class W>
    static obs observe(W&, int s)
    {
        auto& o = S::obj(s);
        return {o.max_node_size(), o.stack_.top()};
    }
    template <class W>
    static void check_alloc(W& w, int s, const verif::alloc_req&, const live_t& l, const obs& before)
    {
        auto& t     = T();
        auto  after = observe(w, s);
        auto  p     = reinterpret_cast<const char*>(w.arena + l.off);
        std::size_t pad  = std::size_t(p - before.top) - cfg_fence;
        std::size_t used = before.maxnode - after.maxnode;
        if (after.maxnode > before.maxnode || used != l.bytes + 2 * cfg_fence + pad)
            t.fail("M-counters", "capacity-delta-alloc",
                   fmt("max_node_size() went from %zu to %zu for %u bytes with %zu padding", before.maxnode, after.maxnode, l.bytes, pad));
        if (l.bytes > before.maxnode)
            t.fail("M-maxima", "above-max-node-size", fmt("request of %u bytes succeeded, max_node_size() was %zu", l.bytes, before.maxnode));
        if (t.up_allocs)
            t.fail("M-try", "try-grew", "static allocator called the upstream");
    }
    template <class W>
    static void check_failed_alloc(W& w, int s, const verif::alloc_req& r, const obs& before, int ex)
    {
        auto& t     = T();
        auto  after = observe(w, s);
        if (after.maxnode != before.maxnode)
            t.fail("M-counters", "capacity-changed-by-failed-alloc", "failed allocation changed max_node_size()");
        std::size_t bytes = r.kind ? r.count * r.size : r.size;
        std::size_t need  = bytes + 2 * cfg_fence;
        std::size_t al    = r.align ? r.align : 1;
        std::uintptr_t a  = reinterpret_cast<std::uintptr_t>(before.top) + cfg_fence;
        std::size_t pad   = (al - a % al) % al;
        if (need + pad <= before.maxnode)
            t.fail("M-fail", "refused-although-fits", fmt("request of %zu bytes (incl. fences and padding) refused although %zu were left", need + pad, before.maxnode));
        if (ex != EX_OOFM && ex != EX_OOM)
            t.fail("M-fail", "wrong-exception", "exhausted static storage must throw out_of_fixed_memory");
    }
    template <class W>
    static void check_release(W&, int, const live_t&, const obs&)
    {
    }
    template <class W>
    static void check_structure(W& w, int s)
    {
        auto& o = S::obj(s);
        if (o.stack_.top() > o.end_)
            T().fail("M-inside", "top-outside-block", "static allocator cursor past the end of its storage");
        (void)w;
    }
};

static void build_allocs()
{
    ALLOCS.clear();
    for (auto& sa : PP.reqs)
    {
        alloc_req r{};
        r.kind  = 0;
        r.count = 1;
        r.size  = u32(sa.first);
        r.align = u32(sa.second);
        r.fam   = u8(PP.fam);
        if (PP.fam == 0)
            ALLOCS.push_back({r, fmt("allocate_node(%ld,%ld)", sa.first, sa.second), "node"});
        else
        {
            ALLOCS.push_back({r, fmt("traits::allocate_node(%ld,%ld)", sa.first, sa.second), "node"});
            alloc_req a2 = r;
            a2.kind      = 1;
            a2.count     = 2;
            ALLOCS.push_back({a2, fmt("traits::allocate_array(2,%ld,%ld)", sa.first, sa.second), "array"});
        }
    }
}

int main(int argc, char** argv)
{
    argmap a(argc, argv);
    read_common(a);
    PP.bs = std::size_t(a.n("bs", 100));
    std::string fam = a.s("fam", "member");
    PP.fam = fam == "member" ? 0 : 1;
    {
        std::string v = a.s("reqs", "8x8,5x1");
        std::size_t p = 0;
        while (p < v.size())
        {
            auto e = v.find(',', p);
            if (e == std::string::npos)
                e = v.size();
            auto x = v.find('x', p);
            if (x != std::string::npos && x < e)
                PP.reqs.push_back({std::atol(v.substr(p, x - p).c_str()), std::atol(v.substr(x + 1, e - x - 1).c_str())});
            p = e + 1;
        }
    }
    build_allocs();
    return run_system<asys<static_policy>>(a, a.s("name", fmt("static/%zu", PP.bs)));
}
