// C08 part 1: sibling composable allocators over ONE first-fit upstream; every try_deallocate_*(A, p, shape)
// for every allocator A and every live pointer p of every sibling.
#ifndef VERIF_COMPOSE_SIB_HPP
#define VERIF_COMPOSE_SIB_HPP

#include "compose_common.hpp"

namespace c08
{
    enum
    {
        K_POOL  = 1,
        K_COLL  = 2,
        K_STACK = 3,
        K_ITER  = 4,
        K_RAW   = 5
    };
    template <class T>
    struct kind_of;
    template <class P, class B>
    struct kind_of<fm::memory_pool<P, B>>
    {
        static constexpr int value = K_POOL;
    };
    template <class P, class D, class B>
    struct kind_of<fm::memory_pool_collection<P, D, B>>
    {
        static constexpr int value = K_COLL;
    };
    template <class B>
    struct kind_of<fm::memory_stack<B>>
    {
        static constexpr int value = K_STACK;
    };
    template <std::size_t N, class B>
    struct kind_of<fm::iteration_allocator<N, B>>
    {
        static constexpr int value = K_ITER;
    };

    alignas(64) static u8 g_objmem[3][1024];

    struct ISib
    {
        int         id = 0, kind = 0;
        std::string name;
        shape       ns, as;
        bool        en[4] = {true, true, true, true}; // try_node, try_array, grow_node, grow_array
        virtual ~ISib() {}
        virtual void construct()                                = 0;
        virtual void destroy()                                  = 0;
        virtual void* do_alloc(int k, bool& threw)              = 0;
        virtual bool  do_try_dealloc(void* p, const shape& s)   = 0;
        virtual void  digest(hasher& h)                         = 0;
        virtual long  cap(const shape& s)                       = 0; // nodes (pools) / bytes (stacks)
        virtual long  release_delta(const shape& s)             = 0; // expected growth of cap(s) when s is released
        virtual int   iterations()                              // N of an iteration_allocator<N>, 0 otherwise
        {
            return 0;
        }
        virtual int  cur_iteration()
        {
            return 0;
        }
        virtual void next_iteration() {}
    };

    template <class A>
    struct Sib : ISib
    {
        using T = fm::allocator_traits<A>;
        using C = fm::composable_allocator_traits<A>;
        std::function<A*(void*, int)> make;
        A*                            a = nullptr;

        void construct() override
        {
            static_assert(sizeof(A) <= sizeof(g_objmem[0]), "object storage too small");
            std::memset(g_objmem[id], 0, sizeof(A));
            a = make(g_objmem[id], id);
        }
        void destroy() override
        {
            if (a)
                a->~A();
            a = nullptr;
        }
        void* do_alloc(int k, bool& threw) override
        {
            try
            {
                switch (k)
                {
                case 0:
                    return C::try_allocate_node(*a, ns.size, ns.align);
                case 1:
                    return C::try_allocate_array(*a, as.count, as.size, as.align);
                case 2:
                    return T::allocate_node(*a, ns.size, ns.align);
                default:
                    return T::allocate_array(*a, as.count, as.size, as.align);
                }
            }
            catch (...)
            {
                threw = true;
                return nullptr;
            }
        }
        bool do_try_dealloc(void* p, const shape& s) override
        {
            return s.array ? C::try_deallocate_array(*a, p, s.count, s.size, s.align) : C::try_deallocate_node(*a, p, s.size, s.align);
        }
        void digest(hasher& h) override
        {
            h.bytes(a, sizeof(A));
            h.word(u64(cap(ns)));
            h.word(u64(cap(as)));
        }
        long cap(const shape& s) override
        {
            if constexpr (kind_of<A>::value == K_POOL)
                return long(a->capacity_left() / a->node_size());
            else if constexpr (kind_of<A>::value == K_COLL)
                return s.size <= a->max_node_size() ? long(a->pool_capacity_left(s.size)) : -1;
            else
                return long(a->capacity_left());
        }
        int iterations() override
        {
            if constexpr (kind_of<A>::value == K_ITER)
                return int(A::max_iterations());
            else
                return 0;
        }
        int cur_iteration() override
        {
            if constexpr (kind_of<A>::value == K_ITER)
                return int(a->cur_iteration());
            else
                return 0;
        }
        void next_iteration() override
        {
            if constexpr (kind_of<A>::value == K_ITER)
                a->next_iteration();
        }
        long release_delta(const shape& s) override
        {
            if constexpr (kind_of<A>::value == K_POOL)
                return long((s.bytes() + a->node_size() - 1) / a->node_size());
            else if constexpr (kind_of<A>::value == K_COLL)
            {
                auto nsz = a->pools_.get(s.size).node_size();
                return long((s.bytes() + nsz - 1) / nsz);
            }
            else
                return 0;
        }
    };

    //=== sibling factories ===//
    template <class P>
    ISib* mk_pool(const char* nm, std::size_t node_size, std::size_t nodes, shape n, shape a, bool arrays)
    {
        using A  = fm::memory_pool<P, vblk>;
        auto s   = new Sib<A>();
        s->kind  = K_POOL;
        auto bs  = r16(A::min_block_size(node_size, nodes));
        s->name  = fmt("%s(node %zu, block %zu bytes)", nm, node_size, bs);
        s->ns    = n;
        s->as    = a;
        s->en[1] = true; // try_allocate_array of a pool without array support must return null
        s->en[3] = arrays;
        s->make  = [=](void* mem, int id) { return ::new (mem) A(node_size, bs, id); };
        return s;
    }
    template <class P, class D>
    ISib* mk_coll(const char* nm, std::size_t max_node, std::size_t bs, shape n, shape a, bool arrays)
    {
        using A  = fm::memory_pool_collection<P, D, vblk>;
        auto s   = new Sib<A>();
        s->kind  = K_COLL;
        s->name  = fmt("%s(max node %zu, block %zu)", nm, max_node, bs);
        s->ns    = n;
        s->as    = a;
        s->en[3] = arrays;
        s->make  = [=](void* mem, int id) { return ::new (mem) A(max_node, r16(bs), id); };
        return s;
    }
    inline ISib* mk_stack(std::size_t bs, shape n, shape a)
    {
        using A = fm::memory_stack<vblk>;
        auto s  = new Sib<A>();
        s->kind = K_STACK;
        s->name = fmt("memory_stack(block %zu)", bs);
        s->ns   = n;
        s->as   = a;
        s->make = [=](void* mem, int id) { return ::new (mem) A(r16(bs), id); };
        return s;
    }
    template <std::size_t NI = 2>
    ISib* mk_iter(std::size_t bs, shape n, shape a)
    {
        using A = fm::iteration_allocator<NI, vblk>;
        auto s  = new Sib<A>();
        s->kind = K_ITER;
        s->name = fmt("iteration_allocator<%zu>(block %zu)", NI, bs);
        s->ns   = n;
        s->as   = a;
        s->make = [=](void* mem, int id) { return ::new (mem) A(r16(bs), id); };
        return s;
    }

    struct sib_scenario
    {
        std::string name;
        ISib*       s[3];
    };

    inline std::vector<sib_scenario> sib_scenarios()
    {
        auto N = node_shape;
        auto R = array_shape;
        std::vector<sib_scenario> v;
        v.push_back({"pool_node",
                     {mk_pool<fm::node_pool>("memory_pool<node_pool>", 16, 3, N(16, 8), R(2, 16, 8), true),
                      mk_pool<fm::node_pool>("memory_pool<node_pool>", 16, 2, N(16, 8), R(2, 16, 8), true),
                      mk_pool<fm::node_pool>("memory_pool<node_pool>", 32, 2, N(16, 8), R(3, 16, 8), true)}});
        v.push_back({"pool_array",
                     {mk_pool<fm::array_pool>("memory_pool<array_pool>", 16, 4, N(8, 8), R(3, 8, 8), true),
                      mk_pool<fm::array_pool>("memory_pool<array_pool>", 16, 3, N(16, 8), R(2, 16, 8), true),
                      mk_pool<fm::array_pool>("memory_pool<array_pool>", 8, 6, N(8, 8), R(3, 8, 8), true)}});
        v.push_back({"pool_small",
                     {mk_pool<fm::small_node_pool>("memory_pool<small_node_pool>", 8, 3, N(8, 8), R(2, 8, 8), false),
                      mk_pool<fm::small_node_pool>("memory_pool<small_node_pool>", 8, 2, N(8, 8), R(2, 8, 8), false),
                      mk_pool<fm::small_node_pool>("memory_pool<small_node_pool>", 16, 3, N(8, 8), R(2, 8, 8), false)}});
        v.push_back({"pool_mixed",
                     {mk_pool<fm::node_pool>("memory_pool<node_pool>", 16, 2, N(16, 8), R(2, 16, 8), true),
                      mk_pool<fm::array_pool>("memory_pool<array_pool>", 16, 3, N(16, 8), R(2, 16, 8), true),
                      mk_pool<fm::small_node_pool>("memory_pool<small_node_pool>", 16, 2, N(16, 8), R(2, 16, 8), false)}});
        v.push_back({"coll_identity",
                     {mk_coll<fm::node_pool, fm::identity_buckets>("collection<node_pool,identity>", 12, 416, N(8, 8), R(3, 8, 8), true),
                      mk_coll<fm::array_pool, fm::identity_buckets>("collection<array_pool,identity>", 12, 416, N(12, 8), R(2, 12, 8), true),
                      mk_coll<fm::small_node_pool, fm::identity_buckets>("collection<small_node_pool,identity>", 8, 1536, N(8, 8), R(2, 8, 8), false)}});
        v.push_back({"coll_log2",
                     {mk_coll<fm::node_pool, fm::log2_buckets>("collection<node_pool,log2>", 16, 192, N(16, 8), R(2, 8, 8), true),
                      mk_coll<fm::array_pool, fm::log2_buckets>("collection<array_pool,log2>", 32, 288, N(24, 16), R(2, 24, 16), true),
                      mk_coll<fm::small_node_pool, fm::log2_buckets>("collection<small_node_pool,log2>", 16, 1024, N(5, 1), R(2, 8, 8), false)}});
        v.push_back({"stack", {mk_stack(64, N(32, 8), R(2, 8, 8)), mk_stack(64, N(16, 8), R(2, 16, 8)), mk_stack(96, N(32, 8), R(3, 8, 8))}});
        v.push_back({"iter", {mk_iter<2>(64, N(16, 8), R(2, 8, 8)), mk_iter<3>(96, N(16, 16), R(2, 8, 8)), mk_iter<2>(96, N(8, 8), R(3, 8, 8))}});
        v.push_back({"mixed_a",
                     {mk_pool<fm::array_pool>("memory_pool<array_pool>", 16, 3, N(16, 8), R(2, 16, 8), true), mk_stack(64, N(16, 8), R(2, 16, 8)),
                      mk_coll<fm::array_pool, fm::log2_buckets>("collection<array_pool,log2>", 16, 192, N(16, 8), R(2, 8, 16), true)}});
        v.push_back({"mixed_b",
                     {mk_pool<fm::small_node_pool>("memory_pool<small_node_pool>", 16, 2, N(16, 8), R(2, 8, 8), false),
                      mk_stack(64, N(32, 8), R(2, 8, 8)), mk_iter(64, N(16, 8), R(2, 8, 8))}});
        v.push_back({"mixed_c",
                     {mk_iter<2>(64, N(16, 8), R(2, 8, 8)), mk_pool<fm::node_pool>("memory_pool<node_pool>", 16, 2, N(16, 8), R(2, 16, 8), true),
                      mk_iter<3>(144, N(16, 8), R(3, 8, 8))}});
        v.push_back({"mixed_d",
                     {mk_coll<fm::node_pool, fm::identity_buckets>("collection<node_pool,identity>", 12, 416, N(8, 16), R(2, 8, 16), true),
                      mk_pool<fm::array_pool>("memory_pool<array_pool>", 8, 4, N(8, 8), R(2, 8, 8), true), mk_stack(64, N(8, 8), R(4, 8, 8))}});
        return v;
    }

    //=== the system ===//
    // layout at construction (all adjacent, lowest address first): R0 | X | G1 | Y | Z ; raw allocations of the
    // alphabet go to the lowest free address, i.e. directly behind the last block.
    struct sib_system : system_t
    {
        sib_scenario sc;
        struct live_t
        {
            void* p;
            shape s;
            int   owner; // 0..2 sibling, OWNER_RAW raw upstream
            u32   pat;
            int   slot; // iteration_allocator: index of the internal stack that was active at allocation
        };
        std::vector<live_t> live;
        int                 raw_allocs = 0;
        u32                 next_pat   = 0;
        static constexpr int MAX_RAW   = 2;

        explicit sib_system(const sib_scenario& s) : sc(s)
        {
            for (int i = 0; i < 3; ++i)
                sc.s[i]->id = i;
        }
        std::string name() const override
        {
            return sc.name;
        }

        u64 digest_all()
        {
            hasher h;
            UP().digest(h);
            for (int i = 0; i < 3; ++i)
                sc.s[i]->digest(h);
            return h.get().a;
        }
        u64 state_key()
        {
            hasher h;
            h.word(digest_all());
            for (auto& l : live)
            {
                h.word(u64(UP().off(l.p)));
                h.word(u64(l.owner) | u64(l.s.array) << 8 | u64(l.s.count) << 16 | u64(l.s.size) << 32);
            }
            return h.get().a ^ h.get().b;
        }
        void add_live(void* p, const shape& s, int owner)
        {
            live_t l{p, s, owner, next_pat++, owner < 3 ? sc.s[owner]->cur_iteration() : 0};
            fill_pattern(p, s.bytes(), l.pat);
            live.push_back(l);
        }
        bool contents_ok(std::string& which)
        {
            for (std::size_t i = 0; i < live.size(); ++i)
                if (!check_pattern(live[i].p, live[i].s.bytes(), live[i].pat))
                {
                    which = fmt("live #%zu (owner %d, %s at offset %ld)", i, live[i].owner, live[i].s.str().c_str(), UP().off(live[i].p));
                    return false;
                }
            return true;
        }
        const char* owner_name(int o) const
        {
            static const char* n[] = {"X", "Y", "Z"};
            return o == OWNER_RAW ? "R" : n[o];
        }
        // relation of a foreign live range to the upstream blocks owned by A
        const char* relation(int A, const live_t& l, bool& older_block)
        {
            auto& u     = UP();
            long  off   = u.off(l.p);
            long  end   = off + long(l.s.bytes());
            long  slot  = -1; // end of the upstream slot for raw allocations
            older_block = false;
            if (l.owner == OWNER_RAW)
            {
                int bi = u.find(l.p, 1);
                if (bi >= 0)
                    slot = long(u.b[bi].off + u.b[bi].size);
            }
            if (l.owner == A)
            {
                // own: does it live in a block of A that is not A's newest one?
                int bi = u.find(l.p, 1);
                for (int i = 0; i < u.n; ++i)
                    if (u.b[i].owner == A && bi >= 0 && u.b[i].seq > u.b[bi].seq)
                        older_block = true;
                return "own";
            }
            const char* r = "foreign-elsewhere";
            for (int i = 0; i < u.n; ++i)
                if (u.b[i].owner == A)
                {
                    long bs = long(u.b[i].off), be = long(u.b[i].off + u.b[i].size);
                    if (off == be)
                        return "foreign-starts-at-own-block-end";
                    if (end == bs || slot == bs)
                        r = "foreign-ends-at-own-block-start";
                    else if (off > be && off < be + 64 && !std::strcmp(r, "foreign-elsewhere"))
                        r = "foreign-shortly-behind-own-block";
                }
            return r;
        }

        std::string op_name(int op)
        {
            static const char* kn[] = {"try_allocate_node", "try_allocate_array", "allocate_node", "allocate_array"};
            if (op == 12)
                return "R: raw upstream node (16 bytes)";
            if (op >= 13 && op <= 15)
                return fmt("%s.next_iteration()", owner_name(op - 13));
            if (op < 12)
            {
                auto& s = *sc.s[op / 4];
                int   k = op % 4;
                return fmt("%s.%s %s", owner_name(op / 4), kn[k], ((k & 1) ? s.as : s.ns).str().c_str());
            }
            int A = (op - 100) / 32, idx = (op - 100) % 32;
            return fmt("try_deallocate(%s, live #%d)", owner_name(A), idx);
        }

        void enabled(std::vector<int>& out)
        {
            out.clear();
            for (int s = 0; s < 3; ++s)
                for (int k = 0; k < 4; ++k)
                    if (sc.s[s]->en[k])
                        out.push_back(s * 4 + k);
            if (raw_allocs < MAX_RAW)
                out.push_back(12);
            for (int s = 0; s < 3; ++s)
                if (sc.s[s]->iterations() > 0)
                    out.push_back(13 + s);
            for (int A = 0; A < 3; ++A)
                for (std::size_t i = 0; i < live.size() && i < 32; ++i)
                    out.push_back(100 + A * 32 + int(i));
        }

        volatile int cur_step = -1;

        void body(const std::vector<int>& ops, outcome& out, bool verbose)
        {
            auto& u = UP();
            u.reset();
            live.clear();
            raw_allocs = 0;
            next_pat   = 0;
            cur_step   = -1;
            shape rs   = node_shape(8, 8);
            // layout R0 | X | G1 | Y | Z
            void* r0 = u.alloc(16, OWNER_RAW);
            sc.s[0]->construct();
            void* g1 = u.alloc(16, OWNER_RAW);
            sc.s[1]->construct();
            sc.s[2]->construct();
            add_live(r0, rs, OWNER_RAW);
            add_live(g1, rs, OWNER_RAW);
            if (verbose)
            {
                std::printf("scenario %s: X=%s, Y=%s, Z=%s\n", sc.name.c_str(), sc.s[0]->name.c_str(), sc.s[1]->name.c_str(), sc.s[2]->name.c_str());
                for (int i = 0; i < u.n; ++i)
                    std::printf("  upstream block [%u,%u) owner %s\n", u.b[i].off, u.b[i].off + u.b[i].size, owner_name(u.b[i].owner));
            }
            bool bad = false;
            for (std::size_t step = 0; step < ops.size() && !bad; ++step)
            {
                cur_step = int(step);
                counting() = int(step) >= count_from();
                int         op = ops[step];
                std::string res;
                if (op == 12)
                {
                    void* p = u.alloc(16, OWNER_RAW);
                    ++raw_allocs;
                    if (p)
                        add_live(p, rs, OWNER_RAW);
                    if (verbose) res = p ? fmt("offset %ld", u.off(p)) : "null";
                }
                else if (op >= 13 && op <= 15)
                {
                    // memory of an iteration_allocator<N> lives until next_iteration() was called N times: the call
                    // switches to the next internal stack and unwinds only that one
                    int   s = op - 13;
                    auto& S = *sc.s[s];
                    S.next_iteration();
                    int cur = S.cur_iteration();
                    std::size_t before = live.size();
                    live.erase(std::remove_if(live.begin(), live.end(), [&](const live_t& l) { return l.owner == s && l.slot == cur; }), live.end());
                    bump("p1_next_iteration");
                    if (before != live.size())
                        bump("p1_next_iteration_expired_allocations");
                    if (verbose) res = fmt("active stack %d, %zu allocation(s) expired", cur, before - live.size());
                }
                else if (op < 12)
                {
                    int   s = op / 4, k = op % 4;
                    auto& S     = *sc.s[s];
                    shape sh    = (k & 1) ? S.as : S.ns;
                    bool  threw = false;
                    int   nblk  = u.n;
                    void* p     = S.do_alloc(k, threw);
                    if (u.n > nblk)
                        bump("p1_growth_blocks");
                    if (p)
                    {
                        bump(k < 2 ? "p1_try_alloc_ok" : "p1_alloc_ok");
                        int bi = u.find(p, sh.bytes());
                        if (bi < 0 || u.b[bi].owner != s)
                        {
                            fail("handed-out-memory-outside-own-blocks",
                                 fmt("%s returned offset %ld (%zu bytes) which is not inside an upstream block owned by it (block owner %s)",
                                     op_name(op).c_str(), u.off(p), sh.bytes(), bi < 0 ? "none" : owner_name(u.b[bi].owner)));
                            bad = true;
                        }
                        for (auto& l : live)
                            if (!bad && static_cast<u8*>(p) < static_cast<u8*>(l.p) + l.s.bytes() && static_cast<u8*>(l.p) < static_cast<u8*>(p) + sh.bytes())
                            {
                                fail("handed-out-live-memory", fmt("%s returned offset %ld which overlaps a live allocation of %s at offset %ld",
                                                                   op_name(op).c_str(), u.off(p), owner_name(l.owner), u.off(l.p)));
                                bad = true;
                            }
                        if (!bad)
                            add_live(p, sh, s);
                        if (verbose) res = fmt("offset %ld", u.off(p));
                    }
                    else
                    {
                        bump(k < 2 ? "p1_try_alloc_null" : "p1_alloc_failed");
                        if (verbose) res = threw ? "exception" : "null";
                    }
                    if (counting()) class_keys().insert(fmt("%s|alloc|%d|%d|%d", sc.name.c_str(), s, k, p ? 1 : 0));
                }
                else
                {
                    int A = (op - 100) / 32, idx = (op - 100) % 32;
                    if (A > 2 || idx >= int(live.size()))
                    {
                        herror(fmt("operation %d not enabled at step %zu", op, step));
                        bad = true;
                        break;
                    }
                    live_t      l     = live[std::size_t(idx)];
                    auto&       S     = *sc.s[A];
                    bool        own   = l.owner == A;
                    bool        older = false;
                    const char* rel   = relation(A, l, older);
                    u64  d0   = digest_all();
                    long cap0 = S.cap(l.s);
                    bool r    = S.do_try_dealloc(l.p, l.s);
                    u64  d1   = digest_all();
                    long cap1 = S.cap(l.s);
                    bump("p1_try_dealloc_calls");
                    bump(own ? "p1_try_dealloc_own" : "p1_try_dealloc_foreign");
                    if (own && older)
                        bump("p1_own_pointer_in_older_block");
                    bool earlier_iter = own && S.iterations() > 0 && l.slot != S.cur_iteration();
                    if (earlier_iter)
                        bump("p1_own_pointer_of_earlier_iteration");
                    if (!std::strcmp(rel, "foreign-starts-at-own-block-end"))
                        bump("p1_foreign_at_block_end");
                    if (!std::strcmp(rel, "foreign-ends-at-own-block-start"))
                        bump("p1_foreign_ends_at_block_start");
                    if (counting()) class_keys().insert(fmt("%s|dealloc|A%d|%s|%d|%s%s|%d", sc.name.c_str(), A, owner_name(l.owner), int(l.s.array), rel,
                                            own && older ? "-older-block" : earlier_iter ? "-earlier-iteration" : "", r ? 1 : 0));
                    if (verbose) res = r ? "true" : "false";
                    if (r != own)
                    {
                        if (own)
                            fail("own-memory-not-recognised",
                                 fmt("%s=%s: try_deallocate_%s returned false for its own live %s at offset %ld%s", owner_name(A), S.name.c_str(),
                                     l.s.array ? "array" : "node", l.s.str().c_str(), u.off(l.p), older ? " (in an older block of the grown allocator)" : earlier_iter ? " (allocated in an earlier, still live iteration)" : ""));
                        else
                            fail("foreign-memory-accepted",
                                 fmt("%s=%s: try_deallocate_%s returned true for %s at offset %ld handed out by %s (%s)", owner_name(A), S.name.c_str(),
                                     l.s.array ? "array" : "node", l.s.str().c_str(), u.off(l.p), owner_name(l.owner), rel));
                        bad = true;
                    }
                    else if (!r)
                    {
                        if (d0 != d1 || cap0 != cap1)
                        {
                            fail("false-but-state-changed", fmt("%s: try_deallocate of foreign %s (owner %s, %s) returned false but capacity %ld -> %ld / memory digest %s",
                                                                owner_name(A), l.s.str().c_str(), owner_name(l.owner), rel, cap0, cap1, d0 != d1 ? "changed" : "same"));
                            bad = true;
                        }
                    }
                    else
                    {
                        long want = S.release_delta(l.s);
                        if (cap1 - cap0 != want)
                        {
                            fail("true-but-not-released", fmt("%s=%s: try_deallocate of own %s returned true, capacity went %ld -> %ld, expected +%ld",
                                                              owner_name(A), S.name.c_str(), l.s.str().c_str(), cap0, cap1, want));
                            bad = true;
                        }
                        live.erase(live.begin() + idx);
                    }
                }
                std::string which;
                if (!bad && !contents_ok(which))
                {
                    fail("live-contents-changed", fmt("after %s: %s no longer holds its byte pattern", op_name(op).c_str(), which.c_str()));
                    bad = true;
                }
                if (verbose)
                    std::printf("  step %zu: %-60s -> %s\n", step, op_name(op).c_str(), res.c_str());
                if (verbose || !vios().empty())
                    if (verbose)
                    out.trace += op_name(op) + " -> " + res + "; ";
            }
            cur_step = 1000;
            if (!bad)
            {
                enabled(out.next);
                out.state = state_key();
                for (int i = 2; i >= 0; --i)
                    sc.s[i]->destroy();
                // everything except the raw allocations must have gone back to the upstream
                for (int i = 0; i < u.n; ++i)
                    if (u.b[i].owner != OWNER_RAW)
                    {
                        fail("upstream-block-leaked", fmt("block at offset %u of %s outstanding after destruction", u.b[i].off, owner_name(u.b[i].owner)));
                        break;
                    }
            }
        }

        void run(const std::vector<int>& ops, outcome& out, bool verbose) override
        {
            vios().clear();
            int oc = OUT_OK;
            VERIF_GUARDED(oc, body(ops, out, verbose));
            if (oc != OUT_OK)
            {
                int         st = cur_step;
                std::string at = st < 0 ? "construction" : st >= 1000 ? "destruction" : fmt("step %d (%s)", st, op_name(ops[std::size_t(st)]).c_str());
                fail(outcome_name(oc), fmt("the library %s during %s of a sequence that respects all preconditions", outcome_name(oc), at.c_str()));
            }
            out.v = vios();
        }

        std::string describe(const std::vector<int>& ops) override
        {
            std::string s;
            for (int o : ops)
                s += op_name(o) + "; ";
            return s;
        }
    };
} // namespace c08

#endif
