// C16 (LIFO-only block sources) + C05 (static / fixed / virtual sources driven directly):
// exhaustive DFS over all sequences up to a depth of {allocate_block, arm upstream failure,
// deallocate_block(b) for every block b ever obtained} on static_block_allocator, fixed_block_allocator and
// virtual_block_allocator. A return is VALID iff b is the most recently obtained outstanding block; valid returns
// must never be reported and must make the same memory available again; every other return is INVALID and must be
// reported through the invalid-pointer handler (or stop the program) when pointer checking is compiled in.
#include "../engine/core.hpp"
#include "../engine/world.hpp"

#include <foonathan/memory/debugging.hpp>
#include <foonathan/memory/error.hpp>
#include <foonathan/memory/memory_arena.hpp>
#include <foonathan/memory/static_allocator.hpp>
#include <foonathan/memory/virtual_memory.hpp>

#include <map>
#include <set>

using namespace verif;
namespace fm = foonathan::memory;

constexpr bool cfg_ptr = FOONATHAN_MEMORY_DEBUG_POINTER_CHECK;

static int g_invptr = 0;
static void h_invptr(const fm::allocator_info&, const void*) noexcept
{
    ++g_invptr;
    guard_escape(OUT_REPORTED);
}

// raw allocator for fixed_block_allocator: malloc backed, can be told to fail, logs balance
struct flaky_raw
{
    using is_stateful = std::false_type;
    static int& fail_next()
    {
        static int f = 0;
        return f;
    }
    static std::map<void*, std::size_t>& live()
    {
        static std::map<void*, std::size_t> m;
        return m;
    }
    static int& foreign_frees()
    {
        static int n = 0;
        return n;
    }
    void* allocate_node(std::size_t size, std::size_t)
    {
        if (fail_next())
        {
            fail_next() = 0;
            throw upstream_failure();
        }
        void* p  = std::aligned_alloc(16, (size + 15) / 16 * 16);
        live()[p] = size;
        return p;
    }
    void deallocate_node(void* p, std::size_t, std::size_t) noexcept
    {
        auto it = live().find(p);
        if (it == live().end())
        {
            ++foreign_frees(); // released something this allocator does not have outstanding
            return;
        }
        live().erase(it);
        std::free(p);
    }
    void* allocate_array(std::size_t c, std::size_t s, std::size_t a)
    {
        return allocate_node(c * s, a);
    }
    void deallocate_array(void* p, std::size_t c, std::size_t s, std::size_t a) noexcept
    {
        deallocate_node(p, c * s, a);
    }
    std::size_t max_node_size() const
    {
        return std::size_t(-1);
    }
    std::size_t max_array_size() const
    {
        return std::size_t(-1);
    }
    std::size_t max_alignment() const
    {
        return 16;
    }
};

static fm::static_allocator_storage<256> g_storage;

struct src_static
{
    using type = fm::static_block_allocator;
    static const char* name()
    {
        return "static_block_allocator";
    }
    static type make()
    {
        std::memset(&g_storage, 0, sizeof g_storage);
        return type(64, g_storage);
    }
    static int capacity()
    {
        return 4;
    }
    static bool can_fail_upstream()
    {
        return false;
    }
};
struct src_fixed
{
    using type = fm::fixed_block_allocator<flaky_raw>;
    static const char* name()
    {
        return "fixed_block_allocator";
    }
    static type make()
    {
        for (auto& kv : flaky_raw::live())
            std::free(kv.first);
        flaky_raw::live().clear();
        flaky_raw::fail_next()     = 0;
        flaky_raw::foreign_frees() = 0;
        return type(64);
    }
    static int capacity()
    {
        return 1;
    }
    static bool can_fail_upstream()
    {
        return true;
    }
};
struct src_virtual
{
    using type = fm::virtual_block_allocator;
    static const char* name()
    {
        return "virtual_block_allocator";
    }
    static type make()
    {
        return type(fm::virtual_memory_page_size, 3);
    }
    static int capacity()
    {
        return 3;
    }
    static bool can_fail_upstream()
    {
        return false;
    }
};

struct result
{
    long        sequences = 0, steps = 0, valid_returns = 0, invalid_returns = 0, reported = 0, aborted = 0, failed_allocs = 0;
    std::set<std::string> classes;
    std::vector<std::string> samples;
    std::vector<std::string> vio_json;
    std::set<std::string>    vio_tags;
};

// op encoding: 0 = allocate_block, 1 = arm upstream failure, 2+k = deallocate_block(k-th block ever obtained)
template <class Src>
static std::string opname(int op)
{
    if (op == 0)
        return "allocate_block";
    if (op == 1)
        return "arm_upstream_failure";
    return fmt("deallocate_block(b%d)", op - 2);
}

template <class Src>
static std::string seq_str(const std::vector<int>& ops)
{
    std::string s;
    for (auto o : ops)
        s += (s.empty() ? "" : ";") + opname<Src>(o);
    return s;
}

// runs one sequence on a fresh source; returns "" if fine, else (tag|detail); sets n_obtained / terminal
template <class Src>
static std::string run_seq(const std::vector<int>& ops, int& n_obtained, bool& terminal, result* res, bool verbose)
{
    fm::set_invalid_pointer_handler(h_invptr);
    // heap object: after an invalid call the source is in an undefined state and is leaked instead of destroyed
    auto*                         srcp = new typename Src::type(Src::make());
    auto&                         src  = *srcp;
    std::vector<fm::memory_block> ever;        // every block ever obtained
    std::vector<int>              outstanding; // indices into ever, acquisition order
    std::vector<bool>             returned;
    terminal = false;
    std::string verdict;
    for (std::size_t i = 0; i < ops.size(); ++i)
    {
        int op = ops[i];
        if (res)
            ++res->steps;
        if (op == 1)
        {
            flaky_raw::fail_next() = 1;
            continue;
        }
        if (op == 0)
        {
            fm::memory_block b;
            volatile int     threw = 0;
            int oc = OUT_OK;
            VERIF_GUARDED(oc, {
                try
                {
                    b = src.allocate_block();
                }
                catch (std::bad_alloc&)
                {
                    threw = 1;
                }
            });
            if (oc != OUT_OK)
            {
                verdict = fmt("alloc-%s|allocate_block %s", outcome_name(oc), outcome_name(oc));
                break;
            }
            bool expect_fail = int(outstanding.size()) >= Src::capacity() || (Src::can_fail_upstream() && flaky_raw::fail_next() == 0 && false);
            if (threw)
            {
                if (res)
                    ++res->failed_allocs;
                flaky_raw::fail_next() = 0;
                if (verbose)
                    std::printf("  allocate_block -> exception\n");
                continue;
            }
            if (expect_fail)
            {
                verdict = "alloc-beyond-capacity|allocate_block succeeded although the source is exhausted";
                break;
            }
            if (!b.memory || b.size == 0)
            {
                verdict = "alloc-null|allocate_block returned an empty block";
                break;
            }
            // must not overlap an outstanding block
            for (int k : outstanding)
            {
                auto a0 = static_cast<char*>(ever[std::size_t(k)].memory), a1 = a0 + ever[std::size_t(k)].size;
                auto b0 = static_cast<char*>(b.memory), b1 = b0 + b.size;
                if (b0 < a1 && a0 < b1)
                    verdict = "alloc-overlap|allocate_block returned memory that overlaps an outstanding block";
            }
            if (!verdict.empty())
                break;
            // LIFO reuse: a block obtained right after a valid return has the same address as the returned one (static / virtual)
            ever.push_back(b);
            returned.push_back(false);
            outstanding.push_back(int(ever.size()) - 1);
            if (verbose)
                std::printf("  allocate_block -> b%zu = %p+%zu\n", ever.size() - 1, b.memory, b.size);
            continue;
        }
        int k = op - 2;
        if (k >= int(ever.size()))
        {
            verdict = "harness|deallocate of unknown block";
            break;
        }
        // blocks are identified by their memory: a block obtained again after a valid return is the same block
        bool valid = !outstanding.empty() && ever[std::size_t(outstanding.back())].memory == ever[std::size_t(k)].memory
                     && ever[std::size_t(outstanding.back())].size == ever[std::size_t(k)].size;
        bool was_returned = true;
        for (int q : outstanding)
            if (ever[std::size_t(q)].memory == ever[std::size_t(k)].memory)
                was_returned = false;
        g_invptr   = 0;
        int oc     = OUT_OK;
        VERIF_GUARDED(oc, src.deallocate_block(ever[std::size_t(k)]));
        if (verbose)
            std::printf("  deallocate_block(b%d) [%s] -> %s\n", k, valid ? "valid" : "INVALID", outcome_name(oc));
        if (valid)
        {
            if (res)
                ++res->valid_returns;
            if (oc != OUT_OK)
            {
                verdict = fmt("valid-return-%s|a valid (most recent outstanding) block return was %s", outcome_name(oc),
                              oc == OUT_REPORTED ? "reported as invalid" : outcome_name(oc));
                break;
            }
            returned[std::size_t(outstanding.back())] = true;
            outstanding.pop_back();
        }
        else
        {
            if (res)
                ++res->invalid_returns;
            terminal = true; // nothing is defined after an invalid call
            if (cfg_ptr)
            {
                if (oc == OUT_REPORTED)
                {
                    if (res)
                        ++res->reported;
                }
                else if (oc == OUT_ABORTED)
                {
                    if (res)
                        ++res->aborted;
                }
                else
                    verdict = fmt("invalid-return-%s|%s block return (%s) %s", oc == OUT_OK ? "not-reported" : outcome_name(oc),
                                  was_returned ? "double" : "out of order",
                                  was_returned ? "block is not outstanding" : "not the most recently obtained outstanding block",
                                  oc == OUT_OK ? "was accepted silently" : outcome_name(oc));
            }
            break;
        }
    }
    n_obtained = int(ever.size());
    // a fixed source must never release to its upstream something that is not outstanding
    if (verdict.empty() && !terminal && flaky_raw::foreign_frees())
        verdict = "upstream-foreign-release|the block source released memory to its upstream that was not outstanding";
    // give everything back (LIFO) so the next sequence starts clean
    if (verdict.empty() && !terminal)
        for (std::size_t i = outstanding.size(); i-- > 0;)
        {
            int oc = OUT_OK;
            VERIF_GUARDED(oc, src.deallocate_block(ever[std::size_t(outstanding[i])]));
            if (oc != OUT_OK)
            {
                verdict = fmt("valid-return-%s|returning all blocks in reverse order at the end was %s", outcome_name(oc), outcome_name(oc));
                break;
            }
        }
    if (verdict.empty() && !terminal)
    {
        int oc = OUT_OK;
        VERIF_GUARDED(oc, delete srcp);
        if (oc != OUT_OK)
            verdict = fmt("destructor-%s|destroying the block source after returning every block was %s", outcome_name(oc), outcome_name(oc));
    }
    return verdict;
}

template <class Src>
static void dfs(std::vector<int>& ops, int depth, result& res)
{
    int         n_obtained = 0;
    bool        terminal   = false;
    std::string v          = run_seq<Src>(ops, n_obtained, terminal, &res, false);
    ++res.sequences;
    if (!ops.empty())
        res.classes.insert(std::string(Src::name()) + ":" + std::to_string(ops.size()) + ":" + (terminal ? "invalid-end" : "valid") + ":" + std::to_string(n_obtained));
    if (res.samples.size() < 4 && ops.size() == 4 && (res.sequences % 37) == 0)
        res.samples.push_back(std::string(Src::name()) + ": " + seq_str<Src>(ops));
    if (!v.empty())
    {
        // confirm by a second run
        int  n2;
        bool t2;
        std::string v2 = run_seq<Src>(ops, n2, t2, nullptr, false);
        auto        bar = v.find('|');
        std::string tag = v.substr(0, bar), detail = v.substr(bar + 1);
        if (v2 != v)
            detail += " (NOT reproduced on a second run)";
        std::string key = std::string(Src::name()) + "/" + tag;
        if (res.vio_tags.insert(key).second)
        {
            jobj jv;
            jarr in;
            for (auto o : ops)
                in.raw(std::to_string(o));
            jobj input;
            input.str("source", Src::name()).raw("ops", in.done());
            jv.str("tag", key).str("detail", detail + " | sequence: " + seq_str<Src>(ops)).raw("input", input.done());
            res.vio_json.push_back(jv.done());
        }
        return;
    }
    if (terminal || depth == 0)
        return;
    int nops = 2 + n_obtained;
    for (int op = 0; op < nops; ++op)
    {
        if (op == 1 && !Src::can_fail_upstream())
            continue;
        if (op == 1 && !ops.empty() && ops.back() == 1)
            continue;
        ops.push_back(op);
        dfs<Src>(ops, depth - 1, res);
        ops.pop_back();
    }
}

int main(int argc, char** argv)
{
    std::map<std::string, std::string> a;
    for (int i = 1; i + 1 < argc; i += 2)
        a[argv[i]] = argv[i + 1];
    install_guards(2000);
    if (a.count("--replay"))
    {
        // {"source":"...","ops":[...]}
        std::string      js = a["--replay"];
        std::vector<int> ops;
        auto             p = js.find("[");
        while (p != std::string::npos && p < js.size())
        {
            ++p;
            while (p < js.size() && (js[p] == ' ' || js[p] == ','))
                ++p;
            if (p >= js.size() || js[p] == ']')
                break;
            ops.push_back(std::atoi(js.c_str() + p));
            while (p < js.size() && js[p] != ',' && js[p] != ']')
                ++p;
            if (js[p] == ']')
                break;
        }
        int         n;
        bool        t;
        std::string v;
        if (js.find("static") != std::string::npos)
            v = run_seq<src_static>(ops, n, t, nullptr, true);
        else if (js.find("fixed") != std::string::npos)
            v = run_seq<src_fixed>(ops, n, t, nullptr, true);
        else
            v = run_seq<src_virtual>(ops, n, t, nullptr, true);
        std::printf("verdict: %s\n", v.empty() ? "ok" : v.c_str());
        return v.empty() ? 0 : 1;
    }
    std::freopen("/dev/null", "w", stderr);
    double t0    = now_s();
    int    depth = a.count("--tier") && a["--tier"] == "thorough" ? 7 : 5;
    if (a.count("--depth"))
        depth = std::atoi(a["--depth"].c_str());
    result           res;
    std::vector<int> ops;
    dfs<src_static>(ops, depth, res);
    dfs<src_fixed>(ops, depth, res);
    dfs<src_virtual>(ops, depth > 6 ? 6 : depth, res);
    jobj o;
    jarr sm, vs;
    for (auto& s : res.samples)
        sm.str(s);
    for (auto& v : res.vio_json)
        vs.raw(v);
    jobj extra;
    extra.num("steps", res.steps).num("valid_returns", res.valid_returns).num("invalid_returns", res.invalid_returns).num("reported", res.reported)
        .num("aborted", res.aborted).num("failed_allocs", res.failed_allocs).num("depth", depth).boolean("pointer_check", cfg_ptr);
    o.num("evaluations", res.sequences).num("distinct_nontrivial", (long long)res.classes.size())
        .str("rule", "all sequences up to the depth over {allocate_block, arm upstream failure (fixed source), deallocate_block(b) for every block ever obtained} on "
                     "static/fixed/virtual block sources; distinct = (source, length, ends with an invalid return?, blocks obtained)")
        .raw("samples", sm.done()).boolean("exhaustive", true).num("excluded", 0).dbl("wall_s", now_s() - t0).raw("violations", vs.done()).raw("extra", extra.done());
    std::string out = a.count("--out") ? a["--out"] : "";
    if (!out.empty())
    {
        FILE* f = std::fopen(out.c_str(), "w");
        std::fputs(o.done().c_str(), f);
        std::fputc('\n', f);
        std::fclose(f);
    }
    else
        std::printf("%s\n", o.done().c_str());
    return 0;
}
