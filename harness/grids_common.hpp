// Shared pieces of the two input-grid harnesses (h_minblock.cpp: C18 part a, h_sweep.cpp: C02 part b):
//  - command line / tiny JSON field reader (replay inputs are flat objects of integers and strings)
//  - quiet library handlers with counters
//  - a LOGGING BlockAllocator (block_source + log_block_allocator): every upstream block request and
//    release is recorded, placement inside one backing buffer is a pure function of the request sequence
//  - cheap per-case containment (sigsetjmp without signal mask) on top of engine/core.hpp
//  - result collection and the JSON report of the harness protocol
#ifndef VERIF_GRIDS_COMMON_HPP
#define VERIF_GRIDS_COMMON_HPP

#include "../engine/core.hpp"

#include <map>
#include <new>
#include <set>
#include <string>
#include <vector>

#include <foonathan/memory/config.hpp>
#include <foonathan/memory/debugging.hpp>
#include <foonathan/memory/error.hpp>
#include <foonathan/memory/memory_arena.hpp>

namespace grids
{
    using namespace verif;
    namespace fm = foonathan::memory;

    constexpr std::size_t FENCE = fm::detail::debug_fence_size;

    //=== command line ===//
    struct argmap
    {
        std::map<std::string, std::string> m;
        argmap(int argc, char** argv)
        {
            for (int i = 1; i < argc; ++i)
            {
                std::string a = argv[i];
                if (a.rfind("--", 0) != 0)
                    continue;
                std::string v = "1";
                if (i + 1 < argc && std::string(argv[i + 1]).rfind("--", 0) != 0)
                    v = argv[++i];
                m[a.substr(2)] = v;
            }
        }
        bool has(const char* k) const
        {
            return m.count(k) != 0;
        }
        std::string str(const char* k, const char* def = "") const
        {
            auto it = m.find(k);
            return it == m.end() ? std::string(def) : it->second;
        }
        long num(const char* k, long def) const
        {
            auto it = m.find(k);
            return it == m.end() ? def : std::atol(it->second.c_str());
        }
    };

    // flat JSON object reader: {"k":123,"s":"txt"}
    inline bool jfind(const std::string& js, const char* key, std::size_t& pos)
    {
        std::string k = std::string("\"") + key + "\"";
        auto        p = js.find(k);
        if (p == std::string::npos)
            return false;
        p = js.find(':', p + k.size());
        if (p == std::string::npos)
            return false;
        ++p;
        while (p < js.size() && (js[p] == ' '))
            ++p;
        pos = p;
        return true;
    }
    inline long jnum(const std::string& js, const char* key, long def = 0)
    {
        std::size_t p;
        if (!jfind(js, key, p))
            return def;
        return std::atol(js.c_str() + p);
    }
    inline std::string jstr(const std::string& js, const char* key, const char* def = "")
    {
        std::size_t p;
        if (!jfind(js, key, p) || js[p] != '"')
            return def;
        auto e = js.find('"', p + 1);
        return js.substr(p + 1, e - p - 1);
    }

    //=== quiet handlers ===//
    struct handler_counts
    {
        long oom = 0, badsize = 0, leak = 0, invptr = 0, overflow = 0;
    };
    inline handler_counts& hc()
    {
        static handler_counts c;
        return c;
    }
    inline void h_oom(const fm::allocator_info&, std::size_t) noexcept
    {
        ++hc().oom;
    }
    inline void h_badsize(const fm::allocator_info&, std::size_t, std::size_t) noexcept
    {
        ++hc().badsize;
    }
    inline void h_leak(const fm::allocator_info&, std::ptrdiff_t) noexcept
    {
        ++hc().leak;
    }
    inline void h_invptr(const fm::allocator_info&, const void*) noexcept
    {
        ++hc().invptr; // returns: the library continues (documented for custom handlers)
    }
    inline void h_overflow(const void*, std::size_t, const void*) noexcept
    {
        ++hc().overflow;
    }
    inline void install_quiet_handlers()
    {
        fm::out_of_memory::set_handler(h_oom);
        fm::bad_allocation_size::set_handler(h_badsize);
        fm::set_leak_handler(h_leak);
        fm::set_invalid_pointer_handler(h_invptr);
        fm::set_buffer_overflow_handler(h_overflow);
    }

    //=== logging block source ===//
    // One backing buffer (malloc'ed once, page aligned); block k of a case is placed at a fixed slot so that the
    // address of every block - hence every pointer the library computes - is the same whenever the case is run.
    struct block_source
    {
        struct rec
        {
            char*       p;
            std::size_t size;
            bool        live;
        };
        static const int MAXB = 8;

        char*       base      = nullptr;
        std::size_t cap       = 0;
        std::size_t slot      = 0;    // distance between block slots (0: pack blocks one after the other)
        std::size_t phase1    = 0;    // extra offset of blocks 1.. inside their slot (multiple of 16)
        std::size_t cur       = 0;    // packing cursor (slot == 0)
        std::size_t next_size = 0;    // size of blocks after the first (0: same as the first)
        int         max_blocks = MAXB; // further requests fail with out_of_fixed_memory
        rec         recs[MAXB];
        int         nrec = 0;
        long        requests = 0, releases = 0, bad_releases = 0, refused = 0, fallback = 0;

        void init(std::size_t bytes)
        {
            cap = bytes;
            if (posix_memalign(reinterpret_cast<void**>(&base), 4096, bytes) != 0)
            {
                std::fprintf(stderr, "verif: cannot allocate backing buffer\n");
                std::_Exit(71);
            }
        }
        void reset(std::size_t slot_ = 0, std::size_t phase1_ = 0, std::size_t next_size_ = 0, int max_blocks_ = MAXB)
        {
            for (int i = 0; i < nrec; ++i)
                if (recs[i].p && (recs[i].p < base || recs[i].p >= base + cap))
                    std::free(recs[i].p); // fallback blocks
            nrec = 0;
            cur = 0;
            requests = releases = bad_releases = refused = 0;
            slot       = slot_;
            phase1     = phase1_;
            next_size  = next_size_;
            max_blocks = max_blocks_;
        }
        int live_blocks() const
        {
            int n = 0;
            for (int i = 0; i < nrec; ++i)
                n += recs[i].live;
            return n;
        }
        // is [p, p+n) inside one block handed out and not yet taken back?
        bool inside_live(const void* p, std::size_t n) const
        {
            auto c = static_cast<const char*>(p);
            for (int i = 0; i < nrec; ++i)
                if (recs[i].live && c >= recs[i].p && c + n <= recs[i].p + recs[i].size)
                    return true;
            return false;
        }
        int block_of(const void* p) const
        {
            auto c = static_cast<const char*>(p);
            for (int i = 0; i < nrec; ++i)
                if (recs[i].live && c >= recs[i].p && c < recs[i].p + recs[i].size)
                    return i;
            return -1;
        }
        fm::memory_block take(std::size_t size, const void* who)
        {
            ++requests;
            if (nrec >= max_blocks || nrec >= MAXB)
            {
                ++refused;
                throw fm::out_of_fixed_memory(fm::allocator_info("verif::block_source", who), size);
            }
            char* p;
            if (slot)
            {
                std::size_t off = std::size_t(nrec) * slot + (nrec ? phase1 : 0);
                p = (off + size <= cap && size + (nrec ? phase1 : 0) <= slot) ? base + off : nullptr;
            }
            else
            {
                std::size_t off = (cur + 15) & ~std::size_t(15);
                p = off + size <= cap ? base + off : nullptr;
                if (p)
                    cur = off + size;
            }
            if (!p)
            {
                ++fallback; // does not happen for the planned sizes; addresses are then malloc's
                p = static_cast<char*>(std::malloc(size ? size : 1));
                if (!p)
                    throw std::bad_alloc();
            }
            recs[nrec++] = {p, size, true};
            return {p, size};
        }
        void give(fm::memory_block b) noexcept
        {
            ++releases;
            for (int i = nrec - 1; i >= 0; --i)
                if (recs[i].live && recs[i].p == b.memory && recs[i].size == b.size)
                {
                    recs[i].live = false;
                    return;
                }
            ++bad_releases;
        }
    };

    // BlockAllocator handed to the arenas under test; all state lives in the block_source
    class log_block_allocator
    {
    public:
        log_block_allocator(std::size_t block_size, block_source* src) noexcept : src_(src), first_(block_size) {}

        fm::memory_block allocate_block()
        {
            return src_->take(next_block_size(), this);
        }
        void deallocate_block(fm::memory_block b) noexcept
        {
            src_->give(b);
        }
        std::size_t next_block_size() const noexcept
        {
            return (src_->nrec == 0 || src_->next_size == 0) ? first_ : src_->next_size;
        }

    private:
        block_source* src_;
        std::size_t   first_;
    };

// guarded region without saving the signal mask (no system call): handlers are installed with SA_NODEFER and
// an empty mask (engine/core.hpp), so nothing has to be restored when jumping out of one
#define GRID_GUARDED(outvar, body)                                                                 \
    do                                                                                             \
    {                                                                                              \
        auto& g__ = ::verif::guard();                                                              \
        g__.seq   = g__.seq + 1;                                                                   \
        int rc__  = sigsetjmp(g__.jmp, 0);                                                         \
        if (rc__ == 0)                                                                             \
        {                                                                                          \
            g__.active = 1;                                                                        \
            body;                                                                                  \
            g__.active = 0;                                                                        \
            outvar     = ::verif::OUT_OK;                                                          \
        }                                                                                          \
        else                                                                                       \
            outvar = rc__;                                                                         \
    } while (0)

    //=== report ===//
    struct violation
    {
        std::string tag, detail, input;
    };
    struct report
    {
        long long                evaluations = 0, excluded = 0;
        std::set<u64>            classes; // distinct non-trivial case classes that reached the oracle
        std::vector<std::string> samples;
        std::vector<violation>   violations;
        std::map<std::string, long long> viol_by_tag;
        std::vector<std::string> errors;
        std::map<std::string, long long> counters;
        std::string              rule;
        bool                     exhaustive = true;
        double                   t0 = now_s();

        void add_violation(const std::string& tag, const std::string& detail, const std::string& input)
        {
            ++viol_by_tag[tag];
            long long n = 0;
            for (auto& v : violations)
                n += v.tag == tag;
            if (n < 5 && violations.size() < 40) // a few witnesses per tag; totals are in extra
                violations.push_back({tag, detail, input});
        }
        void sample(const std::string& s, std::size_t max = 8)
        {
            if (samples.size() < max)
                samples.push_back(s);
        }
        void write(const std::string& path, const std::map<std::string, std::string>& extra_raw = {})
        {
            jarr js, jv, je;
            for (auto& s : samples)
                js.raw(s);
            for (auto& v : violations)
                jv.raw(jobj().str("tag", v.tag).str("detail", v.detail).raw("input", v.input).done());
            for (auto& e : errors)
                je.str(e);
            jobj ex;
            for (auto& c : counters)
                ex.num(c.first, c.second);
            jobj vt;
            for (auto& c : viol_by_tag)
                vt.num(c.first, c.second);
            ex.raw("violations_by_tag", vt.done());
            ex.num("handler_oom", hc().oom).num("handler_badsize", hc().badsize).num("handler_leak", hc().leak);
            ex.num("handler_invalid_pointer", hc().invptr).num("handler_overflow", hc().overflow);
            for (auto& e : extra_raw)
                ex.raw(e.first, e.second);
            jobj o;
            o.num("evaluations", evaluations).num("distinct_nontrivial", (long long)classes.size()).str("rule", rule);
            o.raw("samples", js.done()).boolean("exhaustive", exhaustive && errors.empty()).num("excluded", excluded);
            o.dbl("wall_s", now_s() - t0).raw("violations", jv.done()).raw("harness_errors", je.done());
            o.raw("extra", ex.done());
            if (path.empty())
            {
                std::puts(o.done().c_str());
                return;
            }
            FILE* f = std::fopen(path.c_str(), "w");
            if (!f)
            {
                std::fprintf(stderr, "cannot write %s\n", path.c_str());
                std::_Exit(72);
            }
            std::fputs(o.done().c_str(), f);
            std::fputc('\n', f);
            std::fclose(f);
        }
    };
} // namespace grids

#endif
