// Generic explorable system for the arena based allocators of foonathan/memory.
// A policy P describes one allocator kind (construction, allocation alphabet, release,
// kind specific operations and monitors); asys<P> supplies the world, the common operations
// (release, upstream fault, move construct / assign, swap, destroy) and the common monitors.
#ifndef VERIF_ASYS_HPP
#define VERIF_ASYS_HPP

#include <cstddef>
#include <functional>
#include <string>
#include <type_traits>
#include <vector>

#include "../engine/core.hpp"
#include "../engine/explore.hpp"
#include "../engine/world.hpp"

#include <foonathan/memory/config.hpp>
#include <foonathan/memory/debugging.hpp>
#include <foonathan/memory/error.hpp>
#include <foonathan/memory/memory_arena.hpp>

namespace verif
{
    namespace fm = foonathan::memory;

    constexpr bool cfg_fill   = FOONATHAN_MEMORY_DEBUG_FILL;
    constexpr bool cfg_assert = FOONATHAN_MEMORY_DEBUG_ASSERT;
    constexpr bool cfg_leak   = FOONATHAN_MEMORY_DEBUG_LEAK_CHECK;
    constexpr bool cfg_ptr    = FOONATHAN_MEMORY_DEBUG_POINTER_CHECK;
    constexpr bool cfg_dd     = FOONATHAN_MEMORY_DEBUG_DOUBLE_DEALLOC_CHECK;
    constexpr std::size_t cfg_fence = FOONATHAN_MEMORY_DEBUG_FENCE;

    constexpr std::size_t ARENA_MAX = 1 << 16;
    constexpr int         MAXB      = 12;
    constexpr int         MAXL      = 8;
    constexpr int         NSLOT     = 2;

    //=== library handlers -> transient ===//
    inline void h_oom(const fm::allocator_info&, std::size_t) noexcept
    {
        ++T().oom_h;
    }
    inline void h_badsize(const fm::allocator_info&, std::size_t, std::size_t) noexcept
    {
        ++T().badsize_h;
    }
    inline void h_leak(const fm::allocator_info& info, std::ptrdiff_t amount) noexcept
    {
        ++T().leak_h;
        T().leak_amount = long(amount);
        T().leak_alloc  = info.allocator;
        T().leak_name   = info.name;
    }
    inline std::function<bool()>& g_state_unchanged()
    {
        static std::function<bool()> f;
        return f;
    }
    inline void h_invptr(const fm::allocator_info&, const void*) noexcept
    {
        ++T().invptr_h;
        if (g_state_unchanged())
            T().report_state_same = g_state_unchanged()() ? 1 : 0;
        guard_escape(OUT_REPORTED); // the handler must not return into the allocator
    }
    inline void h_overflow(const void* mem, std::size_t size, const void* ptr) noexcept
    {
        ++T().overflow_h;
        T().overflow_mem  = mem;
        T().overflow_size = size;
        T().overflow_ptr  = ptr;
    }
    inline void install_handlers()
    {
        fm::out_of_memory::set_handler(h_oom);
        fm::bad_allocation_size::set_handler(h_badsize);
        fm::set_leak_handler(h_leak);
        fm::set_invalid_pointer_handler(h_invptr);
        fm::set_buffer_overflow_handler(h_overflow);
    }

    //=== the world ===//
    struct world_hdr
    {
        upstream_t<MAXB> up;
        shadow_t<MAXL>   sh;
        u32              slot_state[NSLOT]; // 0 dead, 1 valid, 2 moved-from
        long             ledger[NSLOT];     // traits level net bytes (leak oracle)
        u32              faults_left, moves_left, constructs_left, pad0_;
        u32              bulk_n, bulk_owner, bulk_size, bulk_fam;
        u16              bulk_off[800]; // offsets of the nodes of the bulk group (allocation order)

        // does [off, off+n) intersect a live allocation (individually tracked or bulk)?
        bool overlaps_live(u32 off, u32 n) const
        {
            if (sh.overlaps(off, n) >= 0)
                return true;
            for (u32 i = 0; i < bulk_n; ++i)
                if (off < u32(bulk_off[i]) + bulk_size && u32(bulk_off[i]) < off + n)
                    return true;
            return false;
        }
    };

    enum slot_st
    {
        ST_DEAD  = 0,
        ST_VALID = 1,
        ST_MOVED = 2
    };

    // the global upstream used by the RawAllocator / BlockAllocator facades
    inline upstream_t<MAXB>*& g_up()
    {
        static upstream_t<MAXB>* p = nullptr;
        return p;
    }

    // RawAllocator facade over the upstream (stateless type, global state)
    struct raw_up
    {
        using is_stateful = std::false_type;
        void* allocate_node(std::size_t size, std::size_t align)
        {
            return g_up()->alloc(UP_NODE, 1, size, align);
        }
        void deallocate_node(void* p, std::size_t size, std::size_t align) noexcept
        {
            g_up()->dealloc(UP_NODE, p, 1, size, align);
        }
        void* allocate_array(std::size_t count, std::size_t size, std::size_t align)
        {
            return g_up()->alloc(UP_ARRAY, count, size, align);
        }
        void deallocate_array(void* p, std::size_t count, std::size_t size,
                              std::size_t align) noexcept
        {
            g_up()->dealloc(UP_ARRAY, p, count, size, align);
        }
        std::size_t max_node_size() const noexcept
        {
            return std::size_t(-1);
        }
        std::size_t max_array_size() const noexcept
        {
            return std::size_t(-1);
        }
        std::size_t max_alignment() const noexcept
        {
            return 4096;
        }
    };

    // the block sources the explorations use
    using src_growing  = fm::growing_block_allocator<raw_up>;       // factor 2
    using src_constant = fm::growing_block_allocator<raw_up, 1, 1>; // same size every time
    using src_fixed    = fm::fixed_block_allocator<raw_up>;          // exactly one block

    enum exc_kind
    {
        EX_NONE,
        EX_UPFAIL,
        EX_OOM,
        EX_OOFM,
        EX_BADSIZE,
        EX_BADALLOC,
        EX_OTHER
    };
    inline const char* exc_name(int e)
    {
        static const char* n[] = {"none",     "upstream_failure", "out_of_memory", "out_of_fixed_memory",
                                  "bad_allocation_size", "bad_alloc",        "other"};
        return n[e];
    }

    template <class F>
    int guarded(F&& f)
    {
        int oc;
        VERIF_GUARDED(oc, f());
        return oc;
    }

    // classify the exception of a throwing call
    template <class F>
    int call_classified(F&& f, volatile int& ex)
    {
        ex = EX_NONE;
        return guarded([&] {
            try
            {
                f();
            }
            catch (upstream_failure&)
            {
                ex = EX_UPFAIL;
            }
            catch (fm::out_of_fixed_memory&)
            {
                ex = EX_OOFM;
            }
            catch (fm::out_of_memory&)
            {
                ex = EX_OOM;
            }
            catch (fm::bad_allocation_size&)
            {
                ex = EX_BADSIZE;
            }
            catch (std::bad_alloc&)
            {
                ex = EX_BADALLOC;
            }
            catch (...)
            {
                ex = EX_OTHER;
            }
        });
    }

    struct alloc_req
    {
        u8   kind;   // 0 node 1 array
        u32  count, size, align;
        bool is_try; // composable / try_ interface: must not throw, must not grow
        u8   fam;    // 0 member, 1 traits, 2 composable traits
        u8   tag;
    };

    enum op_kind
    {
        OP_ALLOC,
        OP_RELEASE,
        OP_TRYRELEASE,
        OP_ARMFAIL,
        OP_MOVECTOR,
        OP_MOVEASSIGN,
        OP_SWAP,
        OP_DESTROY,
        OP_EXTRA,
        OP_BULK,
        OP_UNBULK,
        OP_CONSTRUCT,
        OP_BAD
    };
    struct opdesc
    {
        int kind, a, b;
    };

    struct common_params
    {
        std::size_t arena = 4096;
        int         L = 4, B = 2, faults = 0, moves = 0, slots = 1;
        bool        try_release = false;
        bool        destroy_op  = true;
        int         bulk        = 0;     // size of the bulk group (0 = no bulk operations)
        int         bulk_rounds = 1;     // how often the bulk group may be extended
        int         place       = 0;     // upstream placement policy (0 lowest address, 1 alternating lowest / highest)
        bool        bad         = false; // add the deliberately invalid calls the debug checks must report (C16)
        bool        objhi       = false; // place the allocator objects above the arena instead of below
    };
    inline common_params& CP()
    {
        static common_params p;
        return p;
    }

    template <class P>
    struct asys
    {
        using object = typename P::object;
        struct world_t
        {
            world_hdr            h;
            typename P::extra_t  x;
            u8* arena;                 // arena base inside big (constant per configuration)
            u8* objp[NSLOT];           // object storage inside big
            alignas(4096) u8 big[ARENA_MAX + 8192];
        };
        static constexpr std::size_t OBJSZ = (sizeof(object) + 63) / 64 * 64;
        static_assert(OBJSZ * NSLOT <= 4096, "object storage page too small");
        static std::size_t arena_pages()
        {
            return (CP().arena + 4095) / 4096 * 4096;
        }
        static world_t& W()
        {
            alignas(4096) static world_t w;
            return w;
        }
        static void* world()
        {
            return &W();
        }
        static std::size_t world_size()
        {
            return offsetof(world_t, big) + 4096 + arena_pages();
        }
        static object& obj(int s)
        {
            return *reinterpret_cast<object*>(W().objp[s]);
        }
        static std::vector<opdesc>& ops()
        {
            static std::vector<opdesc> v;
            return v;
        }

        static void build_ops()
        {
            auto& v = ops();
            v.clear();
            auto& cp = CP();
            for (int s = 0; s < cp.slots; ++s)
                for (int i = 0; i < P::nalloc(); ++i)
                    v.push_back({OP_ALLOC, s, i});
            for (int s = 0; s < cp.slots; ++s)
                for (int i = 0; i < P::nextra(); ++i)
                    v.push_back({OP_EXTRA, s, i});
            for (int k = 0; k < cp.L; ++k)
                v.push_back({OP_RELEASE, k, 0});
            if (cp.try_release)
                for (int k = 0; k < cp.L; ++k)
                    v.push_back({OP_TRYRELEASE, k, 0});
            if (cp.bulk)
                for (int s = 0; s < cp.slots; ++s)
                {
                    v.push_back({OP_BULK, s, 0});
                    v.push_back({OP_UNBULK, s, 0});
                    v.push_back({OP_UNBULK, s, 1});
                }
            if (cp.bad)
                for (int i = 0; i < P::nbad(); ++i)
                    v.push_back({OP_BAD, 0, i});
            if (cp.faults)
                v.push_back({OP_ARMFAIL, 0, 0});
            if (cp.slots == 2 && cp.moves)
            {
                v.push_back({OP_CONSTRUCT, 0, 0});
                v.push_back({OP_CONSTRUCT, 1, 0});
                v.push_back({OP_MOVECTOR, 0, 1});
                v.push_back({OP_MOVECTOR, 1, 0});
                v.push_back({OP_MOVEASSIGN, 0, 1});
                v.push_back({OP_MOVEASSIGN, 1, 0});
                v.push_back({OP_SWAP, 0, 1});
            }
            if (cp.destroy_op)
                for (int s = 0; s < cp.slots; ++s)
                    v.push_back({OP_DESTROY, s, 0});
        }

        static int nops()
        {
            return int(ops().size());
        }

        static void init()
        {
            auto& w = W();
            std::memset(static_cast<void*>(&w), 0, world_size());
            if (CP().objhi)
            {
                w.arena = w.big;
                for (int s = 0; s < NSLOT; ++s)
                    w.objp[s] = w.big + arena_pages() + std::size_t(s) * OBJSZ;
            }
            else
            {
                w.arena = w.big + 4096;
                for (int s = 0; s < NSLOT; ++s)
                    w.objp[s] = w.big + std::size_t(s) * OBJSZ;
            }
            w.h.up.init(w.arena, CP().arena, u32(CP().B));
            w.h.up.check_lifo = 1;
            w.h.up.place      = u32(CP().place);
            g_up()            = &w.h.up;
            w.h.faults_left   = u32(CP().faults);
            w.h.moves_left    = u32(CP().moves);
            w.h.constructs_left = CP().moves ? 1 : 0;
            T().clear();
            w.h.up.cur_owner = 0;
            P::init_extra(w.x);
            int oc = guarded([&] { P::construct(w.objp[0]); });
            if (oc != OUT_OK)
                bad_outcome(oc, "construction");
            w.h.slot_state[0] = ST_VALID;
        }

        static std::string opkind(int op)
        {
            auto& d = ops()[op];
            switch (d.kind)
            {
            case OP_ALLOC:
                return P::alloc_kind(d.b);
            case OP_RELEASE:
                return "release";
            case OP_TRYRELEASE:
                return "try_release";
            case OP_ARMFAIL:
                return "arm_upstream_failure";
            case OP_MOVECTOR:
                return "move_construct";
            case OP_MOVEASSIGN:
                return "move_assign";
            case OP_SWAP:
                return "swap";
            case OP_DESTROY:
                return "destroy";
            case OP_EXTRA:
                return P::extra_kind(d.b);
            case OP_BAD:
                return P::bad_kind(d.b);
            case OP_CONSTRUCT:
                return "construct";
            case OP_BULK:
                return "bulk_allocate";
            case OP_UNBULK:
                return "bulk_release";
            }
            return "?";
        }

        static std::string opname(int op)
        {
            auto& d = ops()[op];
            auto& w = W();
            switch (d.kind)
            {
            case OP_ALLOC:
                return fmt("s%d.%s", d.a, P::alloc_name(d.b).c_str());
            case OP_RELEASE:
            case OP_TRYRELEASE:
                if (u32(d.a) < w.h.sh.n)
                {
                    auto& l = w.h.sh.v[d.a];
                    return fmt("%s(#%d: s%d off=%u %s %ux%u)", d.kind == OP_RELEASE ? "release" : "try_release",
                               d.a, l.owner, l.off, l.kind ? "array" : "node", l.count, l.size);
                }
                return fmt("release(#%d)", d.a);
            case OP_ARMFAIL:
                return "arm_upstream_failure";
            case OP_MOVECTOR:
                return fmt("s%d=new(move(s%d))", d.b, d.a);
            case OP_MOVEASSIGN:
                return fmt("s%d=move(s%d)", d.b, d.a);
            case OP_SWAP:
                return "swap(s0,s1)";
            case OP_DESTROY:
                return fmt("destroy(s%d%s)", d.a, w.h.slot_state[d.a] == ST_MOVED ? ",moved-from" : "");
            case OP_EXTRA:
                return fmt("s%d.%s", d.a, P::extra_name(w.x, d.b).c_str());
            case OP_BAD:
                return "INVALID " + P::bad_name(w, d.a, d.b);
            case OP_CONSTRUCT:
                return fmt("s%d=new allocator", d.a);
            case OP_BULK:
                return fmt("s%d.%s x%d", d.a, P::alloc_name(0).c_str(), CP().bulk);
            case OP_UNBULK:
                return fmt("s%d.release all %u bulk nodes %s", d.a, w.h.bulk_n, d.b ? "in descending address order" : "in ascending address order");
            }
            return "?";
        }

        static bool enabled(int op)
        {
            auto& d = ops()[op];
            auto& w = W();
            auto& h = w.h;
            switch (d.kind)
            {
            case OP_ALLOC:
                return h.slot_state[d.a] == ST_VALID && h.sh.n < u32(CP().L) && P::alloc_enabled(w.x, d.a, d.b);
            case OP_RELEASE:
            case OP_TRYRELEASE:
                return u32(d.a) < h.sh.n && h.slot_state[h.sh.v[d.a].owner] == ST_VALID
                       && P::release_enabled(w.x, h.sh, d.a);
            case OP_ARMFAIL:
                return h.faults_left > 0 && !h.up.fail_armed;
            case OP_MOVECTOR:
                return h.moves_left > 0 && h.slot_state[d.a] == ST_VALID && h.slot_state[d.b] == ST_DEAD;
            case OP_MOVEASSIGN:
                return h.moves_left > 0 && h.slot_state[d.a] == ST_VALID && h.slot_state[d.b] != ST_DEAD;
            case OP_SWAP:
                return h.moves_left > 0 && h.slot_state[0] == ST_VALID && h.slot_state[1] == ST_VALID;
            case OP_DESTROY:
                return h.slot_state[d.a] != ST_DEAD;
            case OP_EXTRA:
                return h.slot_state[d.a] == ST_VALID && P::extra_enabled(w.x, h.sh, d.a, d.b);
            case OP_BAD:
                return h.slot_state[d.a] == ST_VALID && P::bad_enabled(w, d.a, d.b);
            case OP_CONSTRUCT:
                return h.constructs_left > 0 && h.slot_state[d.a] == ST_DEAD;
            case OP_BULK:
                // the group can be extended (several blocks of a small-node pool) as long as it belongs to this slot
                return h.slot_state[d.a] == ST_VALID && h.bulk_n + u32(CP().bulk) <= 800 && (h.bulk_n == 0 || h.bulk_owner == u32(d.a))
                       && h.bulk_n < u32(CP().bulk) * u32(CP().bulk_rounds);
            case OP_UNBULK:
                return h.bulk_n > 0 && h.bulk_owner == u32(d.a) && h.slot_state[d.a] == ST_VALID;
            }
            return false;
        }

        //=== monitors ===//
        static void sweep_content()
        {
            auto& w = W();
            for (u32 i = 0; i < w.h.bulk_n; ++i)
            {
                live_t l{};
                l.off   = w.h.bulk_off[i];
                l.bytes = w.h.bulk_size;
                long bad = verify_pattern(w.arena, l);
                if (bad >= 0)
                {
                    T().fail("M-content", "live-byte-changed",
                             fmt("byte %ld of the live node at offset %u (%u bytes, bulk group) changed to 0x%02X", bad, l.off,
                                 l.bytes, w.arena[l.off + bad]));
                    return;
                }
            }
            for (u32 i = 0; i < w.h.sh.n; ++i)
            {
                long bad = verify_pattern(w.arena, w.h.sh.v[i]);
                if (bad >= 0)
                {
                    T().fail("M-content", "live-byte-changed",
                             fmt("byte %ld of the live %s at offset %u (%u bytes) changed from 0x%02X to 0x%02X",
                                 bad, w.h.sh.v[i].kind ? "array" : "node", w.h.sh.v[i].off,
                                 w.h.sh.v[i].bytes, pattern_byte(w.h.sh.v[i].off, u32(bad), w.h.sh.v[i].bytes),
                                 w.arena[w.h.sh.v[i].off + bad]));
                    return;
                }
            }
        }

        // memory that is not part of an outstanding upstream block must stay untouched (the upstream zeroes a
        // block when it is returned): a non-zero byte there is a write into memory the allocator gave back
        static void sweep_unowned()
        {
            auto& w  = W();
            auto& up = w.h.up;
            // blocks are few: mark owned ranges by walking sorted starts
            u32 idx[MAXB];
            u32 n = up.nblk;
            for (u32 i = 0; i < n; ++i)
                idx[i] = i;
            for (u32 i = 1; i < n; ++i)
                for (u32 k = i; k > 0 && up.blk[idx[k - 1]].off > up.blk[idx[k]].off; --k)
                    std::swap(idx[k - 1], idx[k]);
            u32 pos = 0;
            for (u32 i = 0; i <= n; ++i)
            {
                u32 end = i < n ? up.blk[idx[i]].off : u32(up.ARENA);
                for (u32 b = pos; b < end; ++b)
                    if (w.arena[b] != 0)
                    {
                        T().fail("M-upstream", "write-after-release",
                                 fmt("byte at arena offset %u is 0x%02X although no outstanding block covers it: the allocator wrote into "
                                     "memory it had already returned (or never owned)",
                                     b, w.arena[b]));
                        return;
                    }
                if (i < n)
                    pos = up.blk[idx[i]].off + up.blk[idx[i]].size;
            }
        }

        static void bad_outcome(int oc, const char* what)
        {
            if (oc == OUT_REPORTED)
                T().fail("M-noreport", "report-on-valid-call",
                         fmt("invalid-pointer handler ran during a contract-respecting %s", what));
            else if (oc != OUT_OK)
                T().fail("M-sane", outcome_name(oc),
                         fmt("library %s during a contract-respecting %s", outcome_name(oc), what));
        }

        static void apply(int op)
        {
            auto& d = ops()[op];
            auto& w = W();
            auto& h = w.h;
            auto& t = T();
            switch (d.kind)
            {
            case OP_ALLOC:
                do_alloc(d.a, P::make_req(w.x, d.a, d.b), false);
                break;
            case OP_BAD:
            {
                // a deliberately invalid call that the configured debug checks cover: it must be reported through the
                // invalid-pointer handler or stop the program (abort), before the allocator changed
                h.up.cur_owner = u32(d.a);
                t.terminal     = true;
                // "state" = all memory the allocator manages + its public counters (internal lookup caches may move)
                std::vector<u8> before(w.arena, w.arena + CP().arena);
                u64 dig = P::digest(w, d.a);
                g_state_unchanged() = [&]() { return std::memcmp(before.data(), w.arena, CP().arena) == 0 && P::digest(w, d.a) == dig; };
                std::string bad_nm = P::bad_name(w, d.a, d.b);
                int oc = guarded([&] { P::bad_call(w, d.a, d.b); });
                g_state_unchanged() = nullptr;
                t.outcome = outcome_name(oc);
                if (oc == OUT_OK)
                    t.fail("M-report", "invalid-call-not-reported",
                           fmt("%s returned normally: neither the invalid-pointer handler ran nor was the program stopped", bad_nm.c_str()));
                else if (oc == OUT_HUNG)
                    t.fail("M-report", "invalid-call-hangs", fmt("%s never returned", bad_nm.c_str()));
                else if (oc == OUT_CRASHED)
                    t.fail("M-report", "invalid-call-crashes",
                           fmt("%s crashed (memory fault) instead of being reported", bad_nm.c_str()));
                else if (oc == OUT_REPORTED && t.report_state_same == 0)
                    t.fail("M-report", "state-changed-before-report",
                           fmt("%s was reported only after the allocator object had been modified", bad_nm.c_str()));
                t.event(oc == OUT_REPORTED ? "bad_call_reported" : oc == OUT_ABORTED ? "bad_call_aborted" : "bad_call_other");
                return; // no further monitors: the state behind an invalid call is not meaningful
            }
            case OP_CONSTRUCT:
            {
                h.up.cur_owner = u32(d.a);
                --h.constructs_left;
                volatile int ex = EX_NONE;
                int oc = call_classified([&] { P::construct(w.objp[d.a]); }, ex);
                if (oc != OUT_OK)
                    bad_outcome(oc, "construction");
                else if (ex != EX_NONE)
                {
                    // constructor failed (upstream refused): nothing may stay outstanding
                    if (h.up.outstanding_of(u32(d.a)))
                        t.fail("M-upstream", "block-not-returned", "a failed constructor left an upstream block outstanding");
                    std::memset(w.objp[d.a], 0, OBJSZ);
                    t.outcome = exc_name(ex);
                }
                else
                {
                    h.slot_state[d.a] = ST_VALID;
                    t.outcome         = "ok";
                }
                break;
            }
            case OP_BULK:
                do_bulk(d.a);
                break;
            case OP_UNBULK:
                do_unbulk(d.a, d.b != 0);
                break;
            case OP_RELEASE:
                do_release(d.a, false);
                break;
            case OP_TRYRELEASE:
                do_release(d.a, true);
                break;
            case OP_ARMFAIL:
                h.up.fail_armed = 1;
                --h.faults_left;
                t.outcome = "armed";
                break;
            case OP_MOVECTOR:
                do_movector(d.a, d.b);
                break;
            case OP_MOVEASSIGN:
                do_moveassign(d.a, d.b);
                break;
            case OP_SWAP:
                do_swap();
                break;
            case OP_DESTROY:
                do_destroy(d.a);
                break;
            case OP_EXTRA:
                h.up.cur_owner = u32(d.a);
                P::extra_apply(w, d.a, d.b);
                break;
            }
            if (t.violations.empty())
                sweep_content();
            if (t.violations.empty())
                sweep_unowned();
            if (t.violations.empty())
                for (int s = 0; s < CP().slots; ++s)
                {
                    if (h.slot_state[s] == ST_VALID)
                        P::check_structure(w, s);
                    else if (h.slot_state[s] == ST_DEAD)
                    {
                        for (std::size_t i = 0; i < OBJSZ; ++i)
                            if (w.objp[s][i] != 0)
                            {
                                t.fail("M-move", "write-into-destroyed-object",
                                       fmt("byte %zu of the storage of the destroyed allocator object in slot %d was written", i, s));
                                break;
                            }
                    }
                }
        }

        // returns true if memory was handed out and recorded
        static bool do_alloc(int s, const alloc_req& r, bool bulk)
        {
            auto& w = W();
            auto& h = w.h;
            auto& t = T();
            h.up.cur_owner = u32(s);
            if (bulk)
                t.up_allocs = t.up_deallocs = t.up_failed = t.oom_h = t.badsize_h = 0;
            auto  before   = P::observe(w, s);
            void* volatile p = nullptr;
            volatile int ex  = EX_NONE;
            int oc = call_classified([&] { p = P::do_alloc(obj(s), r); }, ex);
            if (oc != OUT_OK)
            {
                bad_outcome(oc, "allocation");
                t.outcome = outcome_name(oc);
                return false;
            }
            // failure signalling (C03)
            if (r.is_try)
            {
                if (ex != EX_NONE)
                    t.fail("M-try", "try-threw", fmt("try_ allocation threw %s", exc_name(ex)));
                if (t.up_allocs || t.up_failed)
                    t.fail("M-try", "try-grew", "try_ allocation called the upstream allocator");
            }
            else
            {
                if (ex == EX_NONE && !p)
                    t.fail("M-null", "throwing-returned-null", "throwing allocation function returned null");
                if (ex == EX_OTHER || ex == EX_BADALLOC)
                    t.fail("M-fail", "wrong-exception",
                           fmt("allocation failed with %s, which is neither the upstream's exception nor "
                               "of the library's out_of_memory / bad_allocation_size families",
                               exc_name(ex)));
                if ((ex == EX_OOM || ex == EX_OOFM) && t.oom_h == 0)
                    t.fail("M-fail", "handler-not-called", "out_of_memory thrown without calling its handler");
                if (ex == EX_BADSIZE && t.badsize_h == 0)
                    t.fail("M-fail", "handler-not-called",
                           "bad_allocation_size thrown without calling its handler");
                if (t.up_failed && ex == EX_NONE)
                    t.fail("M-fail", "upstream-failure-absorbed",
                           "the upstream allocation failed but the allocation call returned normally");
            }
            if (ex != EX_NONE)
            {
                t.outcome = exc_name(ex);
                t.event(ex == EX_UPFAIL ? "alloc_upstream_failure" : ex == EX_BADSIZE ? "alloc_bad_size" : "alloc_oom");
                P::check_failed_alloc(w, s, r, before, ex);
                return false;
            }
            if (!p)
            {
                t.outcome = "null";
                t.event("try_returned_null");
                P::check_failed_alloc(w, s, r, before, ex);
                return false;
            }
            t.outcome = t.up_allocs ? "ok+grew" : "ok";
            if (t.up_allocs)
                t.event("grew");
            u32 bytes = r.kind ? r.count * r.size : r.size;
            auto c    = static_cast<u8*>(p);
            if (!h.up.in_arena(c) || !h.up.in_arena(c + bytes - 1))
            {
                t.fail("M-inside", "outside-arena", fmt("returned pointer %p (+%u) lies outside all upstream memory", p, bytes));
                return false;
            }
            u32 off = h.up.offset_of(c);
            int bi  = h.up.find_containing(off, bytes);
            if (bi < 0)
                t.fail("M-inside", "outside-owned-block",
                       fmt("returned range [%u,%u) is not inside one outstanding upstream block", off, off + bytes));
            else
            {
                if (h.up.blk[bi].owner != u32(s))
                    t.fail("M-inside", "other-owner-block",
                           fmt("returned range [%u,%u) lies in a block of another allocator", off, off + bytes));
                if (off < h.up.blk[bi].off + P::block_header())
                    t.fail("M-inside", "inside-block-header",
                           fmt("returned offset %u overlaps the arena's block header at %u", off, h.up.blk[bi].off));
            }
            int ov = h.sh.overlaps(off, bytes);
            if (ov >= 0)
                t.fail("M-disjoint", "overlap-live",
                       fmt("returned range [%u,%u) overlaps the live allocation [%u,%u)", off, off + bytes,
                           h.sh.v[ov].off, h.sh.v[ov].off + h.sh.v[ov].bytes));
            else if (h.overlaps_live(off, bytes))
                t.fail("M-disjoint", "overlap-live",
                       fmt("returned range [%u,%u) overlaps a live node of the bulk group", off, off + bytes));
            if (r.align && (reinterpret_cast<std::uintptr_t>(p) % r.align) != 0)
                t.fail("M-align", "misaligned", fmt("returned pointer %p is not aligned to %u", p, r.align));
            if (cfg_fill && P::fills_new())
                for (u32 i = 0; i < bytes; ++i)
                    if (c[i] != 0xCD)
                    {
                        t.fail("M-fillnew", "not-new-pattern",
                               fmt("byte %u of freshly returned memory at offset %u is 0x%02X, not 0xCD", i, off, c[i]));
                        break;
                    }
            live_t l{};
            l.off   = off;
            l.bytes = bytes;
            l.count = r.count;
            l.size  = r.size;
            l.align = r.align;
            l.kind  = r.kind;
            l.owner = u8(s);
            l.fam   = r.fam;
            l.tag   = r.tag;
            if (!t.violations.empty())
            {
                // let the kind specific monitors (counters, maxima) speak about this allocation as well
                (void)guarded([&] { P::check_alloc(w, s, r, l, before); }); // the object may already be corrupt
                return false;
            }
            fill_pattern(w.arena, l);
            if (bulk)
            {
                // keep the table sorted by address (the model does not care about allocation order)
                u32 pos = h.bulk_n++;
                while (pos > 0 && h.bulk_off[pos - 1] > u16(off))
                {
                    h.bulk_off[pos] = h.bulk_off[pos - 1];
                    --pos;
                }
                h.bulk_off[pos] = u16(off);
                h.bulk_size            = bytes;
                h.bulk_owner           = u32(s);
                h.bulk_fam             = r.fam;
            }
            else
                h.sh.insert(l);
            if (r.fam == 1) // only allocator_traits calls are counted by the leak checker (composable traits call the members)
                h.ledger[s] += long(bytes);
            P::check_alloc(w, s, r, l, before);
            if (!bulk)
                P::after_alloc(w.x, l);
            return t.violations.empty();
        }

        static void do_bulk(int s)
        {
            auto& w = W();
            auto& t = T();
            auto  r = P::make_req(w.x, s, 0);
            int   n = 0, grew = 0;
            for (; n < CP().bulk && w.h.bulk_n < 800; ++n)
            {
                if (!do_alloc(s, r, true))
                    break;
                grew += t.up_allocs;
            }
            if (t.violations.empty())
                t.outcome = fmt("%s%s", n == CP().bulk ? "ok" : "partial", grew ? "+grew" : "");
            t.event("bulk_allocated");
        }

        static void do_unbulk(int s, bool reverse)
        {
            auto& w = W();
            auto& h = w.h;
            auto& t = T();
            h.up.cur_owner = u32(s);
            u32 n = h.bulk_n;
            // take the group out of the model first, then release one by one
            u16 offs[800];
            std::memcpy(offs, h.bulk_off, sizeof offs);
            u32 size = h.bulk_size, fam = h.bulk_fam;
            auto r   = P::make_req(w.x, s, 0);
            for (u32 i = 0; i < n; ++i)
            {
                u32    idx = reverse ? n - 1 - i : i;
                live_t l{};
                l.off   = offs[idx];
                l.bytes = size;
                l.count = 1;
                l.size  = r.size;
                l.align = r.align;
                l.kind  = 0;
                l.owner = u8(s);
                l.fam   = u8(fam);
                // remove entry idx from the bulk table (keeps the rest live for the monitors)
                u32 pos = 0;
                for (; pos < h.bulk_n; ++pos)
                    if (h.bulk_off[pos] == offs[idx])
                        break;
                for (u32 k = pos; k + 1 < h.bulk_n; ++k)
                    h.bulk_off[k] = h.bulk_off[k + 1];
                h.bulk_off[--h.bulk_n] = 0;
                auto before = P::observe(w, s);
                t.up_allocs = t.up_deallocs = 0;
                int oc = guarded([&] { P::do_release(obj(s), w.arena + l.off, l, false); });
                if (oc != OUT_OK)
                {
                    bad_outcome(oc, "deallocation");
                    t.outcome = outcome_name(oc);
                    return;
                }
                if (t.up_allocs)
                    t.fail("M-nogrow", "release-grew", "a deallocation requested memory from the upstream");
                if (l.fam == 1)
                    h.ledger[s] -= long(l.bytes);
                P::check_release(w, s, l, before);
                if (!t.violations.empty())
                    return;
            }
            h.bulk_size = h.bulk_owner = h.bulk_fam = 0;
            t.outcome = "ok";
            t.event("bulk_released");
        }


        static void do_release(int k, bool try_)
        {
            auto& w = W();
            auto& h = w.h;
            auto& t = T();
            live_t l = h.sh.v[k];
            int    s = l.owner;
            h.up.cur_owner = u32(s);
            auto before    = P::observe(w, s);
            h.sh.erase(u32(k));
            volatile bool res = true;
            int oc = guarded([&] { res = P::do_release(obj(s), w.arena + l.off, l, try_); });
            if (oc != OUT_OK)
            {
                bad_outcome(oc, "deallocation");
                t.outcome = outcome_name(oc);
                return;
            }
            if (try_ && !res)
                t.fail("M-own", "own-memory-refused",
                       fmt("try_deallocate of the allocator's own live %s at offset %u returned false",
                           l.kind ? "array" : "node", l.off));
            if (t.up_allocs)
                t.fail("M-nogrow", "release-grew", "a deallocation requested memory from the upstream");
            t.outcome = "ok";
            if (l.fam == 1)
                h.ledger[s] -= long(l.bytes);
            P::check_release(w, s, l, before);
            P::after_release(w.x, l);
        }

        static void do_movector(int from, int to)
        {
            auto& w = W();
            auto& h = w.h;
            auto& t = T();
            h.up.cur_owner = 99;
            int oc = guarded([&] { ::new (static_cast<void*>(w.objp[to])) object(std::move(obj(from))); });
            --h.moves_left;
            if (oc != OUT_OK)
            {
                bad_outcome(oc, "move construction");
                return;
            }
            if (t.up_allocs || t.up_deallocs)
                t.fail("M-move", "move-touched-upstream", "move construction called the upstream allocator");
            h.slot_state[to]   = ST_VALID;
            h.slot_state[from] = ST_MOVED;
            h.up.retag(u32(from), u32(to));
            h.sh.retag(u32(from), u32(to));
            h.ledger[to]   = h.ledger[from];
            h.ledger[from] = 0;
            if (h.bulk_n && h.bulk_owner == u32(from))
                h.bulk_owner = u32(to);
            P::after_move(w.x, from, to);
            t.outcome = "ok";
            t.event(h.sh.n ? "moved_while_nonempty" : "moved_empty");
        }

        static void do_moveassign(int from, int to)
        {
            auto& w = W();
            auto& h = w.h;
            auto& t = T();
            // blocks of the target: released now, or kept by the (now moved-from) source object
            const u32 TMP = 50;
            h.up.retag(u32(to), TMP);
            h.up.cur_owner = TMP;
            long old_ledger = h.slot_state[to] == ST_VALID ? h.ledger[to] : 0;
            int  oc         = guarded([&] { obj(to) = std::move(obj(from)); });
            --h.moves_left;
            if (oc != OUT_OK)
            {
                bad_outcome(oc, "move assignment");
                return;
            }
            if (t.up_allocs)
                t.fail("M-move", "move-touched-upstream", "move assignment allocated from the upstream");
            // leak handler may fire for the overwritten target's count, nothing else
            if (t.leak_h > 1 || (t.leak_h == 1 && (!cfg_leak || t.leak_amount != old_ledger)))
                t.fail("M-leak", "leak-report-on-move-assign",
                       fmt("leak handler called %d time(s) with %ld during move assignment; the "
                           "overwritten target's net count was %ld",
                           t.leak_h, t.leak_amount, old_ledger));
            h.sh.drop_owner(u32(to));
            if (h.bulk_n && h.bulk_owner == u32(to))
            {
                std::memset(h.bulk_off, 0, sizeof h.bulk_off);
                h.bulk_n = h.bulk_size = h.bulk_owner = h.bulk_fam = 0;
            }
            if (h.bulk_n && h.bulk_owner == u32(from))
                h.bulk_owner = u32(to);
            h.up.retag(u32(from), u32(to));
            h.sh.retag(u32(from), u32(to));
            h.up.retag(TMP, u32(from)); // whatever was not released is now held by the source object
            if (h.up.outstanding_of(u32(from)))
                t.event("moveassign_source_keeps_old_target_blocks");
            h.slot_state[to]   = ST_VALID;
            h.slot_state[from] = ST_MOVED;
            h.ledger[to]   = h.ledger[from];
            h.ledger[from] = 0;
            P::after_move(w.x, from, to);
            t.outcome = "ok";
            t.event(h.sh.n ? "moveassigned_while_nonempty" : "moveassigned_empty");
        }

        static void do_swap()
        {
            auto& w = W();
            auto& h = w.h;
            auto& t = T();
            h.up.cur_owner = 99;
            int oc = guarded([&] {
                using std::swap;
                swap(obj(0), obj(1));
            });
            --h.moves_left;
            if (oc != OUT_OK)
            {
                bad_outcome(oc, "swap");
                return;
            }
            if (t.up_allocs || t.up_deallocs)
                t.fail("M-move", "move-touched-upstream", "swap called the upstream allocator");
            if (t.leak_h)
                t.fail("M-leak", "leak-report-on-swap", "leak handler called during swap");
            h.up.swap_tags(0, 1);
            h.sh.swap_tags(0, 1);
            std::swap(h.ledger[0], h.ledger[1]);
            if (h.bulk_n)
                h.bulk_owner = 1 - h.bulk_owner;
            P::after_swap(w.x);
            t.outcome = "ok";
            t.event("swapped");
        }

        static void do_destroy(int s)
        {
            auto& w = W();
            auto& h = w.h;
            auto& t = T();
            bool  moved = h.slot_state[s] == ST_MOVED;
            h.up.cur_owner = u32(s);
            int oc = guarded([&] { obj(s).~object(); });
            if (oc != OUT_OK)
            {
                bad_outcome(oc, moved ? "destruction of a moved-from object" : "destruction");
                t.outcome = outcome_name(oc);
                return;
            }
            if (h.up.outstanding_of(u32(s)))
                t.fail("M-upstream", "block-not-returned",
                       fmt("%u upstream block(s) still outstanding after the allocator's destruction",
                           h.up.outstanding_of(u32(s))));
            if (t.up_allocs)
                t.fail("M-upstream", "destructor-allocated", "destructor allocated from the upstream");
            // leak report (C15)
            long net = h.ledger[s];
            if (cfg_leak && P::has_leak_check())
            {
                if (net != 0 && (t.leak_h != 1 || t.leak_amount != net))
                    t.fail("M-leak", "leak-report-wrong",
                           fmt("net %ld bytes were live at destruction: expected one leak report of that "
                               "amount, got %d report(s), last amount %ld",
                               net, t.leak_h, t.leak_amount));
                if (net == 0 && t.leak_h != 0)
                    t.fail("M-leak", "leak-report-spurious",
                           fmt("balanced allocator reported a leak of %ld on destruction", t.leak_amount));
                if (t.leak_h && t.leak_alloc != static_cast<const void*>(&obj(s)))
                    t.fail("M-leak", "leak-report-wrong-allocator", "leak report names a different allocator object");
                if (t.leak_h)
                    t.event("leak_reported");
            }
            else if (t.leak_h)
                t.fail("M-leak", "leak-report-spurious", "leak handler called although leak checking is disabled");
            h.sh.drop_owner(u32(s));
            if (h.bulk_n && h.bulk_owner == u32(s))
            {
                std::memset(h.bulk_off, 0, sizeof h.bulk_off);
                h.bulk_n = h.bulk_size = h.bulk_owner = h.bulk_fam = 0;
            }
            h.ledger[s]     = 0;
            h.slot_state[s] = ST_DEAD;
            std::memset(w.objp[s], 0, OBJSZ);
            P::after_destroy(w.x, s);
            t.outcome = moved ? "ok-moved-from" : "ok";
            if (moved)
                t.event("destroyed_moved_from");
        }
    };

    //=== helpers for harness mains ===//
    struct argmap
    {
        std::map<std::string, std::string> m;
        argmap(int argc, char** argv)
        {
            for (int i = 1; i < argc; ++i)
            {
                std::string a = argv[i];
                if (a.rfind("--", 0) == 0)
                {
                    std::string k = a.substr(2), v = "1";
                    auto        e = k.find('=');
                    if (e != std::string::npos)
                    {
                        v = k.substr(e + 1);
                        k = k.substr(0, e);
                    }
                    else if (i + 1 < argc && std::string(argv[i + 1]).rfind("--", 0) != 0)
                        v = argv[++i];
                    m[k] = v;
                }
            }
        }
        std::string s(const std::string& k, const std::string& d = "") const
        {
            auto i = m.find(k);
            return i == m.end() ? d : i->second;
        }
        long n(const std::string& k, long d) const
        {
            auto i = m.find(k);
            return i == m.end() ? d : std::atol(i->second.c_str());
        }
        std::vector<std::string> list_str(const std::string& k) const
        {
            std::vector<std::string> r;
            std::string              v = s(k);
            std::size_t              p = 0;
            while (p < v.size())
            {
                auto e = v.find(',', p);
                if (e == std::string::npos)
                    e = v.size();
                if (e > p)
                    r.push_back(v.substr(p, e - p));
                p = e + 1;
            }
            return r;
        }
        std::vector<long> list(const std::string& k) const
        {
            std::vector<long> r;
            std::string       v = s(k);
            std::size_t       p = 0;
            while (p < v.size())
            {
                auto e = v.find(',', p);
                if (e == std::string::npos)
                    e = v.size();
                if (e > p)
                    r.push_back(std::atol(v.substr(p, e - p).c_str()));
                p = e + 1;
            }
            return r;
        }
    };

    inline void read_common(const argmap& a)
    {
        auto& cp       = CP();
        cp.arena       = std::size_t(a.n("arena", 4096));
        cp.L           = int(a.n("L", 3));
        cp.B           = int(a.n("B", 2));
        cp.faults      = int(a.n("faults", 0));
        cp.moves       = int(a.n("moves", 0));
        cp.slots       = cp.moves ? 2 : 1;
        cp.try_release = a.n("tryrel", 0) != 0;
        cp.destroy_op  = a.n("destroy", 1) != 0;
        cp.bulk        = int(a.n("bulk", 0));
        cp.bulk_rounds = int(a.n("bulk_rounds", 1));
        cp.place       = a.s("place", "low") == "alt" ? 1 : a.s("place", "low") == "desc" ? 2 : 0;
        cp.bad         = a.n("bad", 0) != 0;
        cp.objhi       = a.n("objhi", 0) != 0;
        if (cp.L > MAXL)
            cp.L = MAXL;
        if (cp.B > MAXB)
            cp.B = MAXB;
        if (cp.arena > ARENA_MAX)
            cp.arena = ARENA_MAX;
    }

    // run one configuration of system S: explore or replay; prints one JSON object
    template <class S>
    int run_system(const argmap& a, const std::string& name)
    {
        install_guards(int(a.n("hang_ms", 2000)));
        install_handlers();
        S::build_ops();
        if (a.m.count("replay"))
        {
            auto              l = a.list("replay");
            std::vector<int>  ops(l.begin(), l.end());
            std::printf("replaying %zu operations on %s\n", ops.size(), name.c_str());
            int nv = explorer<S>::replay_verbose(ops);
            std::printf("violations: %d\n", nv);
            return nv > 0 ? 1 : (nv < 0 ? 2 : 0);
        }
        if (!a.m.count("verbose"))
            std::freopen("/dev/null", "w", stderr); // the library prints a line per contained assertion failure
        explore_limits lim;
        lim.max_states = std::size_t(a.n("max_states", 2000000));
        lim.deadline_s = now_s() + double(a.n("time_s", 600));
        lim.max_depth  = int(a.n("max_depth", 1 << 20));
        for (auto m : a.list_str("own"))
            blocking_monitors().insert(m);
        lim.snapshots  = a.n("snap", 0) != 0;
        lim.verify_every = std::size_t(a.n("verify_every", 16));
        explorer<S> e;
        auto        r = e.run(name, lim);
        std::string js = r.to_json();
        std::string out = a.s("out");
        if (!out.empty())
        {
            FILE* f = std::fopen(out.c_str(), "w");
            if (f)
            {
                std::fputs(js.c_str(), f);
                std::fputc('\n', f);
                std::fclose(f);
            }
        }
        else
            std::printf("%s\n", js.c_str());
        return 0;
    }
} // namespace verif

#endif
