// C08 harness, shared pieces: deterministic first-fit upstream arena handing out ADJACENT blocks,
// shapes, violation records, the stateless sequence enumerator (DFS by replay from scratch).
#ifndef VERIF_COMPOSE_COMMON_HPP
#define VERIF_COMPOSE_COMMON_HPP

#include "../engine/core.hpp"

#include <algorithm>
#include <functional>
#include <map>
#include <new>
#include <set>
#include <string>
#include <type_traits>
#include <vector>

#include <foonathan/memory/aligned_allocator.hpp>
#include <foonathan/memory/allocator_storage.hpp>
#include <foonathan/memory/allocator_traits.hpp>
#include <foonathan/memory/debugging.hpp>
#include <foonathan/memory/fallback_allocator.hpp>
#include <foonathan/memory/iteration_allocator.hpp>
#include <foonathan/memory/memory_arena.hpp>
#include <foonathan/memory/memory_pool.hpp>
#include <foonathan/memory/memory_pool_collection.hpp>
#include <foonathan/memory/memory_stack.hpp>
#include <foonathan/memory/segregator.hpp>
#include <foonathan/memory/threading.hpp>
#include <foonathan/memory/tracking.hpp>

namespace c08
{
    namespace fm = foonathan::memory;
    using namespace verif;

    //=== request shape ===//
    struct shape
    {
        u32 array = 0, count = 1, size = 0, align = 0;
        std::size_t bytes() const
        {
            return std::size_t(count) * size;
        }
        bool operator==(const shape& o) const
        {
            return array == o.array && count == o.count && size == o.size && align == o.align;
        }
        bool operator!=(const shape& o) const
        {
            return !(*this == o);
        }
        std::string str() const
        {
            return array ? fmt("array(%u x %u, align %u)", count, size, align) : fmt("node(%u, align %u)", size, align);
        }
    };
    inline shape node_shape(std::size_t size, std::size_t align)
    {
        shape s;
        s.array = 0;
        s.count = 1;
        s.size  = u32(size);
        s.align = u32(align);
        return s;
    }
    inline shape array_shape(std::size_t count, std::size_t size, std::size_t align)
    {
        shape s;
        s.array = 1;
        s.count = u32(count);
        s.size  = u32(size);
        s.align = u32(align);
        return s;
    }

    //=== violations of the current run ===//
    struct vio
    {
        std::string tag, detail;
    };
    inline std::vector<vio>& vios()
    {
        static std::vector<vio> v;
        return v;
    }
    inline void fail(const std::string& tag, const std::string& detail)
    {
        vios().push_back({tag, detail});
    }
    inline std::vector<std::string>& harness_errors()
    {
        static std::vector<std::string> v;
        return v;
    }
    inline void herror(const std::string& s)
    {
        if (harness_errors().size() < 20)
            harness_errors().push_back(s);
    }

    //=== the upstream: one static buffer, first fit at the lowest free address, 16 byte granules ===//
    constexpr std::size_t ARENA_BYTES = 1u << 15;
    constexpr int         OWNER_RAW   = 9;
    struct ublk
    {
        u32 off, size;
        int owner;
        u32 seq; // acquisition number (newest block of an owner = highest seq)
    };
    // placement policies: all of them are pure functions of the set of outstanding blocks and the per-owner block count
    enum
    {
        PLACE_ASC  = 0, // first fit at the LOWEST free address: every later block lies above the earlier ones
        PLACE_DESC = 1, // first fit at the HIGHEST free address: every later block lies BELOW the earlier ones
        PLACE_ALT  = 2  // per owner alternating lowest / highest / lowest ...: the third block of an owner lies BETWEEN its first two
    };
    struct upstream_t
    {
        alignas(4096) u8 mem[ARENA_BYTES];
        ublk b[128];
        int  n     = 0;
        int  place = PLACE_ASC;
        u32  lo = ARENA_BYTES, hi = 0; // dirty extent since the last reset
        u32  seq = 0;
        u32  per_owner[16];
        u64  allocs = 0, frees = 0;

        void reset()
        {
            if (hi > lo)
                std::memset(mem + lo, 0xA5, hi - lo);
            n   = 0;
            lo  = ARENA_BYTES;
            hi  = 0;
            seq = 0;
            std::memset(per_owner, 0, sizeof per_owner);
        }
        void* alloc(std::size_t bytes, int owner)
        {
            u32  sz      = u32((bytes + 15) & ~std::size_t(15));
            u32  k       = per_owner[owner & 15]++;
            bool highest = place == PLACE_DESC || (place == PLACE_ALT && (k & 1));
            if (n == 128 || sz == 0)
                return nullptr;
            u32 pos = 0;
            int i   = 0;
            if (!highest)
            {
                for (; i < n; ++i)
                {
                    if (b[i].off - pos >= sz)
                        break;
                    pos = b[i].off + b[i].size;
                }
                if (pos + sz > ARENA_BYTES)
                    return nullptr;
            }
            else
            {
                u32 end = ARENA_BYTES;
                i       = n;
                for (; i > 0; --i)
                {
                    if (end - (b[i - 1].off + b[i - 1].size) >= sz)
                        break;
                    end = b[i - 1].off;
                }
                if (end < sz)
                    return nullptr;
                pos = end - sz;
            }
            std::memmove(b + i + 1, b + i, std::size_t(n - i) * sizeof(ublk));
            b[i] = {pos, sz, owner, seq++};
            ++n;
            if (pos < lo)
                lo = pos;
            if (pos + sz > hi)
                hi = pos + sz;
            ++allocs;
            return mem + pos;
        }
        // bytes of all outstanding blocks + the block table (what "the upstream memory" means for the digests)
        void digest(hasher& h) const
        {
            for (int i = 0; i < n; ++i)
            {
                h.word(u64(b[i].off) | u64(b[i].size) << 32);
                h.bytes(mem + b[i].off, b[i].size);
            }
            h.word(u64(n));
        }
        void free(void* p, std::size_t bytes)
        {
            u32 off = u32(static_cast<u8*>(p) - mem);
            for (int i = 0; i < n; ++i)
                if (b[i].off == off)
                {
                    if (b[i].size != u32((bytes + 15) & ~std::size_t(15)))
                        fail("upstream-release-size", fmt("block at offset %u released with size %zu, allocated %u", off, bytes, b[i].size));
                    std::memmove(b + i, b + i + 1, std::size_t(n - i - 1) * sizeof(ublk));
                    --n;
                    ++frees;
                    return;
                }
            fail("upstream-release-unknown", fmt("release of offset %u which is not an outstanding block", off));
        }
        // index of the outstanding block containing [p, p+len), -1 if none
        int find(const void* p, std::size_t len) const
        {
            auto c = static_cast<const u8*>(p);
            if (c < mem || c >= mem + ARENA_BYTES)
                return -1;
            u64 off = u64(c - mem);
            for (int i = 0; i < n; ++i)
                if (off >= b[i].off && off + len <= u64(b[i].off) + b[i].size)
                    return i;
            return -1;
        }
        long off(const void* p) const
        {
            return long(static_cast<const u8*>(p) - mem);
        }
    };
    inline upstream_t& UP()
    {
        static upstream_t u;
        return u;
    }

    // BlockAllocator over the upstream: constant block size, every block tagged with an owner id
    // --grow 1: every block is twice as large as the one before it (what growing_block_allocator does), so that the blocks of ONE
    // allocator have different sizes (seed C08-N tested every block against the size of the newest one)
    inline int g_vblk_grow = 0;
    struct vblk
    {
        std::size_t bs;
        int         owner;
        vblk(std::size_t block_size, int owner_) noexcept : bs(block_size), owner(owner_) {}
        fm::memory_block allocate_block()
        {
            void* p = UP().alloc(bs, owner);
            if (!p)
                throw std::bad_alloc();
            fm::memory_block blk(p, bs);
            if (g_vblk_grow)
                bs *= 2;
            return blk;
        }
        void deallocate_block(fm::memory_block blk) noexcept
        {
            UP().free(blk.memory, blk.size);
        }
        std::size_t next_block_size() const noexcept
        {
            return bs;
        }
    };

    inline std::size_t r16(std::size_t x)
    {
        return (x + 15) & ~std::size_t(15);
    }

    inline void fill_pattern(void* p, std::size_t n, u32 id)
    {
        auto c = static_cast<u8*>(p);
        for (std::size_t i = 0; i < n; ++i)
            c[i] = u8(0x40 + ((id * 7 + i * 3) & 0x3f));
    }
    inline bool check_pattern(const void* p, std::size_t n, u32 id)
    {
        auto c = static_cast<const u8*>(p);
        for (std::size_t i = 0; i < n; ++i)
            if (c[i] != u8(0x40 + ((id * 7 + i * 3) & 0x3f)))
                return false;
        return true;
    }

    //=== small open addressing set of 64 bit keys (distinct state counting) ===//
    struct u64set
    {
        std::vector<u64> t;
        std::size_t      n = 0;
        u64set() : t(1 << 12, 0) {}
        bool insert(u64 k)
        {
            if (k == 0)
                k = 1;
            if ((n + 1) * 2 > t.size())
                grow();
            std::size_t m = t.size() - 1, i = std::size_t(k * 0x9E3779B97F4A7C15ull >> 20) & m;
            while (t[i])
            {
                if (t[i] == k)
                    return false;
                i = (i + 1) & m;
            }
            t[i] = k;
            ++n;
            return true;
        }
        void grow()
        {
            std::vector<u64> old;
            old.swap(t);
            t.assign(old.size() * 2, 0);
            n = 0;
            for (u64 k : old)
                if (k)
                    insert(k);
        }
    };

    //=== counters ===//
    inline std::map<std::string, long long>& counters()
    {
        static std::map<std::string, long long> c;
        return c;
    }
    // events are counted only for the LAST operation of a sequence that is evaluated for the first time
    // (prefixes are replays of sequences that were counted before)
    inline int& count_from()
    {
        static int c = 1 << 30;
        return c;
    }
    inline bool& counting()
    {
        static bool c = false;
        return c;
    }
    inline void bump(const char* k, long long d = 1)
    {
        if (counting())
            counters()[k] += d;
    }
    inline std::set<std::string>& class_keys()
    {
        static std::set<std::string> s;
        return s;
    }

    //=== a system under enumeration ===//
    struct outcome
    {
        std::vector<vio> v;
        std::vector<int> next; // operations enabled after the sequence
        u64              state = 0;
        std::string      trace;
    };
    struct system_t
    {
        virtual ~system_t() {}
        virtual std::string name() const                                                       = 0;
        virtual void        run(const std::vector<int>& ops, outcome& out, bool verbose)       = 0;
        virtual std::string describe(const std::vector<int>& ops)                              = 0; // readable, via a run
    };

    struct found_t
    {
        std::string      tag, detail;
        std::vector<int> ops;
        long long        occurrences = 0;
    };

    struct explorer
    {
        system_t&            sys;
        int                  maxd, shard, of;
        u64                  sequences = 0, violating = 0, contained = 0;
        std::vector<u64>     per_depth;
        u64set               states;
        std::vector<found_t> found;
        std::vector<std::vector<int>> samples;
        bool                 stop = false, unconfirmed = false;

        explorer(system_t& s, int d, int sh, int o) : sys(s), maxd(d), shard(sh), of(o), per_depth(std::size_t(d) + 1, 0) {}

        void record(const std::vector<int>& seq, const outcome& o)
        {
            ++violating;
            for (auto& x : o.v)
            {
                if (x.tag == "aborted" || x.tag == "crashed" || x.tag == "hung")
                    ++contained;
                bool known = false;
                for (auto& f : found)
                    if (f.tag == x.tag)
                    {
                        ++f.occurrences;
                        known = true;
                    }
                if (known)
                    continue;
                // confirm: run the same sequence a second time
                outcome again;
                sys.run(seq, again, false);
                bool same = false;
                for (auto& y : again.v)
                    same = same || y.tag == x.tag;
                if (!same)
                {
                    unconfirmed = true;
                    herror("violation '" + x.tag + "' did not reproduce on the second run: " + x.detail);
                    continue;
                }
                found_t f;
                f.tag         = x.tag;
                f.detail      = x.detail;
                f.ops         = seq;
                f.occurrences = 1;
                found.push_back(f);
            }
            if (violating >= 300 || contained >= 6 || found.size() >= 12)
                stop = true;
        }

        // iterative deepening: pass `limit` evaluates exactly the sequences of length `limit` (shorter ones are only
        // replayed to obtain the enabled operations); the first length with a violation ends the search, so
        // witnesses are shortest counterexamples
        void dfs(std::vector<int>& seq, const std::vector<int>& enabled, int limit)
        {
            int ci = 0;
            for (int op : enabled)
            {
                if (seq.empty() && of > 1 && (ci++ % of) != shard)
                    continue;
                seq.push_back(op);
                bool    last = int(seq.size()) == limit;
                outcome o;
                count_from() = last ? limit - 1 : (1 << 30);
                sys.run(seq, o, false);
                count_from() = 1 << 30;
                if (last)
                {
                    ++sequences;
                    ++per_depth[seq.size()];
                    states.insert(o.state);
                    if (samples.size() < 3 && limit == maxd && (sequences % 977) == 1)
                        samples.push_back(seq);
                    if (!o.v.empty())
                        record(seq, o);
                }
                else if (o.v.empty())
                    dfs(seq, o.next, limit);
                seq.pop_back();
                if (stop)
                    return;
            }
        }

        void go()
        {
            std::vector<int> seq;
            outcome          root;
            count_from() = 1 << 30;
            sys.run(seq, root, false);
            states.insert(root.state);
            if (!root.v.empty())
            {
                record(seq, root);
                stop = true;
                return;
            }
            for (int limit = 1; limit <= maxd && !stop; ++limit)
            {
                dfs(seq, root.next, limit);
                if (!found.empty() || violating)
                    stop = true;
            }
        }
    };

    inline std::string ops_json(const std::vector<int>& ops)
    {
        jarr a;
        for (int o : ops)
            a.raw(std::to_string(o));
        return a.done();
    }

    // minimal parser for {"scen":"..","ops":[..]}
    inline bool parse_replay(const std::string& js, std::string& scen, std::vector<int>& ops)
    {
        auto ps = js.find("\"scen\"");
        if (ps != std::string::npos)
        {
            auto q1 = js.find('"', js.find(':', ps));
            auto q2 = js.find('"', q1 + 1);
            if (q1 == std::string::npos || q2 == std::string::npos)
                return false;
            scen = js.substr(q1 + 1, q2 - q1 - 1);
        }
        auto po = js.find("\"ops\"");
        if (po == std::string::npos)
            return false;
        auto b = js.find('[', po), e = js.find(']', po);
        if (b == std::string::npos || e == std::string::npos)
            return false;
        ops.clear();
        std::size_t i = b + 1;
        while (i < e)
        {
            while (i < e && (js[i] == ' ' || js[i] == ','))
                ++i;
            if (i >= e)
                break;
            ops.push_back(std::atoi(js.c_str() + i));
            while (i < e && js[i] != ',')
                ++i;
        }
        return true;
    }
} // namespace c08

#endif
