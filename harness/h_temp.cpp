// C14: temporary allocations end with their scope; each live thread has its own temporary stack.
//
// Deciding step: exhaustive enumeration on the REAL code of src/temporary_allocator.cpp
//   (a) concurrent part (mode 2): every schedule with <= B preemptions of every small program of 2..4 real threads over
//       {I+ I- G S} (+ what the main thread does), scheduling points = EVERY atomic operation of the library TU
//       (engine/atomic_shim.hpp, no hook in /repo), one forked child per (program, schedule) so that thread exit and
//       program exit (static destructors, nifty counter) are part of every execution;
//   (b) sequential part (modes 1 and 2): every valid sequence up to a depth over {I+ I- G O C a1 a2 a3} in one thread.
//
//   h_temp --conc --threads N --len L --bound B [--mains NBA] [--part k/n] [--tolerate tag,..] --tier t --out f
//   h_temp --seq --depth D [--fresh_depth F] [--part k/n] --tier t --out f
//   h_temp --replay '{"mode":"conc","main":"N","threads":[[2],[0,1,2]],"schedule":[0,0,1]}'
//   h_temp --replay '{"mode":"seq","warm":1,"ops":[0,3,6,6,6,6]}'
// Link: g++ <shimmed temporary_allocator.o> h_temp.cpp libfm.a -Wl,--wrap=abort -Wl,--wrap=malloc -Wl,--wrap=free
#define VERIF_NO_WRAP_ABORT_DEF
#include "../engine/core.hpp"
#include "../engine/sched.hpp"

#include <foonathan/memory/debugging.hpp>
#include <foonathan/memory/error.hpp>
#include <foonathan/memory/heap_allocator.hpp>
#include <foonathan/memory/temporary_allocator.hpp>

#include <algorithm>
#include <map>
#include <memory>
#include <dirent.h>
#include <fcntl.h>
#include <poll.h>
#include <sys/resource.h>
#include <set>
#include <sys/mman.h>
#include <sys/wait.h>
#include <unordered_set>

namespace fm = foonathan::memory;
using namespace verif;

#ifndef FOONATHAN_MEMORY_TEMPORARY_STACK_MODE
#error "config not included"
#endif
#define TSM FOONATHAN_MEMORY_TEMPORARY_STACK_MODE

//=====================================================================================================
// process-wide observation state (plain data: usable from malloc wrappers and at exit)
//=====================================================================================================
enum
{
    MAXT   = sched::max_threads + 1, // scheduled threads + the main thread (last index used = n)
    MAXBLK = 512
};
struct blk
{
    void*       p;
    std::size_t n;
};
static blk         g_live[MAXBLK];
static int         g_nlive = 0;
static long        g_mallocs = 0, g_frees = 0, g_unknown_frees = 0;
static long        g_stackobj_allocs[MAXT]; // allocations of size "one temporary_stack" per thread index
static long        g_leak_calls = 0, g_leak_amount = 0, g_invptr_calls = 0;
static int         g_fd          = -1; // child: write end of the result pipe
static bool        g_is_child    = false, g_exit_record = false, g_verbose = false;
static int         g_nthreads    = 0;  // scheduled threads of the current execution (main has index g_nthreads)
static const void* g_head        = nullptr; // address of the atomic list head (first atomic pointer the library TU touched)
static long        g_points      = 0;

static std::size_t stackobj_size()
{
    return sizeof(fm::temporary_stack) + (fm::detail::debug_fence_size ? 2 * fm::detail::max_alignment : 0u);
}
static int me()
{
    int s = sched::self();
    return s >= 0 ? s : g_nthreads;
}

extern "C" void* __real_malloc(std::size_t);
extern "C" void  __real_free(void*);
extern "C" void  __real_abort(void);

//=== child -> parent messages: [u32 type][u32 len][payload] ===//
static void send_msg(char type, const void* data, std::size_t len)
{
    if (g_fd < 0)
        return;
    char          buf[8 + 4096];
    std::uint32_t t = std::uint32_t(type), l = std::uint32_t(len);
    if (len <= 4096)
    {
        std::memcpy(buf, &t, 4);
        std::memcpy(buf + 4, &l, 4);
        std::memcpy(buf + 8, data, len);
        (void)!write(g_fd, buf, 8 + len);
        return;
    }
    std::memcpy(buf, &t, 4);
    std::memcpy(buf + 4, &l, 4);
    (void)!write(g_fd, buf, 8);
    auto c = static_cast<const char*>(data);
    while (len)
    {
        ssize_t k = write(g_fd, c, len);
        if (k <= 0)
            break;
        c += k;
        len -= std::size_t(k);
    }
}

struct violation
{
    std::string tag, detail;
};
static std::vector<violation> g_viol; // of the current execution / sequence (first of every tag)

static void viol(const std::string& tag, const std::string& detail)
{
    for (auto& v : g_viol)
        if (v.tag == tag)
            return;
    g_viol.push_back({tag, detail});
    if (g_verbose)
        dprintf(2, "    !! [%s] %s\n", tag.c_str(), detail.c_str());
    std::string m = tag;
    m.push_back('\0');
    m += detail;
    send_msg('V', m.data(), m.size());
}

[[noreturn]] static void child_fatal(int code)
{
    _exit(code);
}

static int  g_fail_in  = 0;     // > 0: the g_fail_in-th library malloc from now on returns null (fault injection, sequential part)
static bool g_fail_hit = false;
extern "C" void* __wrap_malloc(std::size_t n)
{
    if (g_fail_in > 0 && --g_fail_in == 0)
    {
        g_fail_hit = true;
        return nullptr;
    }
    void* p = __real_malloc(n);
    ++g_mallocs;
    if (p && g_nlive < MAXBLK)
        g_live[g_nlive++] = {p, n};
    if (n == stackobj_size())
        ++g_stackobj_allocs[me()];
    return p;
}
extern "C" void __wrap_free(void* p)
{
    if (!p)
        return;
    for (int i = 0; i < g_nlive; ++i)
        if (g_live[i].p == p)
        {
            g_live[i] = g_live[--g_nlive];
            ++g_frees;
            __real_free(p);
            return;
        }
    ++g_unknown_frees; // never handed out, or already returned: do not pass it on (glibc would abort)
    if (g_is_child)
        viol("bad-free", "the library returned a block to the heap that is not outstanding (double free / foreign pointer)");
}
extern "C" void __wrap_abort(void)
{
    if (g_is_child)
    {
        viol("abort", "the library called abort() (assertion, unreachable code or a default handler)");
        child_fatal(86);
    }
    __real_abort();
    for (;;)
    {
    }
}

static void leak_h(const fm::allocator_info& info, std::ptrdiff_t amount)
{
    ++g_leak_calls;
    g_leak_amount += long(amount);
    if (g_verbose)
        dprintf(2, "    leak handler: %s leaked %ld bytes\n", info.name, long(amount));
}
static void invptr_h(const fm::allocator_info& info, const void*)
{
    ++g_invptr_calls;
    viol("invalid-pointer-report",
         std::string("the library's invalid-pointer handler was called by ") + info.name + " during a valid use of temporary allocators");
    if (g_is_child)
        child_fatal(87); // the handler is required not to return
}
static void badsize_h(const fm::allocator_info&, std::size_t, std::size_t) {}
static void oom_h(const fm::allocator_info&, std::size_t) {}

struct exit_rec
{
    long live_blocks, live_bytes, mallocs, frees, leak_calls, leak_amount, invptr_calls, unknown_frees;
};
// constructed before every other static object of the program (init_priority 101), hence destroyed after all of them:
// after the library's nifty counter destroyed the stacks and after the global leak checker of heap_allocator reported
struct exit_checker
{
    int armed;
    exit_checker() : armed(1) {}
    ~exit_checker()
    {
        if (!g_is_child || !g_exit_record)
            return;
        exit_rec e{};
        e.live_blocks = g_nlive;
        for (int i = 0; i < g_nlive; ++i)
            e.live_bytes += long(g_live[i].n);
        e.mallocs       = g_mallocs;
        e.frees         = g_frees;
        e.leak_calls    = g_leak_calls;
        e.leak_amount   = g_leak_amount;
        e.invptr_calls  = g_invptr_calls;
        e.unknown_frees = g_unknown_frees;
        send_msg('E', &e, sizeof e);
    }
};
__attribute__((init_priority(101))) static exit_checker g_exit_checker;

//=====================================================================================================
// looking at the library's state (private members through -fno-access-control; never through the shim)
//=====================================================================================================
using tstack = fm::temporary_stack;

#if TSM >= 2
using lnode = fm::detail::temporary_stack_list_node;
static lnode* list_head()
{
    if (!g_head)
        return nullptr;
    return reinterpret_cast<const std::atomic<lnode*>*>(g_head)->load();
}
// fills flags/pos; returns number of nodes, -1 if the list is not a finite chain
static int list_walk(const tstack* find, int* pos, bool* in_use, int cap)
{
    int k = 0;
    if (pos)
        *pos = -2;
    for (lnode* n = list_head(); n; n = n->next_)
    {
        if (k >= cap)
            return -1;
        if (in_use)
            in_use[k] = n->in_use_.load();
        if (pos && (const tstack*)n == find /* C cast: private base */)
            *pos = k;
        ++k;
    }
    return k;
}
static int list_pos(const tstack* s)
{
    int p;
    list_walk(s, &p, nullptr, 64);
    return p;
}
static int list_free_count()
{
    bool f[64];
    int  n = list_walk(nullptr, nullptr, f, 64), c = 0;
    for (int i = 0; i < n; ++i)
        c += !f[i];
    return c;
}
#else
static int list_pos(const tstack*)
{
    return 0;
}
static int list_free_count()
{
    return 0;
}
#endif

struct snap
{
    std::size_t              index = 0, arena_size = 0;
    const char*              top   = nullptr;
    const char*              end   = nullptr;
    fm::temporary_allocator* active = nullptr;
    bool operator==(const snap& o) const
    {
        return index == o.index && arena_size == o.arena_size && top == o.top && end == o.end && active == o.active;
    }
};
static bool stack_alive(const tstack& s); // forward
static snap take(const tstack& s)
{
    snap r;
    r.arena_size = s.stack_.arena_.size();
    r.active     = s.top_;
    if (r.arena_size == 0)
        return r; // destroyed / empty: top() would dereference a null block
    auto m  = s.top();
    r.index = m.index;
    r.top   = m.top;
    r.end   = m.end;
    return r;
}
static std::string snap_str(const tstack& s, const snap& x)
{
    if (!x.arena_size)
        return "(no block)";
    auto b = s.stack_.arena_.size() ? s.stack_.arena_.current_block() : fm::memory_block();
    (void)b;
    return fmt("block #%zu, %ld bytes below its end, %zu block(s) in use, active allocator %s", x.index, long(x.end - x.top),
               x.arena_size, x.active ? "set" : "none");
}
static const blk* live_block_containing(const void* p, std::size_t n)
{
    auto c = static_cast<const char*>(p);
    for (int i = 0; i < g_nlive; ++i)
    {
        auto b = static_cast<const char*>(g_live[i].p);
        if (c >= b && c + n <= b + g_live[i].n)
            return &g_live[i];
    }
    return nullptr;
}
// "no use of a destroyed stack": the stack owns at least one block and its current block is outstanding heap memory
static bool stack_alive(const tstack& s)
{
    if (s.stack_.arena_.size() == 0)
        return false;
    auto b = s.stack_.arena_.current_block();
    return b.memory && live_block_containing(b.memory, b.size) != nullptr;
}

//=====================================================================================================
// per-thread model + oracles shared by both parts
//=====================================================================================================
struct tmodel
{
    const tstack* cur  = nullptr; // stack this thread currently uses (last one handed to it, not given up)
    bool          has  = false;   // the thread owns a stack according to the documented behaviour
    bool          releasing = false; // the thread has begun to give the stack up (initializer destructor / thread exit); it
                                     // still counts as user until the library marks the stack free (its next atomic store)
    int           step = 0;
    // acquire operation in progress
    bool acquiring = false;
    int  free_at_start = 0, overlaps = 0;
    long objs_at_start = 0;
    std::size_t first_next_block = 0; // block size the stack's allocator would use next, when the thread got the stack
};
static tmodel T[MAXT];

struct counters
{
    long acquires = 0, adoptions = 0, creations = 0, scopes = 0, scopes_over_blocks = 0, scopes_grown_twice = 0, grows = 0,
         size_exceptions = 0, reacquire_after_release = 0, releases = 0, excl_checks = 0, points = 0, max_stacks = 0,
         inside_checks = 0, contended_acquires = 0, release_checks = 0, release_checks_grown = 0, faults_hit = 0, faults_not_reached = 0, retries_after_fault = 0, closes_with_shrink = 0, outer_active_checks = 0;
};
static counters C;

static void check_exclusive(const char* where)
{
    ++C.excl_checks;
    int n = g_nthreads + 1;
    for (int i = 0; i < n; ++i)
        if (T[i].cur)
            for (int j = i + 1; j < n; ++j)
                if (T[j].cur == T[i].cur)
                {
                    auto nm = [&](int k) { return k == g_nthreads ? std::string("main") : fmt("T%d", k); };
                    viol("shared-stack", fmt("%s and %s both use temporary stack #%d (list position) at the same time (seen %s)",
                                             nm(i).c_str(), nm(j).c_str(), list_pos(T[i].cur), where));
                    return;
                }
}

static void acquire_begin(int id)
{
    tmodel& t       = T[id];
    t.acquiring     = true;
    t.free_at_start = list_free_count();
    t.overlaps      = 0;
    t.objs_at_start = g_stackobj_allocs[id];
    for (int i = 0; i <= g_nthreads; ++i)
        if (i != id && T[i].acquiring)
        {
            ++t.overlaps;
            ++T[i].overlaps;
        }
    ++C.acquires;
    if (t.overlaps)
        ++C.contended_acquires;
}
static void acquire_end(int id, const tstack* got, bool was_released_before)
{
    tmodel& t   = T[id];
    t.acquiring = false;
    t.cur       = got;
    t.has       = true;
    t.first_next_block = const_cast<tstack*>(got)->stack_.get_allocator().next_block_size();
    long created = g_stackobj_allocs[id] - t.objs_at_start;
    if (created)
        ++C.creations;
    else
        ++C.adoptions;
    if (was_released_before)
        ++C.reacquire_after_release;
    if (created > 1)
        viol("no-reuse", fmt("one acquisition allocated %ld temporary_stack objects", created));
    // every other acquisition that overlaps this one takes at most one of the stacks that were free when it began
    if (created && t.free_at_start > t.overlaps)
        viol("no-reuse", fmt("a new temporary_stack was allocated although %d stack(s) of finished/released owners were free when the "
                             "acquisition began and only %d other acquisition(s) overlapped it",
                             t.free_at_start, t.overlaps));
    if (!stack_alive(*got))
        viol("dead-stack", "the thread was handed a temporary stack that owns no outstanding memory block (destroyed stack)");
#if TSM >= 2
    if (!((const lnode*)got)->in_use_.load())
        viol("stack-marked-free", "the stack handed to the thread is marked free in the list");
    {
        int n = list_walk(nullptr, nullptr, nullptr, 64);
        if (n < 0)
            viol("list-corrupt", "the stack list is not a finite chain");
        if (n > C.max_stacks)
            C.max_stacks = n;
        if (list_pos(got) < 0)
            viol("list-corrupt", "the stack handed to the thread is not in the list");
    }
#endif
    check_exclusive("after an acquisition");
}
// the thread starts giving its stack up. It keeps counting as the stack's user until the library marks the stack free
// (release_effective(), called by the hook when the thread passes its next atomic store) or the operation is over
static void give_up(int id)
{
    if (T[id].cur || T[id].has)
        ++C.releases;
    T[id].has       = false;
    T[id].releasing = T[id].cur != nullptr;
}
static void release_effective(int id)
{
    T[id].cur       = nullptr;
    T[id].releasing = false;
}
// constructed first in every scheduled thread => destroyed after the library's thread-exit detector
struct thread_gone
{
    int id = -1;
    ~thread_gone()
    {
        if (id >= 0)
            release_effective(id);
    }
};
static thread_local thread_gone tl_gone;

// one scope object with its oracle
struct scope_rec
{
    fm::temporary_allocator* t = nullptr;
    const tstack*            s = nullptr;
    snap                     at_ctor;
    fm::temporary_allocator* prev = nullptr;
    bool                     shrink = false; // shrink_to_fit() was requested on this allocator
};
static void check_alloc(const scope_rec& sc, void* p, std::size_t n, std::size_t al)
{
    ++C.inside_checks;
    if (!p)
    {
        viol("null", "temporary_allocator::allocate returned null");
        return;
    }
    if (reinterpret_cast<std::uintptr_t>(p) % al)
        viol("misaligned", fmt("allocate(%zu,%zu) returned a misaligned address", n, al));
    auto& ar = sc.s->stack_.arena_;
    auto  b  = ar.current_block();
    auto  c  = static_cast<char*>(p);
    if (!(c >= static_cast<char*>(b.memory) && c + n <= static_cast<char*>(b.memory) + b.size))
        viol("outside-stack", fmt("allocate(%zu,%zu) returned memory outside the current block of the thread's temporary stack", n, al));
    else if (!live_block_containing(p, n))
        viol("outside-stack", fmt("allocate(%zu,%zu) returned memory that is not inside an outstanding heap block", n, al));
    else
        std::memset(p, 0xA5, n); // use it
}
static scope_rec open_scope(int id)
{
    tmodel&   t = T[id];
    scope_rec sc;
    bool      had = t.has, released = !t.has && t.step > 0;
    snap      before;
    if (had && t.cur)
        before = take(*t.cur);
    if (!had)
        acquire_begin(id);
    sc.t = new fm::temporary_allocator();
    sc.s = &sc.t->get_stack();
    if (!had)
        acquire_end(id, sc.s, released);
    else if (sc.s != t.cur)
    {
        viol("stack-changed", "a temporary_allocator of a thread that already has a stack uses a different one");
        t.cur = sc.s;
    }
    if (!stack_alive(*sc.s))
        viol("dead-stack", "a temporary_allocator was constructed on a temporary stack that owns no outstanding memory block");
    sc.at_ctor = take(*sc.s);
    sc.prev    = had ? before.active : nullptr;
    if (sc.at_ctor.active != sc.t)
        viol("not-active", "a freshly constructed temporary_allocator is not the active one of its stack");
    if (had)
    {
        before.active = sc.t;
        if (!(before == sc.at_ctor))
            viol("ctor-moved-top", "constructing a temporary_allocator changed the top of the stack");
    }
    ++C.scopes;
    return sc;
}
static void close_scope(scope_rec& sc)
{
    snap        now  = take(*sc.s);
    std::size_t over = now.index - sc.at_ctor.index;
    if (over >= 1)
        ++C.scopes_over_blocks;
    if (over >= 2)
        ++C.scopes_grown_twice;
    delete sc.t;
    sc.t        = nullptr;
    snap after  = take(*sc.s);
    snap expect = sc.at_ctor;
    expect.active = sc.prev;
    if (!(after == expect))
        viol("scope-not-restored",
             fmt("after ~temporary_allocator the stack is not as it was at construction: expected [%s], found [%s] (the scope "
                 "extended over %zu more block(s))",
                 snap_str(*sc.s, expect).c_str(), snap_str(*sc.s, after).c_str(), over));
    if (after.active != sc.prev)
        viol("active-chain-broken", sc.prev ? "after an inner temporary_allocator was destroyed the enclosing one is not the active allocator of the stack again"
                                            : "after the outermost temporary_allocator was destroyed the stack still names an active allocator (dangling)");
    if (sc.shrink)
    {
        ++C.closes_with_shrink;
        if (sc.s->stack_.arena_.cache_size() != 0)
            viol("shrink-not-honoured", fmt("shrink_to_fit() had been requested on the temporary_allocator, but after its destruction the stack still caches %zu block(s)",
                                            sc.s->stack_.arena_.cache_size()));
    }
}
static void scope_alloc(scope_rec& sc, std::size_t n, std::size_t al)
{
    std::size_t before = sc.s->stack_.arena_.size();
    void*       p      = nullptr;
    try
    {
        p = sc.t->allocate(n, al);
    }
    catch (const fm::bad_allocation_size&)
    {
        ++C.size_exceptions; // documented: the request does not fit into the next block
        if (sc.s->stack_.arena_.size() > before)
            ++C.grows;
        return;
    }
    if (sc.s->stack_.arena_.size() > before)
        ++C.grows;
    check_alloc(sc, p, n, al);
}

//=====================================================================================================
// (a) concurrent part
//=====================================================================================================
enum cop
{
    OP_IPLUS  = 0, // construct a temporary_stack_initializer(128)
    OP_IMINUS = 1, // destroy the most recent one
    OP_G      = 2, // get_temporary_stack(128)
    OP_S      = 3, // { temporary_allocator t; t.allocate(24,8); { temporary_allocator u; u.allocate(100,16); } }
    N_COPS
};
static const char* const COP_NAME[N_COPS] = {"I+", "I-", "G", "S"};
static const std::size_t SMALL = 128;

struct cprog
{
    char                          main_mode = 'N'; // N: main never uses a temporary allocator, B: before the threads start, A: after they finished
    std::vector<std::vector<int>> th;
};
static std::string prog_str(const cprog& p)
{
    std::string s = fmt("main:%c", p.main_mode);
    for (std::size_t i = 0; i < p.th.size(); ++i)
    {
        s += fmt(" T%zu:[", i);
        for (std::size_t k = 0; k < p.th[i].size(); ++k)
            s += std::string(k ? " " : "") + COP_NAME[p.th[i][k]];
        s += "]";
    }
    return s;
}
static std::string ints_json(const std::vector<int>& v)
{
    jarr a;
    for (int x : v)
        a.raw(std::to_string(x));
    return a.done();
}
static std::string case_json(const cprog& p, const std::vector<sched::u8>& sch)
{
    jarr th;
    for (auto& t : p.th)
        th.raw(ints_json(t));
    jarr s;
    for (auto x : sch)
        s.raw(std::to_string(int(x)));
    return jobj().str("mode", "conc").str("main", std::string(1, p.main_mode)).raw("threads", th.done()).str("program", prog_str(p)).raw("schedule", s.done()).done();
}

static void vsay(const char* f, ...)
{
    if (!g_verbose)
        return;
    char    buf[512];
    va_list ap;
    va_start(ap, f);
    std::vsnprintf(buf, sizeof buf, f, ap);
    va_end(ap);
    (void)!write(2, buf, std::strlen(buf));
}

static void run_scope_step(int id)
{
    scope_rec a = open_scope(id);
    scope_alloc(a, 24, 8);
    {
        scope_rec b = open_scope(id);
        scope_alloc(b, 100, 16);
        close_scope(b);
    }
    close_scope(a);
}

static void thread_program(int id, const std::vector<int>& ops)
{
    tmodel&                                                  t = T[id];
    std::vector<std::unique_ptr<fm::temporary_stack_initializer>> inits;
    if (id != g_nthreads)
        tl_gone.id = id;
    for (int op : ops)
    {
        bool released = !t.has && t.step > 0;
        switch (op)
        {
        case OP_IPLUS:
        {
            bool had = t.has;
            if (!had)
                acquire_begin(id);
            inits.emplace_back(new fm::temporary_stack_initializer(SMALL));
            if (!had)
                acquire_end(id, &fm::get_temporary_stack(SMALL), released);
            break;
        }
        case OP_IMINUS:
            give_up(id);
            inits.pop_back(); // marks the stack free: from then on another thread may adopt it
            release_effective(id);
            break;
        case OP_G:
        {
            bool had = t.has;
            if (!had)
                acquire_begin(id);
            const tstack* s = &fm::get_temporary_stack(SMALL);
            if (!had)
                acquire_end(id, s, released);
            else if (s != t.cur)
                viol("stack-changed", "get_temporary_stack() returned a different stack to a thread that already has one");
            break;
        }
        case OP_S:
            run_scope_step(id);
            break;
        }
        ++t.step;
        vsay("  %s finished step %d (%s): uses stack #%d\n", id == g_nthreads ? "main" : fmt("T%d", id).c_str(), t.step, COP_NAME[op],
             t.cur ? list_pos(t.cur) : -1);
        check_exclusive("after a step");
    }
    while (!inits.empty())
    {
        give_up(id);
        inits.pop_back();
        release_effective(id);
    }
    give_up(id); // thread exit: the library's thread-exit detector releases the stack after this point (tl_gone ends the use)
}

struct cworld : sched::world
{
    cprog p;
    int   threads() override
    {
        return int(p.th.size());
    }
    void run_thread(int id) override
    {
        thread_program(id, p.th[std::size_t(id)]);
    }
    sched::u64 state_hash() override
    {
        sched::u64 h = 0x51ed270b;
#if TSM >= 2
        bool f[64];
        int  n = list_walk(nullptr, nullptr, f, 64);
        h      = sched::detail::mix(h, sched::u64(n + 1));
        for (int i = 0; i < n && i < 64; ++i)
            h = sched::detail::mix(h, f[i]);
#endif
        for (int i = 0; i <= g_nthreads; ++i)
            h = sched::detail::mix(h, sched::u64(T[i].step) | (sched::u64(T[i].has) << 8) | (sched::u64(T[i].acquiring) << 9)
                                          | (sched::u64(T[i].cur ? list_pos(T[i].cur) + 3 : 0) << 16));
        return h;
    }
};

// the hook called by the shimmed library TU before every atomic operation
static bool is_leak_counter(const void* o)
{
    using chk = fm::detail::global_leak_checker_impl<fm::detail::lowlevel_allocator_leak_handler<fm::detail::heap_allocator_impl>>;
    return o == static_cast<const void*>(&chk::allocated_) || o == static_cast<const void*>(&chk::no_counter_objects_);
}
extern "C" void verif_atomic_point(const char* what, const void* object, int kind)
{
    if (is_leak_counter(object))
        return; // byte counter of heap_allocator's global leak checker: not part of the stack list
    if (kind == 1 && !g_head)
        g_head = object;
#if TSM >= 2
    // state oracle at the moment a thread marks its stack free (this hook runs BEFORE the store): the stack must already be
    // cleared, because from the store on another thread may adopt and re-initialise it. There is no atomic operation
    // between the store and the end of the release, so this cannot be left to the interleavings.
    if (kind == 2 && std::strcmp(what, "atomic.store") == 0)
    {
        tmodel& t = T[me()];
        if (t.releasing && t.cur && object == static_cast<const void*>(&((const lnode*)t.cur)->in_use_))
        {
            ++C.release_checks;
            auto& ar = t.cur->stack_.arena_;
            if (const_cast<tstack*>(t.cur)->stack_.get_allocator().next_block_size() > t.first_next_block)
                ++C.release_checks_grown; // the stack grew while this thread owned it: the cache was non-empty before the release
            if (ar.cache_size() != 0)
            {
                viol("released-before-cleared",
                     fmt("the stack is marked free while its arena still caches %zu block(s): the owner gives the stack up before it has "
                         "finished shrink_to_fit(), another thread can adopt and re-initialise it meanwhile",
                         ar.cache_size()));
            }
        }
    }
#endif
    if (!sched::in_execution())
        return;
    ++C.points;
    check_exclusive("at a scheduling point");
    vsay("    T%d about to do %s on %s\n", sched::self(), what, kind == 1 ? "the list head" : (kind == 2 ? "an in_use flag" : "an atomic"));
    sched::point(what);
    if (kind == 2 && T[sched::self()].releasing && std::strcmp(what, "atomic.store") == 0)
        release_effective(sched::self()); // the store that marks the stack free is executed now
}

struct run_wire
{
    std::uint32_t flags, preemptions, blocked, ntrace;
};
struct step_wire
{
    std::uint8_t  chosen, enabled, cost;
    std::int8_t   cur;
    std::uint32_t pad;
    std::uint64_t tag, hash;
};

static void main_use()
{
    int id = g_nthreads;
    run_scope_step(id);
    ++T[id].step;
    vsay("  main used a temporary allocator: stack #%d\n", T[id].cur ? list_pos(T[id].cur) : -1);
    check_exclusive("after main's use");
}

// runs in the forked child; never returns
[[noreturn]] static void child_conc(const cprog& p, const std::vector<sched::u8>& prefix)
{
    g_nthreads = int(p.th.size());
    auto w     = new cworld;
    w->p       = p;
    if (p.main_mode == 'B')
        main_use();
    sched::run_options ro;
    ro.max_steps = 400;
    sched::run_result r = sched::run(*w, prefix, ro);
    // stream the result
    {
        std::vector<char> buf(sizeof(run_wire) + r.trace.size() * sizeof(step_wire));
        run_wire          rw;
        rw.flags = (r.complete ? 1u : 0) | (r.deadlock ? 2u : 0) | (r.horizon ? 4u : 0) | (r.diverged ? 8u : 0) | (r.killed ? 16u : 0)
                   | (r.threw ? 32u : 0) | (r.clean ? 64u : 0);
        rw.preemptions = std::uint32_t(r.preemptions);
        rw.blocked     = r.blocked_at_end;
        rw.ntrace      = std::uint32_t(r.trace.size());
        std::memcpy(buf.data(), &rw, sizeof rw);
        for (std::size_t i = 0; i < r.trace.size(); ++i)
        {
            step_wire s{};
            s.chosen  = r.trace[i].chosen;
            s.enabled = r.trace[i].enabled;
            s.cost    = r.trace[i].cost;
            s.cur     = r.trace[i].cur;
            s.tag     = reinterpret_cast<std::uint64_t>(r.trace[i].tag); // static string: same address in the parent
            s.hash    = r.state_hashes[i];
            std::memcpy(buf.data() + sizeof rw + i * sizeof s, &s, sizeof s);
        }
        send_msg('R', buf.data(), buf.size());
    }
    if (!r.clean)
    {
        send_msg('C', &C, sizeof C);
        child_fatal(0); // threads are parked for ever: no orderly exit possible
    }
#if TSM >= 2
    // quiescence: all threads finished => every stack is free again, except the one main holds
    {
        bool f[64];
        int  n = list_walk(nullptr, nullptr, f, 64);
        int  mainpos = T[g_nthreads].cur ? list_pos(T[g_nthreads].cur) : -1;
        for (int i = 0; i < n; ++i)
            if (f[i] && i != mainpos)
            {
                viol("stack-not-released", fmt("all threads have finished but temporary stack #%d of %d is still marked in use: the stack of a "
                                               "finished thread was not released for reuse",
                                               i, n));
                break;
            }
    }
#endif
    if (p.main_mode == 'A')
        main_use();
    send_msg('C', &C, sizeof C);
    g_exit_record = true;
    std::exit(0); // main-thread thread_local destructors, static destructors, nifty counter; exit_checker reports last
}

//=== parent side ===//
struct exec_result
{
    bool                   gotR = false, gotE = false, gotC = false, timed_out = false;
    bool                   cut = false; // 'K': the child ended early on purpose after a tolerated known finding (no exit record)
    sched::run_result      r;
    std::vector<violation> v;
    exit_rec               e{};
    counters               c;
    int                    status = 0;
    std::vector<sched::u64> hashes; // 'H' (sequential part)
};

// "hung" must not depend on how busy the machine is: a child that merely waits for a cpu is not hung.
//  * spinning: RLIMIT_CPU in the child (cpu time of the whole process; a normal execution needs ~1 ms) -> SIGXCPU
//  * blocked : every 5 s without data on the pipe the parent reads /proc/<pid>/task/*/stat; the child counts as blocked only if NO
//    thread is runnable (state R) or in the kernel (D) AND its cpu time has not advanced, for `blocked_slices` consecutive looks
//  There is no wall-clock limit at all.
struct child_limits
{
    int cpu_s          = 20;
    int blocked_slices = 4; // x 5 s
};
static long g_timeouts_not_reproduced = 0, g_timeout_candidates = 0;

// returns false if the process is gone; alive = some thread runnable / in kernel; cpu = utime+stime ticks of all threads
static bool child_activity(pid_t pid, bool& alive, unsigned long long& cpu)
{
    alive = false;
    cpu   = 0;
    char path[64];
    std::snprintf(path, sizeof path, "/proc/%d/task", int(pid));
    bool any = false;
    DIR* d = opendir(path);
    if (!d)
        return false;
    while (dirent* e = readdir(d))
    {
        if (e->d_name[0] < '0' || e->d_name[0] > '9')
            continue;
        char sp[128];
        std::snprintf(sp, sizeof sp, "/proc/%d/task/%s/stat", int(pid), e->d_name);
        int fd = open(sp, O_RDONLY | O_CLOEXEC);
        if (fd < 0)
            continue;
        char    b[1024];
        ssize_t n = read(fd, b, sizeof b - 1);
        close(fd);
        if (n <= 0)
            continue;
        b[n]      = 0;
        char* r = std::strrchr(b, ')');
        if (!r)
            continue;
        any = true;
        char               st = 0;
        unsigned long long ut = 0, stt = 0;
        // after ") ": state ppid pgrp session tty tpgid flags minflt cminflt majflt cmajflt utime stime
        if (std::sscanf(r + 1, " %c %*d %*d %*d %*d %*d %*u %*u %*u %*u %*u %llu %llu", &st, &ut, &stt) >= 1)
        {
            if (st == 'R' || st == 'D')
                alive = true;
            cpu += ut + stt;
        }
    }
    closedir(d);
    return any;
}

template <class Body>
static exec_result in_child_once(Body body, child_limits lim)
{
    exec_result er;
    int         fd[2];
    if (pipe(fd) != 0)
    {
        std::perror("pipe");
        std::_Exit(74);
    }
    std::fflush(nullptr);
    pid_t pid = -1;
    for (int attempt = 0; attempt < 200; ++attempt) // a loaded machine may be out of processes for a moment
    {
        pid = fork();
        if (pid >= 0 || (errno != EAGAIN && errno != ENOMEM))
            break;
        usleep(100000);
    }
    if (pid < 0)
    {
        std::perror("fork");
        std::_Exit(74);
    }
    if (pid == 0)
    {
        close(fd[0]);
        g_fd       = fd[1];
        g_is_child = true;
        rlimit rl;
        rl.rlim_cur = rlim_t(lim.cpu_s);
        rl.rlim_max = rlim_t(lim.cpu_s + 5);
        setrlimit(RLIMIT_CPU, &rl);
        body();
        _exit(99);
    }
    close(fd[1]);
    std::string        buf;
    int                blocked = 0;
    unsigned long long last_cpu = ~0ull;
    for (;;)
    {
        pollfd pf{fd[0], POLLIN, 0};
        int    rc = poll(&pf, 1, 5000);
        if (rc < 0)
        {
            if (errno == EINTR)
                continue;
            break;
        }
        if (rc == 0)
        {
            bool               alive = false;
            unsigned long long cpu   = 0;
            if (!child_activity(pid, alive, cpu))
                alive = true; // cannot tell: never call that a hang
            if (alive || cpu != last_cpu)
                blocked = 0;
            else if (++blocked >= lim.blocked_slices)
            {
                er.timed_out = true;
                break;
            }
            last_cpu = cpu;
            continue;
        }
        char    tmp[65536];
        ssize_t n = read(fd[0], tmp, sizeof tmp);
        if (n < 0 && errno == EINTR)
            continue;
        if (n <= 0)
            break;
        blocked = 0;
        buf.append(tmp, std::size_t(n));
    }
    close(fd[0]);
    if (er.timed_out)
        kill(pid, SIGKILL);
    while (waitpid(pid, &er.status, 0) < 0 && errno == EINTR)
    {
    }
    if (!er.timed_out && WIFSIGNALED(er.status) && WTERMSIG(er.status) == SIGXCPU)
        er.timed_out = true; // cpu limit: the child spins
    // parse
    std::size_t o = 0;
    while (o + 8 <= buf.size())
    {
        std::uint32_t t, l;
        std::memcpy(&t, buf.data() + o, 4);
        std::memcpy(&l, buf.data() + o + 4, 4);
        o += 8;
        if (o + l > buf.size())
            break;
        const char* d = buf.data() + o;
        o += l;
        switch (char(t))
        {
        case 'R':
        {
            run_wire rw;
            std::memcpy(&rw, d, sizeof rw);
            er.gotR            = true;
            er.r.complete      = rw.flags & 1;
            er.r.deadlock      = rw.flags & 2;
            er.r.horizon       = rw.flags & 4;
            er.r.diverged      = rw.flags & 8;
            er.r.killed        = rw.flags & 16;
            er.r.threw         = rw.flags & 32;
            er.r.clean         = rw.flags & 64;
            er.r.preemptions   = int(rw.preemptions);
            er.r.blocked_at_end = rw.blocked;
            for (std::uint32_t i = 0; i < rw.ntrace; ++i)
            {
                step_wire s;
                std::memcpy(&s, d + sizeof rw + i * sizeof s, sizeof s);
                er.r.trace.push_back(sched::step{s.chosen, s.enabled, s.cur, s.cost, reinterpret_cast<const char*>(s.tag)});
                er.r.state_hashes.push_back(s.hash);
            }
            break;
        }
        case 'V':
        {
            std::string m(d, l);
            auto        z = m.find('\0');
            er.v.push_back({m.substr(0, z), z == std::string::npos ? "" : m.substr(z + 1)});
            break;
        }
        case 'E':
            std::memcpy(&er.e, d, std::min<std::size_t>(l, sizeof er.e));
            er.gotE = true;
            break;
        case 'C':
            std::memcpy(&er.c, d, std::min<std::size_t>(l, sizeof er.c));
            er.gotC = true;
            break;
        case 'K':
            er.cut = true;
            break;
        case 'H':
            er.hashes.resize(l / 8);
            std::memcpy(er.hashes.data(), d, l / 8 * 8);
            break;
        }
    }
    return er;
}

// a candidate hang is re-run alone up to 3 times with 10x larger limits; it is a hang only if it hangs every time.
// A candidate that does not reproduce is an observation (counted), never a verdict and never a harness error.
template <class Body>
static exec_result in_child(Body body, child_limits lim = child_limits())
{
    exec_result er = in_child_once(body, lim);
    if (!er.timed_out)
        return er;
    ++g_timeout_candidates;
    child_limits big;
    big.cpu_s          = lim.cpu_s * 10;
    big.blocked_slices = lim.blocked_slices * 10;
    for (int k = 0; k < 3; ++k)
    {
        exec_result e2 = in_child_once(body, big);
        if (!e2.timed_out)
        {
            ++g_timeouts_not_reproduced;
            return e2;
        }
        er = e2;
    }
    return er;
}

static void add_v(std::vector<violation>& v, const std::string& tag, const std::string& detail)
{
    for (auto& x : v)
        if (x.tag == tag)
            return;
    v.push_back({tag, detail});
}

// verdict of one child run (both parts). expect_exit: the child was supposed to leave through exit()
static std::vector<violation> judge(const exec_result& er, bool conc, std::vector<std::string>& herr)
{
    std::vector<violation> v = er.v;
    if (er.timed_out)
        add_v(v, "hang", "the execution does not end: the process used up its cpu-time limit or all its threads stay blocked without any being runnable (4 runs, the last 3 with 10x limits)");
    bool reached_exit = false;
    if (conc)
    {
        if (er.gotR)
        {
            if (er.r.diverged)
                herr.push_back("schedule diverged on replay");
            if (er.r.deadlock)
                add_v(v, "deadlock", "no enabled thread although threads are unfinished");
            if (er.r.horizon)
                add_v(v, "livelock", "more than 400 scheduling decisions: a thread keeps retrying");
            if (er.r.threw)
                add_v(v, "exception", "an exception escaped a thread body");
            reached_exit = er.r.clean;
        }
    }
    else
        reached_exit = er.gotC && !er.cut;
    if (!er.timed_out)
    {
        if (WIFSIGNALED(er.status))
            add_v(v, "crash", fmt("the process was killed by signal %d%s", WTERMSIG(er.status),
                                  reached_exit ? " during program exit (static / thread_local destructors)" : ""));
        else if (WEXITSTATUS(er.status) != 0 && v.empty())
            add_v(v, "abnormal-exit", fmt("the process ended with status %d", WEXITSTATUS(er.status)));
        else if (conc && !er.gotR && v.empty())
            herr.push_back(fmt("child delivered no result (status %d)", er.status));
    }
    if (reached_exit && !er.timed_out && !WIFSIGNALED(er.status) && WEXITSTATUS(er.status) == 0)
    {
        if (!er.gotE)
            herr.push_back("child exited without the exit record");
        else
        {
            if (er.e.live_blocks != 0)
                add_v(v, "exit-leak", fmt("%ld heap block(s), %ld bytes obtained by the library are still outstanding after all static "
                                          "destructors have run",
                                          er.e.live_blocks, er.e.live_bytes));
            if (er.e.leak_calls != 0)
                add_v(v, "exit-leak", fmt("the library's own leak handler was called at program exit (%ld bytes)", er.e.leak_amount));
        }
    }
    return v;
}

static std::string tags_of(const std::vector<violation>& v)
{
    std::vector<std::string> t;
    for (auto& x : v)
        t.push_back(x.tag);
    std::sort(t.begin(), t.end());
    std::string s;
    for (auto& x : t)
        s += x + ";";
    return s;
}

//=== tiny reader for the replay value ===//
static std::string json_str(const std::string& j, const std::string& key, const std::string& d)
{
    auto p = j.find("\"" + key + "\"");
    if (p == std::string::npos)
        return d;
    p = j.find(':', p);
    p = j.find('"', p);
    auto e = j.find('"', p + 1);
    return j.substr(p + 1, e - p - 1);
}
static long json_num(const std::string& j, const std::string& key, long d)
{
    auto p = j.find("\"" + key + "\"");
    if (p == std::string::npos)
        return d;
    p = j.find(':', p);
    return std::atol(j.c_str() + p + 1);
}
static std::vector<std::vector<int>> json_ints(const std::string& j, const std::string& key)
{
    std::vector<std::vector<int>> r;
    auto                          p = j.find("\"" + key + "\"");
    if (p == std::string::npos)
        return r;
    p = j.find('[', p);
    if (p == std::string::npos)
        return r;
    std::size_t q = p + 1;
    while (q < j.size() && (j[q] == ' ' || j[q] == '\n'))
        ++q;
    bool nested = q < j.size() && j[q] == '[';
    if (!nested)
        r.emplace_back();
    int depth = 0;
    for (; p < j.size(); ++p)
    {
        char c = j[p];
        if (c == '[')
        {
            if (++depth == 2 && nested)
                r.emplace_back();
        }
        else if (c == ']')
        {
            if (--depth == 0)
                break;
        }
        else if (c >= '0' && c <= '9')
        {
            int v = 0;
            while (p < j.size() && j[p] >= '0' && j[p] <= '9')
                v = v * 10 + (j[p++] - '0');
            --p;
            r.back().push_back(v);
        }
    }
    return r;
}

struct argmap
{
    std::map<std::string, std::string> m;
    argmap(int argc, char** argv)
    {
        for (int i = 1; i < argc; ++i)
        {
            std::string a = argv[i];
            if (a.rfind("--", 0) == 0)
            {
                std::string k = a.substr(2), v = "1";
                if (i + 1 < argc && std::string(argv[i + 1]).rfind("--", 0) != 0)
                    v = argv[++i];
                m[k] = v;
            }
        }
    }
    std::string s(const std::string& k, const std::string& d = "") const
    {
        auto i = m.find(k);
        return i == m.end() ? d : i->second;
    }
    long n(const std::string& k, long d) const
    {
        auto i = m.find(k);
        return i == m.end() ? d : std::atol(i->second.c_str());
    }
    bool has(const std::string& k) const
    {
        return m.count(k) != 0;
    }
};

//=== program enumeration ===//
// all valid thread programs with 1..L steps: I- needs a live initializer of this thread
static void gen_thread_programs(int L, std::vector<int>& cur, int open_inits, std::vector<std::vector<int>>& out)
{
    if (!cur.empty())
        out.push_back(cur);
    if (int(cur.size()) == L)
        return;
    for (int op = 0; op < N_COPS; ++op)
    {
        if (op == OP_IMINUS && open_inits == 0)
            continue;
        cur.push_back(op);
        gen_thread_programs(L, cur, open_inits + (op == OP_IPLUS) - (op == OP_IMINUS), out);
        cur.pop_back();
    }
}
// all multisets of n thread programs (thread symmetry) x main modes
static std::vector<cprog> gen_programs(int n, int L, const std::string& mains)
{
    std::vector<std::vector<int>> tp;
    std::vector<int>              cur;
    gen_thread_programs(L, cur, 0, tp);
    std::sort(tp.begin(), tp.end(), [](const std::vector<int>& a, const std::vector<int>& b) {
        return a.size() != b.size() ? a.size() < b.size() : a < b;
    });
    std::vector<cprog>       out;
    std::vector<std::size_t> idx(std::size_t(n), 0);
    for (;;)
    {
        for (char m : mains)
        {
            cprog p;
            p.main_mode = m;
            for (auto i : idx)
                p.th.push_back(tp[i]);
            out.push_back(p);
        }
        int k = n - 1;
        while (k >= 0 && idx[std::size_t(k)] + 1 == tp.size())
            --k;
        if (k < 0)
            break;
        ++idx[std::size_t(k)];
        for (int j = k + 1; j < n; ++j)
            idx[std::size_t(j)] = idx[std::size_t(k)];
    }
    return out;
}

static void print_trace(const sched::run_result& r)
{
    for (std::size_t i = 0; i < r.trace.size(); ++i)
    {
        auto& st = r.trace[i];
        std::printf("  decision %2zu: run T%d (it is at '%s')%s   enabled:", i, int(st.chosen), st.tag, st.cost ? " [preemption]" : "");
        for (int t = 0; t < 8; ++t)
            if ((st.enabled >> t) & 1u)
                std::printf(" T%d", t);
        std::printf("\n");
    }
}

static void setup_handlers()
{
    fm::set_leak_handler(leak_h);
    fm::set_invalid_pointer_handler(invptr_h);
    fm::bad_allocation_size::set_handler(badsize_h);
    fm::out_of_memory::set_handler(oom_h);
}

static void write_out(const argmap& a, const std::string& s)
{
    FILE* f = std::fopen(a.s("out", "/dev/stdout").c_str(), "w");
    std::fputs((s + "\n").c_str(), f);
    std::fclose(f);
    std::fflush(nullptr);
}

static void add_counters(counters& a, const counters& b)
{
    a.acquires += b.acquires;
    a.adoptions += b.adoptions;
    a.creations += b.creations;
    a.scopes += b.scopes;
    a.scopes_over_blocks += b.scopes_over_blocks;
    a.scopes_grown_twice += b.scopes_grown_twice;
    a.grows += b.grows;
    a.size_exceptions += b.size_exceptions;
    a.reacquire_after_release += b.reacquire_after_release;
    a.releases += b.releases;
    a.excl_checks += b.excl_checks;
    a.points += b.points;
    a.inside_checks += b.inside_checks;
    a.contended_acquires += b.contended_acquires;
    a.release_checks += b.release_checks;
    a.release_checks_grown += b.release_checks_grown;
    a.faults_hit += b.faults_hit;
    a.faults_not_reached += b.faults_not_reached;
    a.retries_after_fault += b.retries_after_fault;
    a.closes_with_shrink += b.closes_with_shrink;
    a.outer_active_checks += b.outer_active_checks;
    a.max_stacks = std::max(a.max_stacks, b.max_stacks);
}
static std::string counters_json(const counters& c)
{
    return jobj()
        .num("stack_acquisitions", c.acquires)
        .num("acquisitions_overlapping_another", c.contended_acquires)
        .num("adoptions_of_an_existing_stack", c.adoptions)
        .num("creations_of_a_new_stack", c.creations)
        .num("reacquisitions_after_initializer_destroyed", c.reacquire_after_release)
        .num("releases", c.releases)
        .num("temporary_allocator_scopes", c.scopes)
        .num("scopes_unwinding_over_a_block_boundary", c.scopes_over_blocks)
        .num("scopes_in_which_the_stack_grew_at_least_twice", c.scopes_grown_twice)
        .num("stack_growths", c.grows)
        .num("bad_allocation_size_exceptions", c.size_exceptions)
        .num("allocations_checked_inside_stack", c.inside_checks)
        .num("releases_checked_cleared_at_the_store", c.release_checks)
        .num("releases_checked_of_a_stack_that_had_grown", c.release_checks_grown)
        .num("scopes_closed_with_a_shrink_to_fit_request", c.closes_with_shrink)
        .num("enclosing_allocator_checked_active_after_inner_close", c.outer_active_checks)
        .num("upstream_failures_injected_and_hit", c.faults_hit)
        .num("upstream_failures_armed_but_not_reached", c.faults_not_reached)
        .num("acquisitions_after_a_failed_one", c.retries_after_fault)
        .num("exclusivity_checks", c.excl_checks)
        .num("atomic_operations_as_scheduling_points", c.points)
        .num("max_stacks_in_list", c.max_stacks)
        .done();
}

#if TSM >= 2
static int conc_replay(const std::string& js)
{
    cprog p;
    p.main_mode = json_str(js, "main", "N")[0];
    p.th        = json_ints(js, "threads");
    std::vector<sched::u8> prefix;
    auto                   s = json_ints(js, "schedule");
    if (!s.empty())
        for (int x : s[0])
            prefix.push_back(sched::u8(x));
    std::printf("program: %s\n", prog_str(p).c_str());
    std::fflush(nullptr);
    auto run = [&](const std::vector<sched::u8>& pre, bool verbose) {
        return in_child([&] {
            g_verbose = verbose;
            child_conc(p, pre);
        });
    };
    std::vector<std::string> herr;
    exec_result              er = run(prefix, true);
    auto                     v  = judge(er, true, herr);
    if (er.gotR && er.r.diverged)
    {
        std::printf("the recorded schedule is not feasible on this tree; enumerating the schedules of the program (<= 3 preemptions) instead\n");
        sched::explore_options eo;
        eo.max_preemptions = 3;
        eo.max_steps       = 400;
        sched::explorer ex(eo);
        sched::item     it;
        bool            found = false;
        while (ex.next(it))
        {
            exec_result              e2 = run(it.choices, false);
            std::vector<std::string> h2;
            auto                     v2 = judge(e2, true, h2);
            if (!v2.empty() || !e2.gotR)
            {
                prefix = e2.gotR ? sched::choices_of(e2.r) : it.choices;
                found  = true;
                break;
            }
            if (!ex.report(it, e2.r))
                break;
        }
        std::printf("%llu schedules executed%s\n", (unsigned long long)ex.stats().executions, found ? ", one violates:" : ", none violates");
        if (!found)
            return ex.stats().finished ? 0 : 3;
        herr.clear();
        er = run(prefix, true);
        v  = judge(er, true, herr);
    }
    if (er.gotR)
    {
        print_trace(er.r);
        std::printf("end: %s, %d preemptions\n", er.r.complete ? "complete" : (er.r.deadlock ? "DEADLOCK" : "incomplete"), er.r.preemptions);
    }
    else
        std::printf("the execution did not deliver a trace (status %d)\n", er.status);
    if (er.gotE)
        std::printf("at exit: %ld heap blocks outstanding (%ld bytes), %ld malloc / %ld free, leak handler calls %ld\n", er.e.live_blocks,
                    er.e.live_bytes, er.e.mallocs, er.e.frees, er.e.leak_calls);
    for (auto& e : herr)
        std::printf("HARNESS ERROR: %s\n", e.c_str());
    for (auto& x : v)
        std::printf("VIOLATED [%s] %s\n", x.tag.c_str(), x.detail.c_str());
    if (v.empty())
        std::printf("no violation\n");
    return v.empty() ? (herr.empty() ? 0 : 3) : 1;
}

static int conc_main(const argmap& a)
{
    double      t0       = now_s();
    bool        thorough = a.s("tier", "quick") == "thorough";
    int         n        = int(a.n("threads", 2));
    int         L        = int(a.n("len", 3));
    int         bound    = int(a.n("bound", thorough ? 3 : 2));
    std::string mains    = a.s("mains", "NBA");
    long        part = 0, parts = 1;
    if (a.has("part"))
        std::sscanf(a.s("part").c_str(), "%ld/%ld", &part, &parts);
    // runaway guard in CPU time of this worker and its children (load independent; a slice needs 30 s quick / 400 s thorough)
    double cpu_budget = double(a.n("cpu_s", thorough ? 20000 : 3000));
    auto   cpu_used   = [] {
        rusage a_, b_;
        getrusage(RUSAGE_SELF, &a_);
        getrusage(RUSAGE_CHILDREN, &b_);
        auto tv = [](const timeval& t) { return double(t.tv_sec) + double(t.tv_usec) * 1e-6; };
        return tv(a_.ru_utime) + tv(a_.ru_stime) + tv(b_.ru_utime) + tv(b_.ru_stime);
    };
    bool over_budget = false;
    std::set<std::string> tolerate;
    {
        std::string t = a.s("tolerate", "");
        std::size_t p = 0;
        while (p < t.size())
        {
            auto q = t.find(',', p);
            if (q == std::string::npos)
                q = t.size();
            if (q > p)
                tolerate.insert(t.substr(p, q - p));
            p = q + 1;
        }
    }
    auto progs = gen_programs(n, L, mains);
    int  cpu   = a.has("nopin") ? -1 : sched::pin_to_free_cpu();

    sched::u64               executions = 0, transitions = 0, states = 0, pruned = 0, nprogs = 0, progs_all = 0;
    sched::u64               max_exec = 0, min_exec = ~sched::u64(0), real_choice = 0;
    std::size_t              max_trace = 0;
    std::vector<sched::u64>  by_pre;
    int                      min_completed = 1 << 20;
    bool                     all_finished  = true;
    counters                 tot;
    std::set<std::string>    classes;
    jarr                     samples, viols, herrs, biggest;
    std::map<std::string, int> viol_count, tolerated_count;
    std::vector<std::string> herr_list;
    int                      nsamples = 0, violating_programs = 0;
    std::vector<std::pair<sched::u64, std::string>> sizes;

    for (std::size_t pi = 0; pi < progs.size(); ++pi)
    {
        if (long(pi % std::size_t(parts)) != part)
            continue;
        const cprog& p = progs[pi];
        ++nprogs;
        sched::explore_options eo;
        eo.max_preemptions = bound;
        eo.max_steps       = 400;
        sched::explorer ex(eo);
        sched::item     it;
        bool            stopped_on_violation = false, sampled = false;
        while (ex.next(it))
        {
            if ((ex.stats().executions & 255) == 0 && cpu_used() > cpu_budget)
            {
                over_budget = true;
                break;
            }
            exec_result er = in_child([&] { child_conc(p, it.choices); });
            std::vector<std::string> herr;
            auto                     v = judge(er, true, herr);
            if (er.gotC)
                add_counters(tot, er.c);
            bool reported = false;
            if (er.gotR)
            {
                reported = ex.report(it, er.r);
                if (!reported)
                    herr.push_back("explorer: " + ex.stats().stop_reason);
                for (auto& s : er.r.trace)
                    if (s.enabled & (s.enabled - 1))
                        ++real_choice;
                classes.insert(fmt("%zu|%d|%ld", pi, er.r.preemptions, er.c.creations));
                if (!sampled && nsamples < 6 && er.r.preemptions == std::min(bound, 2) && (nprogs % 7 == 1))
                {
                    sampled = true;
                    ++nsamples;
                    samples.raw(jobj()
                                    .str("program", prog_str(p))
                                    .str("schedule", sched::format_schedule(er.r))
                                    .num("preemptions", er.r.preemptions)
                                    .num("stacks_created", er.c.creations)
                                    .num("stacks_adopted", er.c.adoptions)
                                    .num("heap_blocks_outstanding_at_exit", er.gotE ? er.e.live_blocks : -1)
                                    .done());
                }
            }
            for (auto& e : herr)
                if (herr_list.size() < 20)
                    herr_list.push_back(prog_str(p) + ": " + e);
            // tolerated (known finding) tags are counted but do not stop the enumeration of this program
            std::vector<violation> hard;
            for (auto& x : v)
                if (tolerate.count(x.tag))
                {
                    if (tolerated_count[x.tag]++ == 0)
                        viols.raw(jobj()
                                      .str("tag", x.tag)
                                      .str("detail", x.detail + " | " + prog_str(p) + " | schedule " + (er.gotR ? sched::format_schedule(er.r) : "?"))
                                      .raw("input", case_json(p, er.gotR ? sched::choices_of(er.r) : it.choices))
                                      .done());
                }
                else
                    hard.push_back(x);
            if (!hard.empty())
            {
                // re-check: the same complete schedule once more in a fresh process
                auto        sch = er.gotR ? sched::choices_of(er.r) : it.choices;
                exec_result e2  = in_child([&] { child_conc(p, sch); });
                std::vector<std::string> h2;
                auto                     v2 = judge(e2, true, h2);
                std::vector<violation>   hard2;
                for (auto& x : v2)
                    if (!tolerate.count(x.tag))
                        hard2.push_back(x);
                if (tags_of(hard) != tags_of(hard2))
                    herr_list.push_back(prog_str(p) + ": violation not reproducible: '" + tags_of(hard) + "' vs '" + tags_of(hard2) + "'");
                else
                    for (auto& x : hard)
                        if (viol_count[x.tag]++ < 2)
                            viols.raw(jobj()
                                          .str("tag", x.tag)
                                          .str("detail", x.detail + " | " + prog_str(p) + " | schedule " + (er.gotR ? sched::format_schedule(er.r) : "(no trace: replay shows it)"))
                                          .raw("input", case_json(p, sch))
                                          .done());
                stopped_on_violation = true;
                break; // one violating schedule per program is enough
            }
            if (!er.gotR || !reported)
                break;
        }
        if (stopped_on_violation)
            ++violating_programs;
        auto st = ex.stats();
        executions += st.executions;
        transitions += st.transitions;
        states += st.states;
        pruned += st.pruned;
        max_trace = std::max(max_trace, st.max_trace);
        max_exec  = std::max(max_exec, st.executions);
        min_exec  = std::min(min_exec, st.executions);
        sizes.push_back({st.executions, prog_str(p)});
        if (by_pre.size() < st.by_preemptions.size())
            by_pre.resize(st.by_preemptions.size());
        for (std::size_t i = 0; i < st.by_preemptions.size(); ++i)
            by_pre[i] += st.by_preemptions[i];
        if (st.finished)
        {
            if (st.all_schedules)
                ++progs_all;
            min_completed = std::min(min_completed, st.completed_bound);
        }
        else if (!stopped_on_violation)
        {
            all_finished  = false;
            min_completed = std::min(min_completed, st.completed_bound);
            if (herr_list.size() < 20)
                herr_list.push_back(prog_str(p) + ": enumeration not finished: " + (over_budget ? "cpu-time budget of the worker used up" : (st.stop_reason.empty() ? "child failure" : st.stop_reason)));
            if (over_budget)
                break;
        }
        if (violating_programs >= 5)
            break; // the verdict is clear; no need to enumerate the remaining programs of this slice
    }
    double wall = now_s() - t0;
    while (!by_pre.empty() && by_pre.back() == 0)
        by_pre.pop_back();
    jarr bp;
    for (auto x : by_pre)
        bp.raw(std::to_string(x));
    for (auto& e : herr_list)
        herrs.str(e);
    std::sort(sizes.begin(), sizes.end());
    for (std::size_t i = sizes.size() > 3 ? sizes.size() - 3 : 0; i < sizes.size(); ++i)
        biggest.raw(jobj().str("program", sizes[i].second).num("schedules", (long long)sizes[i].first).done());
    jobj vc, tc;
    for (auto& kv : viol_count)
        vc.num(kv.first, kv.second);
    for (auto& kv : tolerated_count)
        tc.num(kv.first, kv.second);
    bool any_viol = !viol_count.empty();
    jobj extra;
    extra.num("states", (long long)states)
        .num("transitions", (long long)transitions)
        .num("traces_validated_against_impl", (long long)executions)
        .num("programs", (long long)nprogs)
        .num("programs_with_all_schedules_enumerated", (long long)progs_all)
        .num("alternatives_pruned_by_bound", (long long)pruned)
        .num("preemption_bound", bound)
        .num("preemption_bound_completed", min_completed == (1 << 20) ? -1 : min_completed)
        .raw("executions_by_preemptions", bp.done())
        .num("decisions_with_real_choice", (long long)real_choice)
        .num("max_schedule_length", (long long)max_trace)
        .num("max_executions_per_program", (long long)max_exec)
        .num("min_executions_per_program", (long long)(nprogs ? min_exec : 0))
        .raw("largest_programs", biggest.done())
        .raw("counters", counters_json(tot))
        .raw("violating_programs_by_tag", vc.done())
        .raw("tolerated_known_findings_by_tag", tc.done())
        .dbl("executions_per_s", wall > 0 ? double(executions) / wall : 0)
        .num("timeout_candidates", g_timeout_candidates)
        .num("timeouts_not_reproduced", g_timeouts_not_reproduced)
        .num("pinned_cpu", cpu)
        .num("threads", n)
        .num("max_steps_per_thread", L)
        .str("main_modes", mains)
        .str("part", "conc");
    std::string rule
        = "one evaluation = one forked process executing one program (N real threads, each <= L steps of I+ I- G S, main thread "
          "N/B/A) under one schedule (thread choice at thread start/end and before EVERY atomic operation of "
          "src/temporary_allocator.cpp), followed by real program exit; all schedules with <= B preemptions, all programs modulo "
          "thread symmetry; non-trivial class = (program, preemptions, stacks created)";
    jobj out;
    out.num("evaluations", (long long)executions)
        .num("distinct_nontrivial", (long long)classes.size())
        .str("rule", rule)
        .raw("samples", samples.done())
        .boolean("exhaustive", (all_finished || any_viol) && herr_list.empty())
        .num("excluded", 0)
        .dbl("wall_s", wall)
        .raw("violations", viols.done())
        .raw("harness_errors", herrs.done())
        .raw("extra", extra.done());
    write_out(a, out.done());
    return 0;
}
#endif // TSM >= 2

//=====================================================================================================
// (b) sequential part: one thread (the main thread of a forked child), modes 1 and 2
//=====================================================================================================
enum sop
{
    S_IPLUS = 0,
    S_IMINUS,
    S_G,
    S_OPEN,
    S_CLOSE,
    S_A1, // allocate(8, 8)
    S_A2, // allocate(100, 16)
    S_A3, // allocate(3000, 1)
    // upstream failure (at most one per sequence, only while the thread has no stack): the k-th malloc of the operation returns null
    S_FI1, // I+ with its 1st malloc failing
    S_FI2, // I+ with its 2nd malloc failing
    S_FG1, // G  with its 1st malloc failing
    S_FG2, // G  with its 2nd malloc failing
    S_SHRINK, // shrink_to_fit() on the innermost temporary_allocator (once per scope; takes effect in its destructor)
    N_SOPS
};
static const char* const SOP_NAME[N_SOPS] = {"I+", "I-", "G", "open", "close", "alloc(8,8)", "alloc(100,16)", "alloc(3000,1)",
                                               "I+[malloc#1 fails]", "I+[malloc#2 fails]", "G[malloc#1 fails]", "G[malloc#2 fails]", "shrink_to_fit()"};
static const int         MAX_NEST          = 3;

static std::string seq_str(const std::vector<int>& ops)
{
    std::string s;
    for (std::size_t i = 0; i < ops.size(); ++i)
        s += std::string(i ? " " : "") + SOP_NAME[ops[i]];
    return s;
}
static std::string seq_json(const std::vector<int>& ops, int warm)
{
    return jobj().str("mode", "seq").num("warm", warm).raw("ops", ints_json(ops)).str("sequence", seq_str(ops)).done();
}

static std::unordered_set<sched::u64> g_seq_states;
static std::set<std::string>          g_tolerate; // tags of known findings: recorded, the enumeration goes on behind them
static bool all_tolerated(const std::vector<violation>& v)
{
    for (auto& x : v)
        if (!g_tolerate.count(x.tag))
            return false;
    return !v.empty();
}

static void seq_state(int ninit, const std::vector<scope_rec>& sc)
{
    tmodel&    t = T[0];
    sched::u64 h = sched::detail::mix(0x77, sched::u64(ninit) | (sched::u64(sc.size()) << 8) | (sched::u64(t.has) << 16));
    if (t.cur && t.cur->stack_.arena_.size())
    {
        auto& ms = t.cur->stack_;
        auto  b  = ms.arena_.current_block();
        h        = sched::detail::mix(h, ms.arena_.size());
        h        = sched::detail::mix(h, ms.arena_.cache_size());
        h        = sched::detail::mix(h, b.size);
        h        = sched::detail::mix(h, sched::u64(ms.stack_.top() - static_cast<char*>(b.memory)));
        h        = sched::detail::mix(h, ms.next_capacity());
    }
    for (auto& s : sc)
        h = sched::detail::mix(h, s.at_ctor.index * 100003u + sched::u64(s.at_ctor.end - s.at_ctor.top));
    g_seq_states.insert(h);
}

// runs one sequence + epilogue on the calling (main) thread; violations go to viol()
static void run_seq(const std::vector<int>& ops)
{
    g_nthreads = 0; // the main thread has index 0 here
    tmodel& t  = T[0];
    t          = tmodel();
    std::vector<std::unique_ptr<fm::temporary_stack_initializer>> inits;
    std::vector<scope_rec>                                        scopes;
    bool ever_released = false;
    auto acquire = [&](auto get) {
        bool had = t.has;
        if (!had)
            acquire_begin(0);
        const tstack* s = get();
        if (!had)
            acquire_end(0, s, ever_released);
        else if (s != t.cur)
            viol("stack-changed", "the thread was handed a different stack although it already has one");
    };
    bool failed_before = false;
    // an acquisition during which the k-th malloc returns null: must end in an exception derived from std::bad_alloc and
    // leave the thread without a stack; everything afterwards (retry included) is judged by the ordinary oracles
    auto faulted = [&](int k, bool with_initializer) {
#if TSM >= 2
        int nodes_before = list_walk(nullptr, nullptr, nullptr, 64);
#endif
        acquire_begin(0);
        g_fail_in  = k;
        g_fail_hit = false;
        bool          threw = false, bad_alloc = false;
        const tstack* got   = nullptr;
        try
        {
            if (with_initializer)
                inits.emplace_back(new fm::temporary_stack_initializer(SMALL));
            got = &fm::get_temporary_stack(SMALL);
        }
        catch (const std::bad_alloc&)
        {
            threw = bad_alloc = true;
        }
        catch (...)
        {
            threw = true;
        }
        bool hit  = g_fail_hit;
        g_fail_in = 0;
        if (!hit)
        {
            ++C.faults_not_reached; // the operation made fewer mallocs: an ordinary acquisition
            if (threw)
                viol("spurious-exception", "an acquisition threw although no upstream call failed");
            else
                acquire_end(0, got, ever_released);
            return;
        }
        ++C.faults_hit;
        failed_before = true;
        if (!threw)
        {
            viol("failure-absorbed", "the upstream allocation failed (malloc returned null) but the acquisition of the temporary stack returned normally");
            acquire_end(0, got, ever_released);
            return;
        }
        if (!bad_alloc)
            viol("wrong-exception", "an upstream failure surfaced as an exception that is not derived from std::bad_alloc");
        // the thread has no stack (and, for I+, no initializer object: its constructor threw)
        t.acquiring = false;
        --C.acquires;
#if TSM >= 2
        {
            // the failed acquisition must leave the list as it was: no new (half-constructed) stack, nothing marked in use (this
            // thread is the only one and owns no stack)
            bool f[64];
            int  n = list_walk(nullptr, nullptr, f, 64);
            if (n > nodes_before)
                viol("failed-creation-left-in-list", fmt("creating the temporary stack failed with out_of_memory, but the list now holds %d stack(s) instead of %d: a stack "
                                                         "object whose constructor did not finish is linked into the global list",
                                                         n, nodes_before));
            else
                for (int i = 0; i < n; ++i)
                    if (f[i])
                    {
                        viol("failed-acquisition-keeps-stack", fmt("adopting a free temporary stack failed with out_of_memory, but stack #%d stays marked in use although no "
                                                                   "thread owns it: it can never be reused",
                                                                   i));
                        break;
                    }
        }
#endif
    };
    for (int op : ops)
    {
        vsay("  %s\n", SOP_NAME[op]);
        if (failed_before && !t.has && (op == S_IPLUS || op == S_G || op == S_OPEN))
            ++C.retries_after_fault;
        switch (op)
        {
        case S_FI1:
        case S_FI2:
            faulted(op == S_FI1 ? 1 : 2, true);
            break;
        case S_FG1:
        case S_FG2:
            faulted(op == S_FG1 ? 1 : 2, false);
            break;
        case S_IPLUS:
            acquire([&] {
                inits.emplace_back(new fm::temporary_stack_initializer(SMALL));
                return &fm::get_temporary_stack(SMALL);
            });
            break;
        case S_IMINUS:
            give_up(0);
            ever_released = true;
            inits.pop_back();
            release_effective(0);
            break;
        case S_G:
            acquire([&] { return &fm::get_temporary_stack(SMALL); });
            break;
        case S_OPEN:
        {
            bool rel = ever_released && !t.has;
            (void)rel;
            // open_scope() uses t.step > 0 as "released before"; make that exact here
            t.step = ever_released ? 1 : 0;
            scopes.push_back(open_scope(0));
            break;
        }
        case S_CLOSE:
            close_scope(scopes.back());
            scopes.pop_back();
            break;
        case S_SHRINK:
            scopes.back().t->shrink_to_fit();
            scopes.back().shrink = true;
            break;
        case S_A1:
            scope_alloc(scopes.back(), 8, 8);
            break;
        case S_A2:
            scope_alloc(scopes.back(), 100, 16);
            break;
        case S_A3:
            scope_alloc(scopes.back(), 3000, 1);
            break;
        }
        if (op == S_CLOSE && g_viol.empty() && !scopes.empty())
        {
            ++C.outer_active_checks;
            if (!scopes.back().t->is_active())
                viol("active-chain-broken", "after an inner temporary_allocator was destroyed the enclosing, now innermost one reports is_active() == false");
        }
        seq_state(int(inits.size()), scopes);
        if (!g_viol.empty())
            return; // state no longer trustworthy
    }
    // epilogue: leave all scopes (oracle), destroy the initializers, give the stack back
    while (!scopes.empty())
    {
        close_scope(scopes.back());
        scopes.pop_back();
        if (!g_viol.empty())
            return;
        if (!scopes.empty())
        {
            ++C.outer_active_checks;
            if (!scopes.back().t->is_active())
            {
                viol("active-chain-broken", "after an inner temporary_allocator was destroyed the enclosing, now innermost one reports is_active() == false");
                return;
            }
        }
    }
    if (t.cur && t.cur->top_ != nullptr)
    {
        viol("active-chain-broken", "all temporary_allocator objects of the thread are destroyed but the stack still names an active allocator");
        return;
    }
    while (!inits.empty())
    {
        give_up(0);
        inits.pop_back();
        release_effective(0);
    }
    if (t.has)
    {
        // documented way to end the use in this thread: an initializer object going out of scope
        give_up(0);
        {
            fm::temporary_stack_initializer done(fm::temporary_stack_initializer::defer_create);
        }
        release_effective(0);
    }
    // after the thread gave everything back: mode 1 holds no memory at all, mode 2 keeps only free stacks with one block each
#if TSM >= 2
    {
        bool f[64];
        int  n = list_walk(nullptr, nullptr, f, 64);
        for (int i = 0; i < n; ++i)
            if (f[i])
                viol("stack-not-released", "the thread gave its temporary stack back but it is still marked in use in the list");
        if (n > 1)
            viol("no-reuse", fmt("%d stacks exist although only one thread ever used temporary allocators", n));
        if (n >= 0 && g_nlive != 2 * n)
            viol("memory-kept", fmt("after releasing the stack %d heap blocks are outstanding, expected %d (stack object + first block per stack)", g_nlive, 2 * n));
    }
#else
    if (g_nlive != 0)
        viol("memory-kept", fmt("after the initializer destroyed the stack %d heap blocks are still outstanding", g_nlive));
#endif
}

static void warm_up()
{
    // canonical start of batch runs: one free stack in the list (mode 2) / nothing (mode 1)
    fm::temporary_stack_initializer i(SMALL);
}

// all valid sequences with 1..D operations
static void gen_seqs(int D, std::vector<int>& cur, int ninit, int nscope, bool has, bool faulted, unsigned shr, std::vector<std::vector<int>>& out)
{
    if (!cur.empty())
        out.push_back(cur);
    if (int(cur.size()) == D)
        return;
    for (int op = 0; op < N_SOPS; ++op)
    {
        int      ni = ninit, ns = nscope;
        bool     h = has, f = faulted;
        unsigned sh = shr; // bit k: scope at nesting level k has a shrink_to_fit() request
        switch (op)
        {
        case S_SHRINK:
            if (nscope == 0 || ((shr >> (nscope - 1)) & 1u))
                continue;
            sh |= 1u << (nscope - 1);
            break;
        case S_FI1:
        case S_FI2:
        case S_FG1:
        case S_FG2:
            if (faulted || has) // deviation bound 1; only where the operation has to obtain a stack
                continue;
            f = true; // the operation fails: no stack, no initializer (a fault that is not reached is a plain I+/G: the
                      // harness then tracks the live initializer itself; later I- stay valid because they need ninit > 0 here)
            break;
        case S_IPLUS:
            ++ni;
            h = true;
            break;
        case S_IMINUS:
            if (ninit == 0 || nscope > 0) // destroying the stack under a live temporary_allocator is a misuse
                continue;
            --ni;
            h = false;
            break;
        case S_G:
            h = true;
            break;
        case S_OPEN:
            if (nscope == MAX_NEST)
                continue;
            ++ns;
            h = true;
            break;
        case S_CLOSE:
            if (nscope == 0)
                continue;
            --ns;
            sh &= ~(1u << ns);
            break;
        default:
            if (nscope == 0)
                continue;
        }
        cur.push_back(op);
        gen_seqs(D, cur, ni, ns, h, f, sh, out);
        cur.pop_back();
    }
}

[[noreturn]] static void child_seq_single(const std::vector<int>& ops, int warm)
{
    if (warm)
        warm_up();
    run_seq(ops);
    send_msg('C', &C, sizeof C);
    if (all_tolerated(g_viol))
    {
        send_msg('K', "", 0); // the state behind a known finding is not judged
        child_fatal(0);
    }
    g_exit_record = true;
    std::exit(0);
}

static int seq_replay(const std::string& js)
{
    auto             o = json_ints(js, "ops");
    std::vector<int> ops = o.empty() ? std::vector<int>() : o[0];
    int              warm = int(json_num(js, "warm", 0));
    std::printf("sequence (%s start): %s\n", warm ? "one free stack exists already" : "fresh process", seq_str(ops).c_str());
    std::fflush(nullptr);
    exec_result er = in_child([&] {
        g_verbose = true;
        child_seq_single(ops, warm);
    });
    std::vector<std::string> herr;
    auto                     v = judge(er, false, herr);
    if (er.gotE)
        std::printf("at exit: %ld heap blocks outstanding (%ld bytes), %ld malloc / %ld free, leak handler calls %ld\n", er.e.live_blocks,
                    er.e.live_bytes, er.e.mallocs, er.e.frees, er.e.leak_calls);
    for (auto& e : herr)
        std::printf("HARNESS ERROR: %s\n", e.c_str());
    for (auto& x : v)
        std::printf("VIOLATED [%s] %s\n", x.tag.c_str(), x.detail.c_str());
    if (v.empty())
        std::printf("no violation\n");
    return v.empty() ? (herr.empty() ? 0 : 3) : 1;
}

static int seq_main(const argmap& a)
{
    double t0       = now_s();
    bool   thorough = a.s("tier", "quick") == "thorough";
    int    D        = int(a.n("depth", thorough ? 7 : 6));
    int    F        = int(a.n("fresh_depth", thorough ? 5 : 4));
    long   part = 0, parts = 1;
    if (a.has("part"))
        std::sscanf(a.s("part").c_str(), "%ld/%ld", &part, &parts);
    {
        std::string t = a.s("tolerate", "");
        std::size_t p = 0;
        while (p < t.size())
        {
            auto q = t.find(',', p);
            if (q == std::string::npos)
                q = t.size();
            if (q > p)
                g_tolerate.insert(t.substr(p, q - p));
            p = q + 1;
        }
    }
    std::map<std::string, int> tolerated_count;
    const std::size_t BATCH = 1000;
    child_limits      batch_limits;
    batch_limits.cpu_s = 120; // 1000 sequences need well under 1 s of cpu time

    std::vector<std::vector<int>> all;
    std::vector<int>              cur;
    gen_seqs(D, cur, 0, 0, false, false, 0u, all);
    std::vector<std::size_t> mine;
    for (std::size_t i = 0; i < all.size(); ++i)
        if (long(i % std::size_t(parts)) == part)
            mine.push_back(i);

    auto progress = static_cast<volatile long*>(mmap(nullptr, 4096, PROT_READ | PROT_WRITE, MAP_SHARED | MAP_ANONYMOUS, -1, 0));
    long evaluations = 0, batches = 0, fresh_runs = 0;
    counters tot;
    std::unordered_set<sched::u64> states;
    std::set<std::string>          classes;
    jarr                           viols, herrs, samples;
    std::vector<std::string>       herr_list;
    std::map<std::string, int>     viol_count;
    sched::u64                     transitions = 0;

    auto confirm = [&](const std::vector<int>& ops, int warm, const std::vector<violation>& v) {
        exec_result              e2 = in_child([&] { child_seq_single(ops, warm); });
        std::vector<std::string> h2;
        auto                     v2 = judge(e2, false, h2);
        if (tags_of(v) != tags_of(v2))
        {
            herr_list.push_back(seq_str(ops) + ": violation not reproducible: '" + tags_of(v) + "' vs '" + tags_of(v2) + "'");
            return;
        }
        for (auto& x : v)
            if (viol_count[x.tag]++ < 2)
                viols.raw(jobj().str("tag", x.tag).str("detail", x.detail + " | sequence: " + seq_str(ops) + (warm ? " (a free stack existed)" : " (fresh process)")).raw("input", seq_json(ops, warm)).done());
    };

    bool stop = false;
    // 1. every sequence, in batches: one child runs BATCH sequences one after the other from the canonical start
    for (std::size_t b = 0, next_b = 0; b < mine.size() && !stop; b = next_b)
    {
        std::size_t e = std::min(mine.size(), b + BATCH);
        next_b        = e;
        *progress     = -1;
        ++batches;
        exec_result er = in_child(
            [&] {
                warm_up();
                for (std::size_t k = b; k < e; ++k)
                {
                    *progress = long(k);
                    run_seq(all[mine[k]]);
                    if (!g_viol.empty())
                    {
                        if (all_tolerated(g_viol))
                        {
                            send_msg('C', &C, sizeof C);
                            std::vector<sched::u64> hs(g_seq_states.begin(), g_seq_states.end());
                            send_msg('H', hs.data(), hs.size() * 8);
                            send_msg('K', "", 0);
                            child_fatal(0);
                        }
                        child_fatal(1);
                    }
                }
                *progress = long(e);
                send_msg('C', &C, sizeof C);
                std::vector<sched::u64> hs(g_seq_states.begin(), g_seq_states.end());
                send_msg('H', hs.data(), hs.size() * 8);
                g_exit_record = true;
                std::exit(0);
            },
            batch_limits);
        std::vector<std::string> herr;
        auto                     v = judge(er, false, herr);
        long                     done = *progress;
        if (er.gotC)
            add_counters(tot, er.c);
        for (auto h : er.hashes)
            states.insert(h);
        for (auto& x : herr)
            herr_list.push_back(x);
        if (v.empty())
        {
            evaluations += long(e - b);
            for (std::size_t k = b; k < e; ++k)
                transitions += all[mine[k]].size();
            continue;
        }
        if (er.cut && all_tolerated(v) && done >= long(b) && done < long(e))
        {
            // known finding in sequence `done`: record it, go on with the next sequence in a new process (canonical start again)
            for (auto& x : v)
                if (tolerated_count[x.tag]++ == 0)
                    viols.raw(jobj().str("tag", x.tag).str("detail", x.detail + " | sequence: " + seq_str(all[mine[std::size_t(done)]]) + " (a free stack existed)").raw("input", seq_json(all[mine[std::size_t(done)]], 1)).done());
            evaluations += done - long(b) + 1;
            for (std::size_t k = b; k <= std::size_t(done); ++k)
                transitions += all[mine[k]].size();
            next_b = std::size_t(done) + 1;
            continue;
        }
        stop = true;
        if (done >= long(b) && done < long(e))
        {
            evaluations += done - long(b) + 1;
            confirm(all[mine[std::size_t(done)]], 1, v);
        }
        else // at the exit of the batch process
            for (auto& x : v)
                if (viol_count[x.tag]++ < 2)
                    viols.raw(jobj().str("tag", x.tag).str("detail", x.detail + fmt(" | at the exit of a process that ran %zu sequences", e - b)).raw("input", seq_json(all[mine[e - 1]], 1)).done());
    }
    // 2. every sequence up to depth F alone in a fresh process (first stack is created, real program exit after each)
    for (std::size_t k = 0; k < mine.size() && !stop; ++k)
    {
        auto& ops = all[mine[k]];
        if (int(ops.size()) > F)
            continue;
        ++fresh_runs;
        exec_result              er = in_child([&] { child_seq_single(ops, 0); });
        std::vector<std::string> herr;
        auto                     v = judge(er, false, herr);
        if (er.gotC)
            add_counters(tot, er.c);
        for (auto& x : herr)
            herr_list.push_back(seq_str(ops) + ": " + x);
        transitions += ops.size();
        if (er.cut && all_tolerated(v))
        {
            for (auto& x : v)
                if (tolerated_count[x.tag]++ == 0)
                    viols.raw(jobj().str("tag", x.tag).str("detail", x.detail + " | sequence: " + seq_str(ops) + " (fresh process)").raw("input", seq_json(ops, 0)).done());
        }
        else if (!v.empty())
        {
            confirm(ops, 0, v);
            stop = true;
        }
    }
    // classes: (multiset of operations) reached the oracle
    for (auto i : mine)
    {
        auto s = all[i];
        std::sort(s.begin(), s.end());
        classes.insert(ints_json(s));
    }
    for (std::size_t k = 0; k < mine.size() && k < 3; ++k)
        samples.raw(jobj().str("sequence", seq_str(all[mine[mine.size() - 1 - k * 977 % mine.size()]])).done());
    for (auto& e : herr_list)
        if (herrs.s.size() < 4000)
            herrs.str(e);
    double wall = now_s() - t0;
    jobj   vc;
    for (auto& kv : viol_count)
        vc.num(kv.first, kv.second);
    jobj extra;
    extra.num("states", (long long)states.size())
        .num("transitions", (long long)transitions)
        .num("traces_validated_against_impl", evaluations + fresh_runs)
        .num("sequences", (long long)mine.size())
        .num("sequences_total_all_parts", (long long)all.size())
        .num("batch_processes", batches)
        .num("fresh_process_runs", fresh_runs)
        .num("depth", D)
        .num("fresh_depth", F)
        .num("temporary_stack_mode", TSM)
        .num("timeout_candidates", g_timeout_candidates)
        .num("timeouts_not_reproduced", g_timeouts_not_reproduced)
        .raw("counters", counters_json(tot))
        .raw("violating_by_tag", vc.done())
        .raw("tolerated_known_findings_by_tag", [&] {
            jobj tc;
            for (auto& kv : tolerated_count)
                tc.num(kv.first, kv.second);
            return tc.done();
        }())
        .str("part", "seq");
    jobj out;
    out.num("evaluations", evaluations + fresh_runs)
        .num("distinct_nontrivial", (long long)classes.size())
        .str("rule", "one evaluation = one valid operation sequence (<= D operations of I+ I- G open close alloc(8,8) alloc(100,16) "
                     "alloc(3000,1); I- never under a live temporary_allocator; nesting <= 3) executed on the main thread of a forked process, all "
                     "open scopes closed afterwards; every sequence from the canonical start 'one free stack exists', every sequence "
                     "with <= F operations additionally alone in a fresh process followed by real program exit; non-trivial class = "
                     "multiset of operations")
        .raw("samples", samples.done())
        .boolean("exhaustive", (!stop || !viol_count.empty()) && herr_list.empty())
        .num("excluded", 0)
        .dbl("wall_s", wall)
        .raw("violations", viols.done())
        .raw("harness_errors", herrs.done())
        .raw("extra", extra.done());
    write_out(a, out.done());
    return 0;
}

int main(int argc, char** argv)
{
    argmap a(argc, argv);
    setup_handlers();
    int rc = 2;
    if (a.has("replay"))
    {
        std::string js = a.s("replay");
        if (json_str(js, "mode", "conc") == "seq")
            rc = seq_replay(js);
        else
        {
#if TSM >= 2
            rc = conc_replay(js);
#else
            std::printf("the concurrent part needs temporary stack mode 2\n");
#endif
        }
    }
    else if (a.has("selftest-hang")) // manual test of the hang classification: spin | block | slow (slow must NOT be a hang)
    {
        std::string  m = a.s("selftest-hang");
        child_limits lim;
        lim.cpu_s          = 1;
        lim.blocked_slices = 1;
        double      t0 = now_s();
        exec_result er = in_child(
            [&] {
                if (m == "spin")
                    for (volatile unsigned long i = 0;; ++i)
                    {
                    }
                if (m == "block")
                    sched::detail::park_forever();
                if (m == "slow") // sleeps 12 s in short naps: blocked at every look, but its cpu time advances
                    for (int i = 0; i < 1200; ++i)
                    {
                        for (volatile unsigned long k = 0; k < 3000000; ++k)
                        {
                        }
                        usleep(10000);
                    }
                _exit(0);
            },
            lim);
        std::printf("%s: classified as %s after %.1f s (candidates %ld, not reproduced %ld)\n", m.c_str(), er.timed_out ? "HANG" : "not hung",
                    now_s() - t0, g_timeout_candidates, g_timeouts_not_reproduced);
        rc = er.timed_out ? 1 : 0;
    }
    else if (a.has("seq"))
        rc = seq_main(a);
#if TSM >= 2
    else if (a.has("conc"))
        rc = conc_main(a);
#endif
    else
        std::fprintf(stderr, "usage: h_temp --conc|--seq ... | --replay json\n");
    std::fflush(nullptr);
    std::_Exit(rc); // the worker itself never used the library: nothing to check at its exit
}
