// C11 harness, all joint types in one translation unit (see joint_body.hpp).
// The check itself uses h_joint_p0..p3 (same code, a quarter of the joint types each) to spread the compile time.
#define VERIF_JOINT_PARTS 1
#define VERIF_JOINT_PART 0
#include "joint_body.hpp"
