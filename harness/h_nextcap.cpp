// C18: next_capacity() of memory_pool is what a growth really adds to capacity_left(), for every pool type,
// every node size of a range and EVERY block size of a range (not only block sizes produced by min_block_size).
// A pool over equally sized blocks is emptied, the announced next_capacity() is recorded, one more node is
// allocated (growth) and the capacity that appeared is compared.
#include "../engine/core.hpp"

#include <foonathan/memory/heap_allocator.hpp>
#include <foonathan/memory/memory_pool.hpp>

#include <map>
#include <set>

using namespace verif;
namespace fm = foonathan::memory;

struct result
{
    long evaluations = 0, excluded = 0;
    std::set<std::string>    classes, tags;
    std::vector<std::string> samples, vio;
};

template <class PoolType>
static std::string one(std::size_t ns, std::size_t block, bool verbose)
{
    using pool_t = fm::memory_pool<PoolType, fm::growing_block_allocator<fm::heap_allocator, 1, 1>>;
    if (block < pool_t::min_block_size(ns, 1))
        return "SKIP";
    std::string verdict;
    int         oc;
    VERIF_GUARDED(oc, {
        pool_t             pool(ns, block);
        std::vector<void*> nodes;
        std::size_t        first = pool.capacity_left();
        while (pool.capacity_left())
            nodes.push_back(pool.allocate_node());
        std::size_t promised = pool.next_capacity();
        nodes.push_back(pool.allocate_node()); // grows by one block of the same size
        std::size_t added = pool.capacity_left() + pool.node_size();
        if (verbose)
            std::printf("  node size %zu (pool node size %zu), block %zu: first block %zu bytes, next_capacity() %zu, growth added %zu\n", ns,
                        pool.node_size(), block, first, promised, added);
        if (promised != added)
            verdict = fmt("next-capacity-mismatch|next_capacity() announced %zu bytes but the growth added %zu (node size %zu, block size %zu)", promised,
                          added, ns, block);
        else if (added != first)
            verdict = fmt("equal-blocks-differ|two blocks of %zu bytes gave %zu and %zu bytes of capacity (node size %zu)", block, first, added, ns);
        for (auto p : nodes)
            pool.deallocate_node(p);
    });
    if (oc != OUT_OK)
        return fmt("%s|pool of node size %zu over blocks of %zu bytes %s", outcome_name(oc), ns, block, outcome_name(oc));
    return verdict;
}

template <class PoolType>
static void sweep(const char* name, std::size_t ns_hi, std::size_t span, std::size_t step, result& r)
{
    using pool_t = fm::memory_pool<PoolType, fm::growing_block_allocator<fm::heap_allocator, 1, 1>>;
    for (std::size_t ns = 1; ns <= ns_hi; ++ns)
    {
        std::size_t lo = pool_t::min_block_size(ns, 1);
        for (std::size_t block = lo; block <= lo + span; block += step)
        {
            std::string v = one<PoolType>(ns, block, false);
            if (v == "SKIP")
            {
                ++r.excluded;
                continue;
            }
            ++r.evaluations;
            r.classes.insert(std::string(name) + ":" + std::to_string(ns) + ":" + std::to_string((block - lo) * 8 / (span + 1)));
            if (r.samples.size() < 3 && ns == 5 && block == lo + 7 * step)
                r.samples.push_back(fmt("%s node size %zu block %zu", name, ns, block));
            if (!v.empty())
            {
                std::string v2  = one<PoolType>(ns, block, false);
                auto        bar = v.find('|');
                std::string tag = std::string(name) + "/" + v.substr(0, bar);
                if (r.tags.insert(tag).second)
                {
                    jobj jv, in;
                    in.str("pool", name).num("ns", (long long)ns).num("block", (long long)block);
                    jv.str("tag", tag).str("detail", v.substr(bar + 1) + (v2 == v ? "" : " (not reproduced)")).raw("input", in.done());
                    r.vio.push_back(jv.done());
                }
            }
        }
    }
}

int main(int argc, char** argv)
{
    std::map<std::string, std::string> a;
    for (int i = 1; i + 1 < argc; i += 2)
        a[argv[i]] = argv[i + 1];
    install_guards(5000);
    if (a.count("--replay"))
    {
        std::string js = a["--replay"];
        auto num = [&](const char* k) {
            auto p = js.find(std::string("\"") + k + "\"");
            return p == std::string::npos ? 0L : std::atol(js.c_str() + js.find(':', p) + 1);
        };
        std::size_t ns = std::size_t(num("ns")), block = std::size_t(num("block"));
        std::string v  = js.find("small") != std::string::npos ? one<fm::small_node_pool>(ns, block, true)
                         : js.find("array") != std::string::npos ? one<fm::array_pool>(ns, block, true) : one<fm::node_pool>(ns, block, true);
        std::printf("verdict: %s\n", v.empty() || v == "SKIP" ? "ok" : v.c_str());
        return v.empty() || v == "SKIP" ? 0 : 1;
    }
    std::freopen("/dev/null", "w", stderr);
    bool   thor = a.count("--tier") && a["--tier"] == "thorough";
    double t0   = now_s();
    result r;
    // small pools: chunk structure (255 nodes) makes the block size matter; intrusive lists: every size
    sweep<fm::small_node_pool>("small_node_pool", thor ? 32 : 12, thor ? 6000 : 2600, thor ? 1 : 3, r);
    sweep<fm::node_pool>("node_pool", thor ? 48 : 24, thor ? 600 : 300, 1, r);
    sweep<fm::array_pool>("array_pool", thor ? 48 : 24, thor ? 600 : 300, 1, r);
    jobj o;
    jarr sm, vs;
    for (auto& s : r.samples)
        sm.str(s);
    for (auto& v : r.vio)
        vs.raw(v);
    o.num("evaluations", r.evaluations).num("distinct_nontrivial", (long long)r.classes.size())
        .str("rule", "every pool type x node size 1..N x every block size in [min_block_size(ns,1), +span]: empty the first block, record next_capacity(), grow, compare with "
                     "the capacity that appeared; distinct = (pool type, node size, eighth of the block size range)")
        .raw("samples", sm.done()).boolean("exhaustive", true).num("excluded", r.excluded).dbl("wall_s", now_s() - t0).raw("violations", vs.done());
    std::string out = a.count("--out") ? a["--out"] : "";
    if (!out.empty())
    {
        FILE* f = std::fopen(out.c_str(), "w");
        std::fputs(o.done().c_str(), f);
        std::fputc('\n', f);
        std::fclose(f);
    }
    else
        std::printf("%s\n", o.done().c_str());
    return 0;
}
