// Explorable system: memory_stack over growing / constant / fixed block sources with markers,
// unwinding, shrink_to_fit; member, traits and composable interface families.
#include "asys.hpp"

#include <foonathan/memory/allocator_traits.hpp>
#include <foonathan/memory/memory_stack.hpp>

using namespace verif;

struct stack_params
{
    std::size_t bs = 128;
    int         fam = 0;
    bool        tries = false;
    int         markers = 2;
    bool        twin = true;
    std::vector<std::pair<long, long>> reqs; // size x alignment
};
static stack_params PP;

struct named_req
{
    alloc_req   r;
    std::string name, kind;
};
static std::vector<named_req> ALLOCS;

constexpr int MAXM = 3;

// side store: world snapshots taken when a marker was created (history derived, rebuilt on every replay)
static std::vector<u8> SIDE[MAXM];

template <class Src>
struct stack_policy
{
    using object  = fm::memory_stack<Src>;
    using marker  = typename object::marker;
    using traits  = fm::allocator_traits<object>;
    using ctraits = fm::composable_allocator_traits<object>;
    using S       = asys<stack_policy>;
    struct extra_t
    {
        u32 nmark;
        u32 owner; // slot the markers belong to
        alignas(8) u8 mk[MAXM][sizeof(marker)];
        u64 cap_at[MAXM];
        u32 live_at[MAXM];
        u32 shrunk_since[MAXM];
        u32 nstale;
        alignas(8) u8 stale[MAXM][sizeof(marker)]; // markers invalidated by an unwind below them (for C16)
    };

    static void init_extra(extra_t& x)
    {
        std::memset(&x, 0, sizeof x);
    }
    static void construct(void* where)
    {
        ::new (where) object(PP.bs);
    }
    //=== deliberately invalid calls (C16): unwind to a marker that lies above the current top ===//
    static int nbad()
    {
        return MAXM;
    }
    static std::string bad_kind(int)
    {
        return "unwind_above_top";
    }
    template <class W>
    static bool bad_enabled(W& w, int s, int i)
    {
        if (!cfg_ptr || u32(i) >= w.x.nstale || w.x.owner != u32(s))
            return false;
        marker m   = *reinterpret_cast<marker*>(w.x.stale[i]);
        marker now = S::obj(s).top();
        // only markers that are really above the top are covered by the check
        return m.index > now.index || (m.index == now.index && m.top > now.top);
    }
    template <class W>
    static std::string bad_name(W& w, int s, int i)
    {
        marker m   = *reinterpret_cast<marker*>(w.x.stale[i]);
        marker now = S::obj(s).top();
        return fmt("unwind(stale marker in block %zu%s, current top in block %zu)", m.index, m.index == now.index ? " above the top" : "", now.index);
    }
    template <class W>
    static void bad_call(W& w, int s, int i)
    {
        S::obj(s).unwind(*reinterpret_cast<marker*>(w.x.stale[i]));
    }
    template <class W>
    static u64 digest(W&, int s)
    {
        auto& o = S::obj(s);
        return u64(o.capacity_left()) ^ (u64(o.arena_.size()) << 40) ^ (u64(o.arena_.cache_size()) << 52);
    }
    static bool fills_new()
    {
        return true;
    }
    static bool has_leak_check()
    {
        return true;
    }
    static std::size_t block_header()
    {
        return fm::detail::memory_block_stack::implementation_offset();
    }
    static int nalloc()
    {
        return int(ALLOCS.size());
    }
    static std::string alloc_name(int i)
    {
        return ALLOCS[i].name;
    }
    static std::string alloc_kind(int i)
    {
        return ALLOCS[i].kind;
    }
    static verif::alloc_req make_req(extra_t& x, int, int i)
    {
        auto r = ALLOCS[i].r;
        r.tag  = u8(x.nmark);
        return r;
    }
    static bool alloc_enabled(extra_t&, int, int)
    {
        return true;
    }
    static bool release_enabled(extra_t&, shadow_t<MAXL>& sh, int k)
    {
        // a stack has no individual release; the traits' deallocate only books the leak counter
        return sh.v[k].fam == 1 || sh.v[k].fam == 2;
    }
    static void* do_alloc(object& o, const verif::alloc_req& r)
    {
        switch (r.fam)
        {
        case 0:
            return r.is_try ? o.try_allocate(r.size, r.align) : o.allocate(r.size, r.align);
        case 1:
            if (r.kind == 0)
                return traits::allocate_node(o, r.size, r.align);
            return traits::allocate_array(o, r.count, r.size, r.align);
        default:
            if (r.kind == 0)
                return ctraits::try_allocate_node(o, r.size, r.align);
            return ctraits::try_allocate_array(o, r.count, r.size, r.align);
        }
    }
    static bool do_release(object& o, void* p, const live_t& l, bool)
    {
        if (l.fam == 1)
        {
            if (l.kind == 0)
                traits::deallocate_node(o, p, l.size, l.align);
            else
                traits::deallocate_array(o, p, l.count, l.size, l.align);
            return true;
        }
        if (l.kind == 0)
            return ctraits::try_deallocate_node(o, p, l.size, l.align);
        return ctraits::try_deallocate_array(o, p, l.count, l.size, l.align);
    }

    //=== extras: mark / unwind(j) / shrink_to_fit ===//
    static int nextra()
    {
        return 2 + PP.markers;
    }
    static std::string extra_kind(int i)
    {
        return i == 0 ? "mark" : i == 1 ? "shrink_to_fit" : "unwind";
    }
    static std::string extra_name(extra_t& x, int i)
    {
        if (i == 0)
            return fmt("m%u=top()", x.nmark);
        if (i == 1)
            return "shrink_to_fit()";
        return fmt("unwind(m%d)", i - 2);
    }
    static bool extra_enabled(extra_t& x, shadow_t<MAXL>&, int s, int i)
    {
        if (i == 0)
            return int(x.nmark) < PP.markers && (x.nmark == 0 || x.owner == u32(s));
        if (i == 1)
            return true;
        return u32(i - 2) < x.nmark && x.owner == u32(s);
    }

    struct probe_result
    {
        long        off[8];
        std::size_t cap[8];
        std::size_t next[9]; // next_capacity() before the first probe and after every probe
        int         n;
    };
    template <class W>
    static probe_result run_probes(W& w, int s)
    {
        probe_result pr{};
        pr.n     = 0;
        auto& o  = S::obj(s);
        auto  tr = T(); // probes must not disturb the transient record
        w.h.up.cur_owner = u32(s);
        // each request of the alphabet twice, then enough requests to force a growth
        int total = int(ALLOCS.size()) * 2 + 2;
        pr.next[0] = o.next_capacity();
        for (int i = 0; i < total && pr.n < 8; ++i)
        {
            const auto& r = ALLOCS[std::size_t(i) % ALLOCS.size()].r;
            void* volatile p = nullptr;
            int oc = guarded([&] {
                try
                {
                    p = o.allocate(r.kind ? r.count * r.size : r.size, r.align ? r.align : 1);
                }
                catch (...)
                {
                    p = nullptr;
                }
            });
            pr.off[pr.n] = (oc == OUT_OK && p) ? long(w.h.up.offset_of(static_cast<u8*>(p))) : -1 - oc;
            pr.cap[pr.n] = oc == OUT_OK ? o.capacity_left() : 0;
            pr.next[pr.n + 1] = oc == OUT_OK ? o.next_capacity() : 0;
            ++pr.n;
            if (oc != OUT_OK)
                break;
        }
        T() = tr;
        return pr;
    }

    template <class W>
    static void extra_apply(W& w, int s, int i)
    {
        auto& x = w.x;
        auto& o = S::obj(s);
        auto& t = T();
        if (i == 0)
        {
            marker m = o.top();
            std::memcpy(x.mk[x.nmark], &m, sizeof m);
            x.cap_at[x.nmark]       = o.capacity_left();
            x.live_at[x.nmark]      = w.h.sh.n;
            x.shrunk_since[x.nmark] = 0;
            x.owner                 = u32(s);
            // marker order (C06): every older marker is <= the new one and all operators agree
            for (u32 j = 0; j < x.nmark; ++j)
            {
                marker a = *reinterpret_cast<marker*>(x.mk[j]);
                bool lt = a < m, gt = a > m, le = a <= m, ge = a >= m, eq = a == m, ne = a != m;
                if (gt || !le || (lt == eq) || (ne == eq) || (ge != eq) || (lt && ge))
                    t.fail("M-unwind", "marker-order",
                           fmt("marker m%u taken before m%u compares inconsistently (<:%d >:%d <=:%d >=:%d ==:%d !=:%d)", j,
                               x.nmark, lt, gt, le, ge, eq, ne));
                // equal iff nothing was allocated in between (same top)
                if (eq != (a.top == m.top && a.index == m.index))
                    t.fail("M-unwind", "marker-order", "marker equality disagrees with the marker's position");
            }
            ++x.nmark;
            if (PP.twin)
            {
                auto& sd = SIDE[x.nmark - 1];
                sd.resize(S::world_size());
                std::memcpy(sd.data(), S::world(), S::world_size());
            }
            t.outcome = "ok";
            return;
        }
        if (i == 1)
        {
            std::size_t cap_before = o.capacity_left();
            int oc = guarded([&] { o.shrink_to_fit(); });
            if (oc != OUT_OK)
            {
                S::bad_outcome(oc, "shrink_to_fit");
                return;
            }
            if (o.arena_.cache_size() != 0)
                t.fail("M-unwind", "shrink-kept-cache", "shrink_to_fit() left blocks in the cache");
            if (w.h.up.outstanding_of(u32(s)) != o.arena_.size())
                t.fail("M-upstream", "shrink-kept-blocks",
                       fmt("after shrink_to_fit() %u upstream blocks are outstanding but the arena uses %zu", w.h.up.outstanding_of(u32(s)),
                           o.arena_.size()));
            if (o.capacity_left() != cap_before)
                t.fail("M-counters", "shrink-changed-capacity", "shrink_to_fit() changed capacity_left()");
            if (t.up_allocs)
                t.fail("M-upstream", "shrink-allocated", "shrink_to_fit() allocated");
            for (u32 j = 0; j < x.nmark; ++j)
                x.shrunk_since[j] = 1;
            t.outcome = t.up_deallocs ? "ok+released" : "ok";
            if (t.up_deallocs)
                t.event("shrink_released_blocks");
            return;
        }
        // unwind(j)
        u32    j = u32(i - 2);
        marker m = *reinterpret_cast<marker*>(x.mk[j]);
        std::size_t blocks_before = o.arena_.size();
        int oc = guarded([&] { o.unwind(m); });
        if (oc != OUT_OK)
        {
            S::bad_outcome(oc, "unwind to a valid marker");
            t.outcome = outcome_name(oc);
            return;
        }
        if (t.up_deallocs || t.up_allocs)
            t.fail("M-unwind", "unwind-touched-upstream", "unwind() called the upstream allocator (blocks must be kept for reuse)");
        if (o.capacity_left() != x.cap_at[j])
            t.fail("M-unwind", "capacity-not-restored",
                   fmt("capacity_left() is %zu after unwind(m%u), it was %llu when the marker was taken", o.capacity_left(), j,
                       (unsigned long long)x.cap_at[j]));
        {
            marker now = o.top();
            if (!(now == m) || now != m || now < m || m < now)
                t.fail("M-unwind", "top-not-marker", fmt("top() does not compare equal to m%u right after unwinding to it", j));
        }
        if (blocks_before != o.arena_.size())
            t.event("unwound_across_blocks");
        // everything allocated after the marker is released, everything before stays
        for (u32 k = 0; k < w.h.sh.n;)
            if (w.h.sh.v[k].owner == u32(s) && w.h.sh.v[k].tag > j)
                w.h.sh.erase(k);
            else
                ++k;
        // remember the markers that became invalid
        x.nstale = 0;
        std::memset(x.stale, 0, sizeof x.stale);
        for (u32 k = j + 1; k < x.nmark && x.nstale < MAXM; ++k)
            std::memcpy(x.stale[x.nstale++], x.mk[k], sizeof(marker));
        x.nmark = j + 1;
        for (u32 k = x.nmark; k < MAXM; ++k)
        {
            std::memset(x.mk[k], 0, sizeof x.mk[k]);
            x.cap_at[k] = x.live_at[k] = x.shrunk_since[k] = 0;
        }
        t.outcome = "ok";
        if (!t.violations.empty())
            return;
        // twin comparison: the unwound object must behave as the object did when the marker was taken
        if (PP.twin && !x.shrunk_since[j] && SIDE[j].size() == S::world_size())
        {
            std::vector<u8> cur(S::world_size());
            std::memcpy(cur.data(), S::world(), S::world_size());
            // same environment on both sides: an armed upstream failure belongs to the history, not to the object
            w.h.up.fail_armed = 0;
            auto a = run_probes(w, s);
            std::memcpy(S::world(), SIDE[j].data(), S::world_size());
            w.h.up.fail_armed = 0;
            auto b = run_probes(w, int(w.x.owner));
            std::memcpy(S::world(), cur.data(), S::world_size());
            g_up() = &w.h.up;
            if (a.n != b.n)
                t.fail("M-unwind", "twin-differs", "probe sequence ended differently after unwind than at the marker");
            else if (a.next[0] != b.next[0])
                t.fail("M-unwind", "twin-differs",
                       fmt("next_capacity() is %zu after unwind(m%u), it was %zu when the marker was taken (nothing was released by unwinding)", a.next[0], j, b.next[0]));
            else
                for (int k = 0; k < a.n; ++k)
                    if (a.off[k] != b.off[k] || a.cap[k] != b.cap[k])
                    {
                        t.fail("M-unwind", "twin-differs",
                               fmt("probe request %d after unwind(m%u) returned offset %ld (capacity_left %zu); the same request made "
                                   "when the marker was taken returns offset %ld (capacity_left %zu)",
                                   k, j, a.off[k], a.cap[k], b.off[k], b.cap[k]));
                        break;
                    }
            t.event("twin_compared");
        }
    }
    static void after_alloc(extra_t&, const live_t&) {}
    static void after_release(extra_t&, const live_t&) {}
    static void after_move(extra_t& x, int from, int to)
    {
        if (x.nmark && x.owner == u32(from))
            x.owner = u32(to);
        else if (x.nmark && x.owner == u32(to))
            init_extra(x); // markers of an overwritten stack are gone
    }
    static void after_swap(extra_t& x)
    {
        if (x.nmark)
            x.owner = 1 - x.owner;
    }
    static void after_destroy(extra_t& x, int s)
    {
        if (x.nmark && x.owner == u32(s))
            init_extra(x);
    }

    struct obs
    {
        std::size_t capleft, next_cap, cache, blocks;
        const char* top;
    };
    template <class W>
    static obs observe(W&, int s)
    {
        auto& o = S::obj(s);
        obs   b;
        b.capleft  = o.capacity_left();
        b.next_cap = o.next_capacity();
        b.cache    = o.arena_.cache_size();
        b.blocks   = o.arena_.size();
        b.top      = o.stack_.top();
        return b;
    }
    template <class W>
    static void check_alloc(W& w, int s, const verif::alloc_req& r, const live_t& l, const obs& before)
    {
        auto& t     = T();
        auto  after = observe(w, s);
        auto& o     = S::obj(s);
        bool  grew  = after.blocks != before.blocks;
        if (grew)
        {
            t.event(before.cache ? "reused_cached_block" : "grew_fresh_block");
            if (before.cache && t.up_allocs)
                t.fail("M-upstream", "cache-not-reused", "a new upstream block was requested although the arena had a cached block");
            if (!before.cache && !t.up_allocs)
                t.fail("M-upstream", "block-from-nowhere", "the arena grew without cache and without an upstream request");
            // the new current block has the announced size
            auto cur = o.arena_.current_block();
            if (cur.size != before.next_cap)
                t.fail("M-counters", "next-capacity", fmt("next_capacity() announced %zu bytes, the next block has %zu", before.next_cap, cur.size));
            // consumption inside the new block
            std::size_t used = cur.size - after.capleft;
            if (used < l.bytes + 2 * cfg_fence || used > l.bytes + 2 * cfg_fence + (l.align ? l.align : 1))
                t.fail("M-counters", "capacity-delta-alloc", fmt("allocation of %u bytes consumed %zu bytes of the fresh block", l.bytes, used));
            // ... and exactly: fences, the bytes, and the padding the position in the NEW block requires (seed C18-N kept the padding
            // computed for the top of the old block)
            std::size_t a      = l.align ? l.align : 1;
            std::size_t minpad = (a - (reinterpret_cast<std::uintptr_t>(cur.memory) + cfg_fence) % a) % a;
            if (used != l.bytes + 2 * cfg_fence + minpad)
                t.fail("M-counters", "capacity-delta-grow",
                       fmt("allocation of %u bytes (alignment %zu) consumed %zu bytes of the fresh block, its position requires %zu padding and fence %zu",
                           l.bytes, a, used, minpad, cfg_fence));
        }
        else
        {
            if (t.up_allocs)
                t.fail("M-upstream", "block-from-nowhere", "upstream request without the arena growing");
            std::size_t used = before.capleft - after.capleft;
            std::size_t pad  = std::size_t(reinterpret_cast<const char*>(w.arena + l.off) - before.top) - cfg_fence;
            if (after.capleft > before.capleft || used != l.bytes + 2 * cfg_fence + pad)
                t.fail("M-counters", "capacity-delta-alloc",
                       fmt("capacity_left() went from %zu to %zu for %u bytes with %zu padding and fence %zu", before.capleft, after.capleft,
                           l.bytes, pad, cfg_fence));
        }
        if (r.is_try && grew)
            t.fail("M-try", "try-grew", "try_allocate switched blocks");
        if (std::size_t(l.bytes) > before.next_cap && grew)
            t.fail("M-maxima", "above-max-node-size", fmt("request of %u bytes succeeded, max_node_size() was %zu", l.bytes, before.next_cap));
        // fences around the allocation carry the fence pattern
        if (cfg_fence && cfg_fill)
        {
            // layout: [fence][alignment padding][memory][fence]
            for (std::size_t k = 1; k <= cfg_fence; ++k)
                if (w.arena[l.off + l.bytes + k - 1] != 0xFD || (w.arena[l.off - k] != 0xFD && w.arena[l.off - k] != 0xED))
                {
                    t.fail("M-fillnew", "fence-missing", "memory_stack allocation is not surrounded by fence / alignment bytes");
                    break;
                }
        }
    }
    template <class W>
    static void check_failed_alloc(W& w, int s, const verif::alloc_req& r, const obs& before, int ex)
    {
        auto& t     = T();
        auto  after = observe(w, s);
        if (r.is_try)
        {
            if (after.capleft != before.capleft || after.blocks != before.blocks)
                t.fail("M-try", "try-null-changed-state", "failed try_allocate changed the stack");
            // null only if it really does not fit
            std::size_t need = (r.kind ? r.count * r.size : r.size) + 2 * cfg_fence;
            std::size_t al   = r.align ? r.align : 1;
            std::uintptr_t a = reinterpret_cast<std::uintptr_t>(before.top) + cfg_fence;
            std::size_t pad  = (al - a % al) % al;
            if (before.top && need + pad <= before.capleft)
                t.fail("M-try", "try-null-although-fits", fmt("try_allocate returned null although %zu bytes (incl. padding) fit into %zu", need + pad, before.capleft));
        }
        // a request that obtained nothing from upstream leaves the announced figures alone (C18: the counters move only
        // with memory that is really taken or returned)
        if (t.up_allocs == 0 && after.next_cap != before.next_cap)
            t.fail("M-counters", "next-capacity-changed-by-failed-alloc",
                   fmt("next_capacity() went from %zu to %zu across a request that failed and obtained no block", before.next_cap, after.next_cap));
        if (t.up_allocs == 0 && after.blocks == before.blocks && after.capleft != before.capleft)
            t.fail("M-counters", "capacity-changed-by-failed-alloc",
                   fmt("capacity_left() went from %zu to %zu across a request that failed and obtained no block", before.capleft, after.capleft));
        (void)ex;
        (void)w;
    }
    template <class W>
    static void check_release(W&, int, const live_t&, const obs&)
    {
    }
    template <class W>
    static void check_structure(W& w, int s)
    {
        auto& o   = S::obj(s);
        auto  top = reinterpret_cast<const u8*>(o.stack_.top());
        if (!top)
            return;
        auto cur = o.arena_.current_block();
        auto beg = static_cast<const u8*>(cur.memory);
        if (top < beg || top > beg + cur.size)
            T().fail("M-inside", "top-outside-block", "the stack's top pointer lies outside its current block");
        if (w.h.up.outstanding_of(u32(s)) != o.arena_.size() + o.arena_.cache_size())
            T().fail("M-upstream", "block-accounting",
                     fmt("%u upstream blocks outstanding, arena uses %zu and caches %zu", w.h.up.outstanding_of(u32(s)), o.arena_.size(),
                         o.arena_.cache_size()));
    }
};

static void build_allocs()
{
    ALLOCS.clear();
    for (auto& sa : PP.reqs)
    {
        alloc_req r{};
        r.kind  = 0;
        r.count = 1;
        r.size  = u32(sa.first);
        r.align = u32(sa.second);
        r.fam   = u8(PP.fam);
        if (PP.fam == 0)
        {
            r.is_try = false;
            ALLOCS.push_back({r, fmt("allocate(%ld,%ld)", sa.first, sa.second), "allocate"});
            if (PP.tries)
            {
                r.is_try = true;
                ALLOCS.push_back({r, fmt("try_allocate(%ld,%ld)", sa.first, sa.second), "try_allocate"});
            }
        }
        else if (PP.fam == 1)
        {
            ALLOCS.push_back({r, fmt("traits::allocate_node(%ld,%ld)", sa.first, sa.second), "node"});
            alloc_req a = r;
            a.kind      = 1;
            a.count     = 2;
            ALLOCS.push_back({a, fmt("traits::allocate_array(2,%ld,%ld)", sa.first, sa.second), "array"});
        }
        else
        {
            r.is_try = true;
            ALLOCS.push_back({r, fmt("ctraits::try_allocate_node(%ld,%ld)", sa.first, sa.second), "try_node"});
        }
    }
}

int main(int argc, char** argv)
{
    argmap a(argc, argv);
    read_common(a);
    PP.bs      = std::size_t(a.n("bs", 128));
    PP.tries   = a.n("tries", 0) != 0;
    PP.markers = int(a.n("markers", 2));
    if (PP.markers > MAXM)
        PP.markers = MAXM;
    PP.twin = a.n("twin", 1) != 0;
    std::string fam = a.s("fam", "member");
    PP.fam  = fam == "member" ? 0 : fam == "traits" ? 1 : 2;
    {
        std::string v = a.s("reqs", "8x8,24x1");
        std::size_t p = 0;
        while (p < v.size())
        {
            auto e = v.find(',', p);
            if (e == std::string::npos)
                e = v.size();
            auto x = v.find('x', p);
            if (x != std::string::npos && x < e)
                PP.reqs.push_back({std::atol(v.substr(p, x - p).c_str()), std::atol(v.substr(x + 1, e - x - 1).c_str())});
            p = e + 1;
        }
    }
    build_allocs();
    std::string src  = a.s("src", "growing");
    std::string name = a.s("name", "stack/" + src);
    if (src == "growing")
        return run_system<asys<stack_policy<src_growing>>>(a, name);
    if (src == "constant")
        return run_system<asys<stack_policy<src_constant>>>(a, name);
    return run_system<asys<stack_policy<src_fixed>>>(a, name);
}
