// C06: memory_stack_raii_unwind - the RAII form of "take a marker, unwind to it later". All sequences (stateless DFS, every
// sequence replayed on a fresh stack) over: two allocation sizes (blocks are crossed), creation of up to two unwinders, move
// construction, move assignment in both directions (onto armed and released targets, from named live sources), release(),
// unwind(), destruction. A reference model holds (exists, armed, marker) per unwinder; operations that would unwind to a
// marker above the current top are outside the contract and not generated. After every step: will_unwind()/get_marker()/
// get_stack() of every unwinder equal the model, after every (implicit or explicit) unwind top() equals the marker, memory
// allocated before the marker keeps its contents, the invalid-pointer handler is never called. Enum protocol.
#include "../engine/core.hpp"

#include <foonathan/memory/debugging.hpp>
#include <foonathan/memory/heap_allocator.hpp>
#include <foonathan/memory/memory_stack.hpp>

#include <map>
#include <set>
#include <vector>

using namespace verif;
namespace fm = foonathan::memory;

using mstack_t  = fm::memory_stack<fm::growing_block_allocator<fm::heap_allocator, 1, 1>>; // equal blocks, not the type instantiated in the library
using munwind_t = fm::memory_stack_raii_unwind<mstack_t>;
using mmarker_t = mstack_t::marker;

enum op_kind
{
    ALLOC_S,
    ALLOC_B,
    MAKE0,
    MAKE1,
    MOVECTOR01, // U1(move(U0)) when U1 does not exist
    MOVECTOR10,
    ASSIGN01, // U0 = move(U1)
    ASSIGN10,
    RELEASE0,
    RELEASE1,
    UNWIND0,
    UNWIND1,
    DESTROY0,
    DESTROY1,
    NOPS
};
static const char* const OPN[] = {"allocate(24)", "allocate(72)", "U0(stack)", "U1(stack)", "U1(move(U0))", "U0(move(U1))", "U0 = move(U1)",
                                  "U1 = move(U0)", "U0.release()", "U1.release()", "U0.unwind()", "U1.unwind()", "destroy U0", "destroy U1"};

// a marker has no default constructor: keep it as bytes
struct mk_box
{
    alignas(mmarker_t) unsigned char b[sizeof(mmarker_t)];
    mk_box()
    {
        std::memset(b, 0, sizeof b);
    }
    mk_box(const mmarker_t& m)
    {
        std::memcpy(b, &m, sizeof b);
    }
    operator const mmarker_t&() const
    {
        return *reinterpret_cast<const mmarker_t*>(b);
    }
    const mmarker_t& get() const
    {
        return *this;
    }
};
struct model_u
{
    bool   exists = false, armed = false;
    bool   stale = false; // the stack was unwound below the marker: unwinding to it is outside the contract from then on
    mk_box marker;
};
struct live_a
{
    unsigned char* p;
    std::size_t    n;
    mk_box         before; // top() before this allocation
    unsigned char  pat;
};

static void ip_handler(const fm::allocator_info&, const void*)
{
    guard_escape(OUT_REPORTED);
}

struct run_result
{
    std::string verdict; // empty = ok
    int         executed = 0;
    bool        enabled_all = true;
};

// replays `ops`; stops at the first op that is not enabled (enabled_all=false) or at the first violation
static run_result run(const std::vector<int>& ops, bool verbose)
{
    run_result   r;
    mstack_t      stack(128);
    alignas(munwind_t) unsigned char storage[2][sizeof(munwind_t)];
    munwind_t*    u[2] = {nullptr, nullptr};
    model_u      m[2];
    std::vector<live_a> live;
    unsigned char pat = 1;
    auto fail = [&](const std::string& v) {
        if (r.verdict.empty())
            r.verdict = v;
    };
    auto can_unwind = [&](int k) { return m[k].exists && m[k].armed && !m[k].stale && m[k].marker.get() <= stack.top(); };
    auto after_unwind = [&](const mmarker_t& to, const char* what) {
        if (!(stack.top() == to))
            fail(fmt("top-not-marker|after %s top() is not the marker that had to be unwound to", what));
        for (int k = 0; k < 2; ++k)
            if (m[k].exists && m[k].armed && !(m[k].marker.get() <= to))
                m[k].stale = true;
        for (std::size_t i = 0; i < live.size();)
            if (!(live[i].before.get() < to)) // allocated at or after the marker: released
                live.erase(live.begin() + long(i));
            else
                ++i;
    };
    for (int op : ops)
    {
        bool en = false;
        switch (op)
        {
        case ALLOC_S:
        case ALLOC_B:
            en = live.size() < 6;
            break;
        case MAKE0:
        case MAKE1:
            en = !m[op - MAKE0].exists;
            break;
        case MOVECTOR01:
            en = m[0].exists && !m[1].exists;
            break;
        case MOVECTOR10:
            en = m[1].exists && !m[0].exists;
            break;
        case ASSIGN01: // target U0: if armed its unwind must be valid
            en = m[0].exists && m[1].exists && (!m[0].armed || can_unwind(0));
            break;
        case ASSIGN10:
            en = m[0].exists && m[1].exists && (!m[1].armed || can_unwind(1));
            break;
        case RELEASE0:
        case RELEASE1:
            en = m[op - RELEASE0].exists && m[op - RELEASE0].armed;
            break;
        case UNWIND0:
        case UNWIND1:
            en = can_unwind(op - UNWIND0);
            break;
        case DESTROY0:
        case DESTROY1:
            en = m[op - DESTROY0].exists && (!m[op - DESTROY0].armed || can_unwind(op - DESTROY0));
            break;
        }
        if (!en)
        {
            r.enabled_all = false;
            break;
        }
        int oc;
        auto body = [&] {
            switch (op)
            {
            case ALLOC_S:
            case ALLOC_B:
            {
                mk_box      before = stack.top();
                std::size_t n      = op == ALLOC_S ? 24 : 72;
                auto        p      = static_cast<unsigned char*>(stack.allocate(n, 8));
                std::memset(p, pat, n);
                live.push_back({p, n, before, pat});
                pat = static_cast<unsigned char>(pat % 200 + 1);
                break;
            }
            case MAKE0:
            case MAKE1:
            {
                int k       = op - MAKE0;
                m[k].marker = stack.top();
                m[k].exists = m[k].armed = true;
                u[k]                     = ::new (static_cast<void*>(storage[k])) munwind_t(stack);
                break;
            }
            case MOVECTOR01:
            case MOVECTOR10:
            {
                int from = op == MOVECTOR01 ? 0 : 1, to = 1 - from;
                u[to]          = ::new (static_cast<void*>(storage[to])) munwind_t(std::move(*u[from]));
                m[to]          = m[from];
                m[from].armed  = false;
                break;
            }
            case ASSIGN01:
            case ASSIGN10:
            {
                int to = op == ASSIGN01 ? 0 : 1, from = 1 - to;
                bool     was_armed = m[to].armed;
                mk_box   old       = m[to].marker;
                *u[to]             = std::move(*u[from]);
                if (was_armed)
                    after_unwind(old, "a move assignment onto an armed unwinder");
                m[to].armed   = m[from].armed;
                m[to].marker  = m[from].marker;
                m[to].stale   = m[from].stale;
                m[from].armed = false;
                break;
            }
            case RELEASE0:
            case RELEASE1:
                u[op - RELEASE0]->release();
                m[op - RELEASE0].armed = false;
                break;
            case UNWIND0:
            case UNWIND1:
                u[op - UNWIND0]->unwind();
                after_unwind(m[op - UNWIND0].marker, "unwind()");
                break;
            case DESTROY0:
            case DESTROY1:
            {
                int k = op - DESTROY0;
                u[k]->~munwind_t();
                u[k] = nullptr;
                if (m[k].armed)
                    after_unwind(m[k].marker, "the destructor of an armed unwinder");
                m[k] = model_u();
                break;
            }
            }
        };
        VERIF_GUARDED(oc, body());
        ++r.executed;
        if (oc != OUT_OK)
        {
            fail(fmt("%s|the library %s during %s of a contract-respecting sequence", oc == OUT_REPORTED ? "valid-call-reported" : outcome_name(oc),
                     oc == OUT_REPORTED ? "called the invalid-pointer handler" : outcome_name(oc), OPN[op]));
            // objects may be in any state now: leak them
            u[0] = u[1] = nullptr;
            break;
        }
        // observers agree with the model
        for (int k = 0; k < 2 && r.verdict.empty(); ++k)
            if (m[k].exists)
            {
                if (u[k]->will_unwind() != m[k].armed)
                    fail(fmt("armed-state|U%d.will_unwind() is %d, the model says %d after %s", k, int(u[k]->will_unwind()), int(m[k].armed), OPN[op]));
                else if (m[k].armed && (!(u[k]->get_marker() == m[k].marker.get()) || &u[k]->get_stack() != &stack))
                    fail(fmt("marker-state|U%d does not hold the marker / stack the model says after %s", k, OPN[op]));
            }
        for (auto& a : live)
            for (std::size_t i = 0; i < a.n && r.verdict.empty(); ++i)
                if (a.p[i] != a.pat)
                    fail(fmt("content|memory allocated before every pending marker changed (byte %zu of %zu) after %s", i, a.n, OPN[op]));
        if (verbose)
            std::printf("  %-16s U0[%s] U1[%s] live allocations %zu%s\n", OPN[op], !m[0].exists ? "-" : m[0].armed ? "armed" : "released",
                        !m[1].exists ? "-" : m[1].armed ? "armed" : "released", live.size(), r.verdict.empty() ? "" : "   <-- VIOLATION");
        if (!r.verdict.empty())
            break;
    }
    // clean up inside the contract: unwinders whose marker is no longer below the top are released first
    for (int k = 0; k < 2; ++k)
        if (u[k])
        {
            if (m[k].armed && (m[k].stale || !(m[k].marker.get() <= stack.top())))
                u[k]->release();
            int oc;
            auto body = [&] { u[k]->~munwind_t(); };
            VERIF_GUARDED(oc, body());
        }
    return r;
}

struct totals
{
    long evaluations = 0, pruned = 0;
    std::set<std::string> classes, tags;
    jarr vs, sm;
    int  nsm = 0;
};
static void dfs(std::vector<int>& ops, int depth, totals& t)
{
    for (int op = 0; op < NOPS; ++op)
    {
        ops.push_back(op);
        auto r = run(ops, false);
        if (!r.enabled_all)
        {
            ++t.pruned;
            ops.pop_back();
            continue;
        }
        ++t.evaluations;
        std::string cls;
        for (int o : ops)
            cls += char('a' + (o >= MAKE0 ? o : 0)); // allocation sizes are not part of the class
        t.classes.insert(cls);
        if (t.nsm < 3 && ops.size() == 5 && op == ASSIGN10 && ++t.nsm)
        {
            std::string s;
            for (int o : ops)
                s += std::string(s.empty() ? "" : "; ") + OPN[o];
            t.sm.str(s);
        }
        if (!r.verdict.empty())
        {
            auto        bar = r.verdict.find('|');
            std::string tag = r.verdict.substr(0, bar);
            if (t.tags.insert(tag).second)
            {
                auto        r2 = run(ops, false);
                std::string s, in = "[";
                for (std::size_t i = 0; i < ops.size(); ++i)
                {
                    s += std::string(i ? "; " : "") + OPN[ops[i]];
                    in += (i ? "," : "") + std::to_string(ops[i]);
                }
                jobj jv, ji;
                ji.raw("ops", in + "]");
                jv.str("tag", tag).str("detail", r.verdict.substr(bar + 1) + " | sequence: " + s + (r2.verdict == r.verdict ? "" : " (not reproduced)")).raw("input", ji.done());
                t.vs.raw(jv.done());
            }
        }
        else if (int(ops.size()) < depth)
            dfs(ops, depth, t);
        ops.pop_back();
    }
}

int main(int argc, char** argv)
{
    std::map<std::string, std::string> a;
    for (int i = 1; i + 1 < argc; i += 2)
        a[argv[i]] = argv[i + 1];
    install_guards(3000);
    fm::set_invalid_pointer_handler(ip_handler);
    if (a.count("--replay"))
    {
        std::string      js = a["--replay"];
        std::vector<int> ops;
        auto             p = js.find('[');
        while (p != std::string::npos && p < js.size())
        {
            ++p;
            if (js[p] == ']')
                break;
            ops.push_back(std::atoi(js.c_str() + p));
            p = js.find_first_of(",]", p);
            if (p == std::string::npos || js[p] == ']')
                break;
        }
        auto r = run(ops, true);
        std::printf("verdict: %s\n", r.verdict.empty() ? "ok" : r.verdict.c_str());
        return r.verdict.empty() ? 0 : 1;
    }
    std::freopen("/dev/null", "w", stderr);
    bool   thor = a.count("--tier") && a["--tier"] == "thorough";
    double t0   = now_s();
    totals t;
    std::vector<int> ops;
    dfs(ops, thor ? 8 : 7, t);
    jobj o;
    o.num("evaluations", t.evaluations).num("distinct_nontrivial", (long long)t.classes.size())
        .str("rule", "all contract-respecting sequences up to the depth over {allocate 24 / 72 bytes on 128-byte blocks, create U0/U1, move construct, move assign in both "
                     "directions, release, unwind, destroy}; operations that would unwind to a marker above the top are not generated (counted as excluded); class = sequence "
                     "with allocation sizes merged")
        .raw("samples", t.sm.done()).boolean("exhaustive", true).num("excluded", t.pruned).dbl("wall_s", now_s() - t0).raw("violations", t.vs.done());
    std::string out = a.count("--out") ? a["--out"] : "";
    FILE*       f   = out.empty() ? stdout : std::fopen(out.c_str(), "w");
    std::fputs((o.done() + "\n").c_str(), f);
    if (!out.empty())
        std::fclose(f);
    return 0;
}
