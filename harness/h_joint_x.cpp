// C11 harness, extension TU (see joint_body.hpp): element constructors that throw at every position in every
// joint_array / vector construction form (--mode throw) and exhaustive histories of growing vectors, raw
// joint_allocator nodes in every release order and arrays on the joint memory of one object (--mode grow).
#define VERIF_JOINT_EXT 1
#define VERIF_JOINT_PARTS 1
#define VERIF_JOINT_PART 0
#include "joint_body.hpp"
