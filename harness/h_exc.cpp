// C20: object-creating helpers are exception safe at every constructor failure point.
//
// Exhaustive fault enumeration on the real library code:
//   for every allocator fixture (instrumented logging RawAllocator, tracked memory_pool (two node sizes),
//   tracked memory_stack, tracked heap_allocator), every helper / joint_array constructor form, every array
//   length n = 0..16 (single objects: n = 1), every capacity slack, and every failing construction index
//   k = 1..points (k = 0: success run) one run is executed with an element type that throws a tagged
//   exception from its k-th construction inside the armed window.
// Oracle (per run): per-object construct/destruct log keyed by address+serial, allocator call log
// (kind, count, size, alignment, address), identity of the caught exception, follow-up allocation.
//
//   h_exc [--alloc log|pool|pool16|stack|heap|all] --tier quick|thorough --out <file>
//   h_exc [--alloc x] --replay '{"alloc":"log","helper":"joint.size","n":3,"k":2,"slack":0}'
// The implementation lives in exc_impl.hpp so that h_exc_o2.cpp can reuse it.
#include "exc_impl.hpp"
