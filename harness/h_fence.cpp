// C17 harness: fences beside low-level allocations + exact fill patterns.
//
//   h_fence --mode low   --alloc heap|malloc|new|virtual [--shard i/n] --tier quick|thorough --out f
//   h_fence --mode arena --kind <kind>                              --tier quick|thorough --out f
//   h_fence --mode ... --replay '<json int array>'
//
// mode low  : exhaustive input enumeration on the REAL low-level allocators (through allocator_traits):
//             every (api, count, size, alignment) x every byte offset of both fences x every byte value != 0xFD
//             -> corrupt exactly that byte, deallocate, counting buffer-overflow handler must have been called
//             exactly once with (node, size, address of the byte); pairs of corrupted bytes -> lowest address;
//             in-bounds writes -> never reported; returned memory all 0xCD, fences all 0xFD; default handler
//             (abort) once per allocator in a forked child.
// mode arena: bounded exhaustive walk (all op sequences up to a depth) over arena allocators living in static
//             storage: returned memory all 0xCD, memory released to a pool 0xDD except the link bytes, live
//             neighbours keep their pattern.
#include "../engine/core.hpp"

#include <cerrno>
#include <climits>
#include <cstddef>
#include <map>
#include <new>
#include <sys/wait.h>
#include <unordered_set>

#include <foonathan/memory/allocator_traits.hpp>
#include <foonathan/memory/debugging.hpp>
#include <foonathan/memory/error.hpp>
#include <foonathan/memory/heap_allocator.hpp>
#include <foonathan/memory/iteration_allocator.hpp>
#include <foonathan/memory/malloc_allocator.hpp>
#include <foonathan/memory/memory_pool.hpp>
#include <foonathan/memory/memory_pool_collection.hpp>
#include <foonathan/memory/memory_stack.hpp>
#include <foonathan/memory/new_allocator.hpp>
#include <foonathan/memory/static_allocator.hpp>
#include <foonathan/memory/virtual_memory.hpp>

namespace fm = foonathan::memory;
using namespace verif;

static const bool        FILL      = FOONATHAN_MEMORY_DEBUG_FILL != 0;
static const std::size_t FENCE_CFG = fm::detail::debug_fence_size; // 0 when fill is off
static const u8          NEW_B = 0xCD, FREED_B = 0xDD, FENCE_B = 0xFD;

//=== results ===============================================================================================
struct viol_rec
{
    std::string tag, detail, input;
};
struct results
{
    long long                        evaluations = 0, excluded = 0;
    std::unordered_set<u64>          classes;
    std::vector<std::string>         samples;
    std::vector<viol_rec>            viols;
    std::map<std::string, long long> viol_count;
    std::vector<std::string>         herr;
    std::map<std::string, long long> extra;
    bool                             exhaustive = true;
    std::string                      rule;

    void herror(const std::string& s)
    {
        if (herr.size() < 10)
            herr.push_back(s);
        exhaustive = false;
    }
    void violation(const std::string& tag, const std::string& detail, const std::string& input)
    {
        if (viol_count[tag]++ < 3)
            viols.push_back({tag, detail, input});
    }
};
static results R;

struct verdict
{
    const char* tag = nullptr; // nullptr = no violation
    std::string detail;
    bool        harness_problem = false;
    bool        bad() const
    {
        return tag != nullptr;
    }
};

static u64 key_of(std::initializer_list<long long> l)
{
    hasher h;
    for (auto x : l)
        h.word(u64(x));
    return h.get().a;
}

static std::vector<long long> parse_ints(const char* s)
{
    std::vector<long long> v;
    while (*s)
    {
        if ((*s == '-' && s[1] >= '0' && s[1] <= '9') || (*s >= '0' && *s <= '9'))
        {
            char* e;
            v.push_back(std::strtoll(s, &e, 10));
            s = e;
        }
        else
            ++s;
    }
    return v;
}

static std::string ints_json(const std::vector<long long>& v)
{
    jarr a;
    for (auto x : v)
        a.raw(std::to_string(x));
    return a.done();
}

//=== the counting handler ==================================================================================
struct report
{
    const void* mem;
    std::size_t size;
    const void* ptr;
};
static report g_rep[4];
static int    g_nrep = 0;
static void counting_handler(const void* m, std::size_t s, const void* p)
{
    if (g_nrep < 4)
        g_rep[g_nrep] = {m, s, p};
    ++g_nrep;
}
static void silent_leak(const fm::allocator_info&, std::ptrdiff_t) {}
static void silent_oom(const fm::allocator_info&, std::size_t) {}
static void silent_badsize(const fm::allocator_info&, std::size_t, std::size_t) {}

static void install_handlers()
{
    fm::set_buffer_overflow_handler(counting_handler);
    fm::set_leak_handler(silent_leak);
    fm::out_of_memory::set_handler(silent_oom);
    fm::bad_allocation_size::set_handler(silent_badsize);
}

//=== mode low ==============================================================================================
static const long FILLALL = -1000000; // pseudo offset: write the value to every byte of the node

// kind: 0 = writes into fence(s) (and possibly the node); 2 = in-bounds writes only; 4 = default handler in a child
struct lcase
{
    int         kind = 0, api = 0; // api 0 = allocate_node, 1 = allocate_array
    std::size_t count = 1, size = 1, align = 1;
    int         nw = 0;
    long        off[4]; // relative to the node: <0 fence before, [0,total) node, >= total fence after
    int         val[4];

    std::size_t total() const
    {
        return api == 0 ? size : count * size;
    }
    std::vector<long long> ints() const
    {
        std::vector<long long> v{kind, api, (long long)count, (long long)size, (long long)align};
        for (int i = 0; i < nw; ++i)
        {
            v.push_back(off[i]);
            v.push_back(val[i]);
        }
        return v;
    }
    static bool from(const std::vector<long long>& v, lcase& c)
    {
        if (v.size() < 5 || (v.size() - 5) % 2 != 0 || (v.size() - 5) / 2 > 4)
            return false;
        c.kind  = int(v[0]);
        c.api   = int(v[1]);
        c.count = std::size_t(v[2]);
        c.size  = std::size_t(v[3]);
        c.align = std::size_t(v[4]);
        c.nw    = int((v.size() - 5) / 2);
        for (int i = 0; i < c.nw; ++i)
        {
            c.off[i] = long(v[5 + 2 * i]);
            c.val[i] = int(v[6 + 2 * i]);
        }
        return true;
    }
};

template <class A>
struct low_info;
template <>
struct low_info<fm::heap_allocator>
{
    static const char* name()
    {
        return "heap";
    }
    // what lowlevel_allocator::allocate_node lays out: max_alignment on both sides as soon as fences are on
    static std::size_t fence()
    {
        return FENCE_CFG ? fm::detail::max_alignment : 0u;
    }
};
template <>
struct low_info<fm::malloc_allocator> : low_info<fm::heap_allocator>
{
    static const char* name()
    {
        return "malloc";
    }
};
template <>
struct low_info<fm::new_allocator> : low_info<fm::heap_allocator>
{
    static const char* name()
    {
        return "new";
    }
};
template <>
struct low_info<fm::virtual_memory_allocator>
{
    static const char* name()
    {
        return "virtual";
    }
    static std::size_t fence()
    {
        return FENCE_CFG ? fm::virtual_memory_page_size : 0u;
    }
};

static volatile lcase* g_cur_case = nullptr;

// runs one case on the real allocator; all memory accesses stay inside what the allocator laid out
template <class A>
static verdict run_lcase(const lcase& c, bool verbose)
{
    using T = fm::allocator_traits<A>;
    verdict           v;
    A                 alloc;
    const std::size_t total = c.total();
    const std::size_t W     = low_info<A>::fence();
    guard().seq             = guard().seq + 1;

    for (int i = 0; i < c.nw; ++i)
    {
        long o  = c.off[i];
        bool ok = o == FILLALL || (o >= -long(W) && o < long(total + W));
        if (c.kind == 2 && o != FILLALL && (o < 0 || o >= long(total)))
            ok = false;
        if (!ok)
        {
            v.tag             = "bad-case";
            v.harness_problem = true;
            v.detail          = fmt("offset %ld outside node+fences (size %zu, fence %zu)", o, total, W);
            return v;
        }
    }

    g_nrep  = 0;
    void* p = nullptr;
    try
    {
        p = c.api == 0 ? T::allocate_node(alloc, c.size, c.align) : T::allocate_array(alloc, c.count, c.size, c.align);
    }
    catch (...)
    {
    }
    if (!p)
    {
        v.tag             = "allocation-failed";
        v.harness_problem = true;
        v.detail          = fmt("%s allocation of %zu bytes failed", low_info<A>::name(), total);
        return v;
    }
    u8* n = static_cast<u8*>(p);
    if (verbose)
        std::printf("  allocated node %p, %zu bytes (api %s count %zu size %zu alignment %zu), fence width %zu\n", p, total,
                    c.api ? "allocate_array" : "allocate_node", c.count, c.size, c.align, W);

    auto release = [&]
    {
        if (c.api == 0)
            T::deallocate_node(alloc, p, c.size, c.align);
        else
            T::deallocate_array(alloc, p, c.count, c.size, c.align);
    };

    // fill patterns on return
    if (FILL)
    {
        for (std::size_t i = 0; i < total; ++i)
            if (n[i] != NEW_B)
            {
                v.tag    = "not-new-pattern";
                v.detail = fmt("%s: byte %zu of a fresh %zu byte node is 0x%02X, expected new_memory 0xCD", low_info<A>::name(), i,
                               total, n[i]);
                break;
            }
        // fence layout; the first fence starts at the block the allocator obtained, reading it is safe
        for (std::size_t i = 0; i < W && !v.bad(); ++i)
            if (n[-long(W) + long(i)] != FENCE_B)
            {
                v.tag    = "fence-not-filled";
                v.detail = fmt("%s: byte %ld before a fresh %zu byte node is 0x%02X, expected fence_memory 0xFD", low_info<A>::name(),
                               long(W) - long(i), total, n[-long(W) + long(i)]);
            }
        for (std::size_t i = 0; i < W && !v.bad(); ++i)
            if (n[total + i] != FENCE_B)
            {
                v.tag    = "fence-not-filled";
                v.detail = fmt("%s: byte %zu after a fresh %zu byte node is 0x%02X, expected fence_memory 0xFD", low_info<A>::name(), i,
                               total, n[total + i]);
            }
        if (v.bad())
        {
            release(); // nothing was written by the harness
            return v;
        }
    }

    // the writes
    const u8* lo_pre  = nullptr;
    const u8* lo_post = nullptr;
    for (int i = 0; i < c.nw; ++i)
    {
        long o = c.off[i];
        u8   b = u8(c.val[i]);
        if (o == FILLALL)
        {
            std::memset(n, b, total);
            continue;
        }
        n[o] = b;
        if (verbose)
            std::printf("  wrote 0x%02X to node%+ld (%p)%s\n", b, o, (void*)(n + o),
                        o < 0 ? "  [fence before]" : (o >= long(total) ? "  [fence after]" : "  [in bounds]"));
        if (b != FENCE_B)
        {
            if (o < 0 && (!lo_pre || n + o < lo_pre))
                lo_pre = n + o;
            if (o >= long(total) && (!lo_post || n + o < lo_post))
                lo_post = n + o;
        }
    }

    release();

    if (verbose)
    {
        std::printf("  buffer overflow handler calls: %d\n", g_nrep);
        for (int i = 0; i < g_nrep && i < 4; ++i)
            std::printf("    #%d memory=%p size=%zu write_ptr=%p (node%+ld)\n", i, g_rep[i].mem, g_rep[i].size, g_rep[i].ptr,
                        long(static_cast<const u8*>(g_rep[i].ptr) - n));
    }

    // oracle
    const int expected_min = (lo_pre || lo_post) ? 1 : 0;
    const int expected_max = (lo_pre ? 1 : 0) + (lo_post ? 1 : 0);
    const u8* first        = lo_pre ? lo_pre : lo_post;
    if (expected_max == 0)
    {
        if (g_nrep != 0)
        {
            v.tag    = "spurious-report";
            v.detail = fmt("%s: %d overflow report(s) although no fence byte was changed (node %zu bytes, first write_ptr node%+ld)",
                           low_info<A>::name(), g_nrep, total, long(static_cast<const u8*>(g_rep[0].ptr) - n));
        }
        return v;
    }
    if (g_nrep == 0)
    {
        v.tag    = "unreported";
        v.detail = fmt("%s: write to fence byte node%+ld (node of %zu bytes, fence %zu) was not reported on deallocation",
                       low_info<A>::name(), long(first - n), total, W);
        return v;
    }
    if (g_nrep > expected_max)
    {
        v.tag    = "multiple-reports";
        v.detail = fmt("%s: %d reports for %d corrupted fence(s), node %zu bytes", low_info<A>::name(), g_nrep, expected_max, total);
        return v;
    }
    (void)expected_min;
    if (g_rep[0].ptr != first)
    {
        v.tag    = "wrong-address";
        v.detail = fmt("%s: first corrupted byte is node%+ld but the handler got write_ptr node%+ld (node %zu bytes)",
                       low_info<A>::name(), long(first - n), long(static_cast<const u8*>(g_rep[0].ptr) - n), total);
        return v;
    }
    if (g_nrep == 2 && g_rep[1].ptr != lo_post)
    {
        v.tag    = "wrong-address";
        v.detail = fmt("%s: second report has write_ptr node%+ld, first corrupted byte of the fence after the node is node%+ld",
                       low_info<A>::name(), long(static_cast<const u8*>(g_rep[1].ptr) - n), long(lo_post - n));
        return v;
    }
    for (int i = 0; i < g_nrep; ++i)
        if (g_rep[i].mem != p || g_rep[i].size != total)
        {
            v.tag    = "wrong-node";
            v.detail = fmt("%s: handler got (memory node%+ld, size %zu), the node is (node+0, %zu)", low_info<A>::name(),
                           long(static_cast<const u8*>(g_rep[i].mem) - n), g_rep[i].size, total);
            return v;
        }
    return v;
}

// default handler: run allocate / write / deallocate in a child, the library's own handler must abort the process
template <class A>
static verdict run_default_child(const lcase& c, bool verbose)
{
    using T = fm::allocator_traits<A>;
    verdict           v;
    const std::size_t total = c.total();
    const std::size_t W     = low_info<A>::fence();
    int               fds[2];
    if (pipe(fds) != 0)
    {
        v.tag             = "pipe-failed";
        v.harness_problem = true;
        return v;
    }
    std::fflush(stdout);
    pid_t pid = fork();
    if (pid == 0)
    {
        close(fds[0]);
        guard().active = 0;
        signal(SIGABRT, SIG_DFL);
        alarm(10);
        fm::set_buffer_overflow_handler(nullptr); // restores the default handler
        A    alloc;
        void* p = c.api == 0 ? T::allocate_node(alloc, c.size, c.align) : T::allocate_array(alloc, c.count, c.size, c.align);
        u8*  n = static_cast<u8*>(p);
        char buf[200];
        const u8* lowest = nullptr;
        for (int i = 0; i < c.nw; ++i)
        {
            n[c.off[i]] = u8(c.val[i]);
            if ((c.off[i] < 0 || c.off[i] >= long(total)) && u8(c.val[i]) != FENCE_B && (!lowest || n + c.off[i] < lowest))
                lowest = n + c.off[i];
        }
        int len = std::snprintf(buf, sizeof buf, "%p %p %zu\n", (const void*)lowest, p, total);
        if (write(fds[1], buf, std::size_t(len)) != len)
            _exit(3);
        dup2(fds[1], 2);
        if (c.api == 0)
            T::deallocate_node(alloc, p, c.size, c.align);
        else
            T::deallocate_array(alloc, p, c.count, c.size, c.align);
        _exit(0);
    }
    close(fds[1]);
    std::string out;
    char        buf[512];
    ssize_t     k;
    while ((k = read(fds[0], buf, sizeof buf)) > 0 || (k < 0 && errno == EINTR))
        if (k > 0)
            out.append(buf, std::size_t(k));
    close(fds[0]);
    int st = 0;
    while (waitpid(pid, &st, 0) < 0 && errno == EINTR)
    {
    }
    auto        nl    = out.find('\n');
    std::string head  = nl == std::string::npos ? out : out.substr(0, nl);
    std::string msg   = nl == std::string::npos ? "" : out.substr(nl + 1);
    char        a1[64] = "", a2[64] = "";
    std::size_t sz = 0;
    std::sscanf(head.c_str(), "%63s %63s %zu", a1, a2, &sz);
    if (verbose)
        std::printf("  child: %s (status 0x%x); expected write_ptr %s node %s size %zu; stderr of the child: %s\n",
                    WIFSIGNALED(st) ? "killed by signal" : "exited", st, a1, a2, sz, msg.c_str());
    bool corrupting = false;
    for (int i = 0; i < c.nw; ++i)
        if ((c.off[i] < 0 || c.off[i] >= long(total)) && u8(c.val[i]) != FENCE_B)
            corrupting = true;
    if (corrupting && W)
    {
        if (!(WIFSIGNALED(st) && WTERMSIG(st) == SIGABRT))
        {
            v.tag    = "default-handler-no-abort";
            v.detail = fmt("%s: fence byte node%+ld corrupted, deallocation with the default buffer overflow handler did not abort (wait "
                           "status 0x%x)",
                           low_info<A>::name(), c.off[0], st);
        }
        else if (msg.find(a1) == std::string::npos || msg.find(a2) == std::string::npos)
        {
            v.tag    = "default-handler-wrong-message";
            v.detail = fmt("%s: default handler message '%s' does not name write address %s and node %s", low_info<A>::name(),
                           json_escape(msg).c_str(), a1, a2);
        }
    }
    else if (!(WIFEXITED(st) && WEXITSTATUS(st) == 0) || !msg.empty())
    {
        v.tag    = "spurious-report";
        v.detail = fmt("%s: no fence byte changed but the child with the default handler ended with status 0x%x, stderr '%s'",
                       low_info<A>::name(), st, json_escape(msg).c_str());
    }
    return v;
}

template <class A>
static verdict run_any(const lcase& c, bool verbose)
{
    return c.kind == 4 ? run_default_child<A>(c, verbose) : run_lcase<A>(c, verbose);
}

// runs the case in a forked child: 0 = no violation, 1 = violation, 2 = crashed / aborted / hung
template <class A>
static int run_forked(const lcase& c, bool verbose, std::string& what)
{
    std::fflush(stdout);
    pid_t pid = fork();
    if (pid == 0)
    {
        guard().active = 0;
        signal(SIGABRT, SIG_DFL);
        alarm(20);
        verdict v = run_any<A>(c, verbose);
        if (verbose && v.bad())
            std::printf("  VIOLATION [%s] %s\n", v.tag, v.detail.c_str());
        std::fflush(stdout);
        _exit(v.bad() ? 1 : 0);
    }
    int st = 0;
    while (waitpid(pid, &st, 0) < 0 && errno == EINTR)
    {
    }
    if (WIFEXITED(st))
        return WEXITSTATUS(st) == 0 ? 0 : 1;
    what = fmt("terminated by signal %d", WTERMSIG(st));
    return 2;
}

template <class A>
struct low_driver
{
    bool              thorough;
    int               shard_i = 0, shard_n = 1;
    std::vector<int>  values;     // every byte value != 0xFD
    std::vector<int>  few_values; // page fences: neighbours of the pattern and the extremes
    bool              stop = false;

    void eval(const lcase& c, u64 cls)
    {
        g_cur_case = const_cast<lcase*>(&c);
        verdict v  = run_any<A>(c, false);
        ++R.evaluations;
        R.classes.insert(cls);
        if (v.bad())
        {
            if (v.harness_problem)
            {
                R.herror(std::string(v.tag) + ": " + v.detail + " input " + ints_json(c.ints()));
                return;
            }
            std::string first_tag = v.tag;
            verdict     v2        = run_any<A>(c, false); // re-check once
            if (v2.bad() && first_tag == v2.tag)
                R.violation(v.tag, v.detail, ints_json(c.ints()));
            else
                R.herror("verdict not reproducible for input " + ints_json(c.ints()) + ": first " + first_tag + ": " + v.detail);
        }
        else if (R.samples.size() < 4 && (R.evaluations % 9973 == 1))
            R.samples.push_back(ints_json(c.ints()));
    }

    void combo(int api, std::size_t count, std::size_t size, std::size_t align, bool all_values)
    {
        const bool        is_virtual = std::is_same<A, fm::virtual_memory_allocator>::value;
        const std::size_t W          = low_info<A>::fence();
        lcase             c;
        c.api   = api;
        c.count = count;
        c.size  = size;
        c.align = align;
        const std::size_t total = c.total();
        const long long   A_    = api, C_ = (long long)count, S_ = (long long)size, L_ = (long long)align;

        if (W)
        {
            // one corrupted byte: every offset of both fences, every value
            c.kind = 0;
            c.nw   = 1;
            for (int side = 0; side < 2; ++side)
                for (std::size_t i = 0; i < W; ++i)
                {
                    c.off[0] = side == 0 ? -long(W) + long(i) : long(total + i);
                    u64 cls  = key_of({0, A_, C_, S_, L_, c.off[0]});
                    for (int b : (all_values ? values : few_values))
                    {
                        c.val[0] = b;
                        eval(c, cls);
                    }
                }
            // two corrupted bytes in one fence: the lowest address is reported
            c.nw                    = 2;
            static const int pv[][2] = {{0x00, 0xFF}, {0xFE, 0x00}};
            for (int side = 0; side < 2; ++side)
                for (std::size_t i = 0; i < W; ++i)
                {
                    std::vector<std::size_t> js;
                    if (!is_virtual)
                        for (std::size_t j = i + 1; j < W; ++j)
                            js.push_back(j);
                    else
                        for (std::size_t j : {i + 1, W - 1})
                            if (j > i && j < W && (js.empty() || js.back() != j))
                                js.push_back(j);
                    for (std::size_t j : js)
                        for (auto& p : pv)
                        {
                            if (is_virtual && &p != &pv[(i + j) % 2])
                                continue; // page fences: one value pair per offset pair
                            // the higher address is written first on purpose
                            c.off[0] = side == 0 ? -long(W) + long(j) : long(total + j);
                            c.off[1] = side == 0 ? -long(W) + long(i) : long(total + i);
                            c.val[0] = p[0];
                            c.val[1] = p[1];
                            eval(c, key_of({1, A_, C_, S_, L_, c.off[0], c.off[1]}));
                        }
                }
            // one byte in each fence: the fence before the node (lowest address) is reported first
            for (std::size_t i = 0; i < W; ++i)
                for (std::size_t j = 0; j < W; ++j)
                {
                    if (is_virtual && j != W - 1 - i)
                        continue;
                    c.off[0] = long(total + j);
                    c.off[1] = -long(W) + long(i);
                    c.val[0] = 0x00;
                    c.val[1] = 0xFF;
                    eval(c, key_of({1, A_, C_, S_, L_, c.off[0], c.off[1]}));
                }
            // a write of the fence pattern itself into a fence is not a corruption, together with an in-bounds write
            c.off[0] = -1;
            c.val[0] = FENCE_B;
            c.off[1] = long(total);
            c.val[1] = FENCE_B;
            eval(c, key_of({3, A_, C_, S_, L_}));
        }
        // in-bounds writes: every offset of the node with extreme values, whole node, both ends
        c.kind                = 2;
        c.nw                  = 1;
        static const int iv[] = {0x00, 0xFF, 0xFD, 0xDD};
        for (std::size_t i = 0; i < total; ++i)
        {
            c.off[0] = long(i);
            u64 cls  = key_of({2, A_, C_, S_, L_, long(i)});
            for (int b : iv)
            {
                c.val[0] = b;
                eval(c, cls);
            }
        }
        for (int b : iv)
        {
            c.off[0] = FILLALL;
            c.val[0] = b;
            eval(c, key_of({2, A_, C_, S_, L_, FILLALL}));
        }
        c.nw     = 2;
        c.off[0] = 0;
        c.val[0] = 0x00;
        c.off[1] = long(total) - 1;
        c.val[1] = 0xFF;
        eval(c, key_of({2, A_, C_, S_, L_, -2}));
    }

    void run()
    {
        const bool is_virtual = std::is_same<A, fm::virtual_memory_allocator>::value;
        values.clear();
        for (int b = 0; b < 256; ++b)
            if (b != FENCE_B)
                values.push_back(b);
        few_values = {0x00, 0xFC, 0xFE, 0xFF};

        struct shape
        {
            int         api;
            std::size_t count, size, align;
            bool        all_values;
        };
        std::vector<shape>  shapes;
        const std::size_t   aligns[] = {1, 2, 4, 8, 16};
        if (!is_virtual)
        {
            std::vector<std::size_t> sizes;
            for (std::size_t s = 1; s <= (thorough ? 512u : 64u); ++s)
                sizes.push_back(s);
            for (std::size_t s : {100u, 255u, 256u, 4096u})
                if (s > sizes.back())
                    sizes.push_back(s);
            std::vector<std::size_t> counts = thorough ? std::vector<std::size_t>{2, 3} : std::vector<std::size_t>{2};
            for (std::size_t s : sizes)
                for (std::size_t a : aligns)
                {
                    shapes.push_back({0, 1, s, a, true});
                    for (std::size_t cnt : counts)
                        if (cnt * s <= 2 * 4096)
                            shapes.push_back({1, cnt, s, a, true});
                }
        }
        else
        {
            // one case costs a map/unmap cycle (tens of microseconds): all 255 values only in the thorough tier on a few
            // shapes (listed first so that shards share them), the four values next to / far from 0xFD everywhere else
            const std::size_t P = fm::virtual_memory_page_size;
            if (thorough)
            {
                shapes.push_back({0, 1, 1, 1, true});
                shapes.push_back({0, 1, 100, 16, true});
                shapes.push_back({0, 1, P + 1, 8, true});
                shapes.push_back({1, 3, 7, 8, true});
            }
            std::vector<std::size_t> sizes = thorough ? std::vector<std::size_t>{1, 3, 7, 8, 100, P - 1, P, P + 1, 2 * P + 5} :
                                                        std::vector<std::size_t>{1, 100, P + 1};
            for (std::size_t s : sizes)
                for (std::size_t a : aligns)
                    shapes.push_back({0, 1, s, a, false});
            for (std::size_t s : sizes)
                shapes.push_back({1, 2, s, 8, false});
        }
        R.extra["shapes_total"]   = (long long)shapes.size();
        R.extra["fence_width"]    = (long long)low_info<A>::fence();
        R.extra["fence_config"]   = (long long)FENCE_CFG;
        { long long full = 0; for (auto& x : shapes) full += x.all_values; R.extra["shapes_with_all_255_values"] = full; }
        long long mine            = 0;
        for (std::size_t k = 0; k < shapes.size() && !stop; ++k)
        {
            if (int(k % std::size_t(shard_n)) != shard_i)
                continue;
            ++mine;
            auto& sh = shapes[k];
            int   out;
            VERIF_GUARDED(out, combo(sh.api, sh.count, sh.size, sh.align, sh.all_values));
            if (out != OUT_OK)
            {
                // the library crashed / aborted / hung inside a case: confirm in a child, then stop this job
                lcase       c = *const_cast<lcase*>(g_cur_case);
                std::string what;
                int         rc = run_forked<A>(c, false, what);
                if (rc == 2)
                    R.violation("crash", fmt("%s: %s inside allocate/deallocate (%s), the counting handler must simply be called",
                                             low_info<A>::name(), outcome_name(out), what.c_str()),
                                ints_json(c.ints()));
                else
                    R.herror(fmt("%s in process but not reproducible in a child, input ", outcome_name(out)) + ints_json(c.ints()));
                R.exhaustive = false;
                stop         = true;
            }
        }
        R.extra["shapes_run"] = mine;
        // default handler, once per allocator (first shard only)
        if (shard_i == 0 && !stop)
        {
            const std::size_t W = low_info<A>::fence();
            lcase             c;
            c.kind  = 4;
            c.api   = 0;
            c.count = 1;
            c.size  = 24;
            c.align = 8;
            c.nw    = 1;
            if (W)
            {
                for (long o : {long(-1), long(-long(W)), long(c.size), long(c.size + W - 1)})
                {
                    c.off[0] = o;
                    c.val[0] = 0x00;
                    eval(c, key_of({4, o}));
                }
            }
            c.off[0] = 3;
            c.val[0] = 0x00;
            eval(c, key_of({4, 3}));
        }
    }
};

template <class A>
static int low_main(bool thorough, int si, int sn, const char* replay)
{
    install_handlers();
    if (replay)
    {
        lcase c;
        if (!lcase::from(parse_ints(replay), c))
        {
            std::printf("cannot parse case\n");
            return 2;
        }
        std::printf("replay %s allocator, fill %d, configured fence %zu, fence width laid out %zu: case %s\n", low_info<A>::name(),
                    int(FILL), FENCE_CFG, low_info<A>::fence(), ints_json(c.ints()).c_str());
        std::string what;
        int         rc = run_forked<A>(c, true, what);
        if (rc == 2)
            std::printf("  VIOLATION [crash] %s\n", what.c_str());
        std::printf(rc ? "=> violates\n" : "=> ok\n");
        return rc ? 1 : 0;
    }
    install_guards(5000);
    {
        // the C library aborts on its own (heap consistency checks) without passing through the wrapped abort()
        struct sigaction sa;
        std::memset(&sa, 0, sizeof sa);
        sa.sa_handler = verif_signal_handler;
        sa.sa_flags   = SA_ONSTACK | SA_NODEFER;
        sigemptyset(&sa.sa_mask);
        sigaction(SIGABRT, &sa, nullptr);
    }
    low_driver<A> d;
    d.thorough = thorough;
    d.shard_i  = si;
    d.shard_n  = sn;
    d.run();
    R.rule = "every (allocate_node | allocate_array count x size) x alignment {1,2,4,8,16} x every byte offset of both fences the "
             "allocator lays out x every byte value != 0xFD (one corrupted byte), pairs of corrupted bytes per fence and across "
             "fences, every in-bounds offset x {00,FF,FD,DD}; a case class is (kind, api, count, size, alignment, offsets) without "
             "the byte value; non-trivial = reached the oracle after a real allocate/write/deallocate";
    return 0;
}

//=== mode arena ============================================================================================
namespace arena
{
    constexpr std::size_t STORE = 1152; // divisible by 96, 128, 192, 384, 576
    constexpr std::size_t GUARD = 256;  // untouched bytes the harness keeps before and after every static storage
    template <std::size_t N>
    struct guarded
    {
        alignas(64) u8 pre[GUARD];
        fm::static_allocator_storage<N> st;
        u8 post[GUARD];
    };
    static guarded<STORE> g_store_g;
    static guarded<192>   g_small_store_g;
    static guarded<4096>  g_big_store_g;
    static guarded<128>   g_block_store_g; // exactly one block of the nearly-full memory_stack
    static_assert(offsetof(guarded<192>, st) == GUARD && offsetof(guarded<192>, post) == GUARD + 192, "guard layout");
    static fm::static_allocator_storage<STORE>& g_store       = g_store_g.st;
    static fm::static_allocator_storage<192>&   g_small_store = g_small_store_g.st;
    static fm::static_allocator_storage<4096>&  g_big_store   = g_big_store_g.st;
    static fm::static_allocator_storage<128>&   g_block_store = g_block_store_g.st;

    inline u8 pat(std::size_t off)
    {
        return u8(0x21 + off % 61);
    }

    struct live
    {
        u8*         p;
        std::size_t n;
        int         what; // adapter specific (size index / array)
        std::size_t count, esize;
        int         iter;
    };

    struct shadow
    {
        u8*              base = nullptr;
        std::size_t      n    = 0;
        std::vector<u8>  exp; // 0 don't care, 1 freed pattern expected, 2 user pattern expected
        std::vector<live> lives;
        bool             report = false; // true while the last operation of a sequence runs
        verdict          v;
        long long        new_bytes = 0, freed_bytes = 0, live_bytes = 0, allocs = 0, alloc_failed = 0, frees = 0, discards = 0;

        void reset(u8* b, std::size_t sz)
        {
            base = b;
            n    = sz;
            exp.assign(sz, 0);
            lives.clear();
            clear_verdicts();
            report = false;
            new_bytes = freed_bytes = live_bytes = allocs = alloc_failed = frees = discards = 0;
        }
        bool inside(const u8* p, std::size_t sz) const
        {
            return p >= base && p + sz <= base + n;
        }
        std::vector<verdict> all; // one entry per distinct tag, v is the first
        void fail(const char* tag, const std::string& d, bool hp = false)
        {
            for (auto& x : all)
                if (std::string(x.tag) == tag)
                    return;
            verdict nv;
            nv.tag             = tag;
            nv.detail          = d;
            nv.harness_problem = hp;
            all.push_back(nv);
            if (!v.bad())
                v = nv;
        }
        void clear_verdicts()
        {
            v = verdict();
            all.clear();
        }
        // footprint: bytes of pool nodes the allocation occupies (>= sz); expectations about them end here
        void on_alloc(void* mem, std::size_t sz, int what, std::size_t count, std::size_t esize, int iter = 0,
                      std::size_t footprint = 0)
        {
            u8* p = static_cast<u8*>(mem);
            if (footprint < sz)
                footprint = sz;
            if (!inside(p, footprint))
            {
                fail("outside-storage",
                     fmt("the allocator returned %zu bytes at storage%+ld, its storage is only %zu bytes (nothing was written by the "
                         "harness)",
                         footprint, long(p - base), n));
                return;
            }
            ++allocs;
            for (std::size_t i = 0; i < footprint; ++i)
                if (exp[std::size_t(p - base) + i] == 2)
                {
                    fail("overlaps-live",
                         fmt("fresh allocation of %zu bytes at store offset %zu overlaps a live allocation", sz, std::size_t(p - base)));
                    return;
                }
                else
                    exp[std::size_t(p - base) + i] = 0;
            if (FILL)
            {
                for (std::size_t i = 0; i < sz; ++i)
                    if (p[i] != NEW_B)
                    {
                        fail("not-new-pattern", fmt("byte %zu of a fresh %zu byte allocation (store offset %zu) is 0x%02X, expected "
                                                    "new_memory 0xCD",
                                                    i, sz, std::size_t(p - base), p[i]));
                        break;
                    }
                new_bytes += (long long)sz;
            }
            std::size_t o = std::size_t(p - base);
            for (std::size_t i = 0; i < sz; ++i)
            {
                p[i]       = pat(o + i);
                exp[o + i] = 2;
            }
            lives.push_back({p, sz, what, count, esize, iter});
        }
        // memory went back to a pool: freed pattern expected except `link` bytes at the start of every `stride` bytes
        void on_free(u8* p, std::size_t sz, std::size_t stride, std::size_t link)
        {
            ++frees;
            std::size_t o = std::size_t(p - base);
            for (std::size_t i = 0; i < sz; ++i)
                exp[o + i] = (i % stride) < link ? 0 : 1;
        }
        void discard(u8* p, std::size_t sz)
        {
            ++discards;
            std::size_t o = std::size_t(p - base);
            for (std::size_t i = 0; i < sz; ++i)
                exp[o + i] = 0;
        }
        void check_all()
        {
            for (std::size_t i = 0; i < n; ++i)
            {
                if (exp[i] == 2)
                {
                    ++live_bytes;
                    if (base[i] != pat(i))
                    {
                        fail("neighbour-clobbered",
                             fmt("store offset %zu belongs to a live allocation, holds 0x%02X instead of the user's 0x%02X", i, base[i],
                                 pat(i)));
                        return;
                    }
                }
                else if (exp[i] == 1 && FILL)
                {
                    ++freed_bytes;
                    if (base[i] != FREED_B)
                    {
                        fail("not-freed-pattern",
                             fmt("store offset %zu was released to the pool and is not a link byte, holds 0x%02X instead of freed_memory "
                                 "0xDD",
                                 i, base[i]));
                        return;
                    }
                }
            }
        }
        u64 state_key() const
        {
            hasher h;
            h.bytes(exp.data(), exp.size());
            h.word(lives.size());
            return h.get().a;
        }
    };

    struct sys
    {
        virtual ~sys() {}
        virtual const char* name()                   = 0;
        virtual u8*         store()                  = 0;
        virtual std::size_t store_size()             = 0;
        virtual int         nops()                   = 0;
        virtual std::string opname(int)              = 0;
        virtual void        construct()              = 0;
        virtual void        destroy()                = 0;
        virtual void        abandon()                = 0; // after a contained abort: forget the object
        virtual int         apply(int op, shadow& s) = 0; // 0 = not applicable in this state, 1 = applied
        // static storages sit between two guard zones of GUARD bytes (struct guarded)
        virtual void prepare()
        {
            std::memset(store() - GUARD, 0x5A, store_size() + 2 * GUARD);
        }
        virtual void setup(shadow&) {} // fixed prologue after construction
        virtual void check_outside(shadow& s)
        {
            u8* b = store();
            for (std::size_t i = 0; i < GUARD; ++i)
                if (b[store_size() + i] != 0x5A)
                {
                    s.fail("wrote-outside-storage", fmt("byte %zu behind the end of the allocator's %zu byte storage was overwritten with "
                                                        "0x%02X (nobody but the allocator ran)",
                                                        i, store_size(), b[store_size() + i]));
                    return;
                }
            for (std::size_t i = 1; i <= GUARD; ++i)
                if (*(b - i) != 0x5A)
                {
                    s.fail("wrote-outside-storage",
                           fmt("byte %zu before the allocator's storage was overwritten with 0x%02X", i, *(b - i)));
                    return;
                }
        }
        virtual int depth(bool thorough)
        {
            return thorough ? 9 : 6;
        }
    };

    template <class Obj>
    struct holder
    {
        alignas(64) char raw[sizeof(Obj)];
        Obj* a = nullptr;
        void kill()
        {
            if (a)
                a->~Obj();
            a = nullptr;
        }
    };

    //--- memory_pool<node_pool | array_pool | small_node_pool>
    template <class P>
    struct pool_sys : sys
    {
        using obj = fm::memory_pool<P, fm::static_block_allocator>;
        holder<obj> h;
        std::size_t ns, bs, link;
        const char* nm;
        pool_sys(const char* n, std::size_t node, std::size_t block, std::size_t l) : ns(node), bs(block), link(l), nm(n) {}
        const char* name() override
        {
            return nm;
        }
        u8* store() override
        {
            return reinterpret_cast<u8*>(&g_store);
        }
        std::size_t store_size() override
        {
            return STORE;
        }
        int nops() override
        {
            return 6;
        }
        std::string opname(int op) override
        {
            static const char* n[] = {"allocate_node", "allocate_array(2)", "allocate_array(3)", "deallocate(live[0])",
                                      "deallocate(live[1])", "deallocate(live[2])"};
            if (op == 1 && !P::value)
                return "traits::allocate_node(node_size/2)";
            return n[op];
        }
        void construct() override
        {
            h.a = ::new (h.raw) obj(ns, bs, g_store);
        }
        void destroy() override
        {
            h.kill();
        }
        void abandon() override
        {
            h.a = nullptr;
        }
        int apply(int op, shadow& s) override
        {
            using T          = fm::allocator_traits<obj>;
            std::size_t node = h.a->node_size();
            if (op <= 2)
            {
                if (op == 2 && !P::value)
                    return 0;
                const bool  small_req = op == 1 && !P::value; // pools without arrays: a smaller node through the traits
                std::size_t cnt = op == 0 || small_req ? 1 : std::size_t(op + 1);
                std::size_t req = small_req ? (node > 1 ? node / 2 : 1) : cnt * node;
                void*       p   = nullptr;
                try
                {
                    p = op == 0 ? h.a->allocate_node() : (small_req ? T::allocate_node(*h.a, req, 1) : h.a->allocate_array(cnt));
                }
                catch (std::exception&)
                {
                }
                if (!p)
                {
                    ++s.alloc_failed;
                    return 1;
                }
                s.on_alloc(p, req, small_req ? 3 : op, cnt, node, 0, cnt * node);
                return 1;
            }
            std::size_t k = std::size_t(op - 3);
            if (k >= s.lives.size())
                return 0;
            live l = s.lives[k];
            s.lives.erase(s.lives.begin() + long(k));
            if (l.what == 0)
                h.a->deallocate_node(l.p);
            else if (l.what == 3)
                T::deallocate_node(*h.a, l.p, l.n, 1);
            else
                h.a->deallocate_array(l.p, l.count);
            s.on_free(l.p, l.n, node, link);
            return 1;
        }
    };

    //--- memory_pool_collection
    template <class P, class B>
    struct coll_sys : sys
    {
        using obj = fm::memory_pool_collection<P, B, fm::static_block_allocator>;
        holder<obj> h;
        std::size_t maxn, bs, sz[2], link;
        const char* nm;
        coll_sys(const char* n, std::size_t maxnode, std::size_t block, std::size_t s0, std::size_t s1, std::size_t l)
        : maxn(maxnode), bs(block), link(l), nm(n)
        {
            sz[0] = s0;
            sz[1] = s1;
        }
        const char* name() override
        {
            return nm;
        }
        u8* store() override
        {
            return reinterpret_cast<u8*>(&g_big_store);
        }
        std::size_t store_size() override
        {
            return 4096;
        }
        int nops() override
        {
            return 6;
        }
        std::string opname(int op) override
        {
            switch (op)
            {
            case 0:
                return fmt("allocate_node(%zu)", sz[0]);
            case 1:
                return fmt("allocate_node(%zu)", sz[1]);
            case 2:
                return fmt("allocate_array(2,%zu)", sz[0]);
            }
            return fmt("deallocate(live[%d])", op - 3);
        }
        void construct() override
        {
            h.a = ::new (h.raw) obj(maxn, bs, g_big_store);
        }
        void destroy() override
        {
            h.kill();
        }
        void abandon() override
        {
            h.a = nullptr;
        }
        int apply(int op, shadow& s) override
        {
            if (op <= 2)
            {
                if (op == 2 && !P::value)
                    return 0;
                std::size_t e = sz[op == 1 ? 1 : 0], cnt = op == 2 ? 2 : 1;
                void*       p = nullptr;
                try
                {
                    p = op == 2 ? h.a->allocate_array(cnt, e) : h.a->allocate_node(e);
                }
                catch (std::exception&)
                {
                }
                if (!p)
                {
                    ++s.alloc_failed;
                    return 1;
                }
                std::size_t stride = h.a->pools_.get(e).node_size();
                s.on_alloc(p, cnt * e, op, cnt, e, 0, (cnt * e + stride - 1) / stride * stride);
                return 1;
            }
            std::size_t k = std::size_t(op - 3);
            if (k >= s.lives.size())
                return 0;
            live l = s.lives[k];
            s.lives.erase(s.lives.begin() + long(k));
            std::size_t stride = h.a->pools_.get(l.esize).node_size();
            if (l.what == 2)
                h.a->deallocate_array(l.p, l.count, l.esize);
            else
                h.a->deallocate_node(l.p, l.esize);
            s.on_free(l.p, l.n, stride, link);
            return 1;
        }
    };

    //--- memory_stack
    struct stack_sys : sys
    {
        using obj = fm::memory_stack<fm::static_block_allocator>;
        holder<obj>                                    h;
        std::vector<std::pair<obj::marker, std::size_t>> marks;
        const char* name() override
        {
            return "memory_stack";
        }
        u8* store() override
        {
            return reinterpret_cast<u8*>(&g_store);
        }
        std::size_t store_size() override
        {
            return STORE;
        }
        int nops() override
        {
            return 5;
        }
        std::string opname(int op) override
        {
            static const char* n[] = {"allocate(5,1)", "allocate(24,8)", "allocate(40,16)", "top() -> marker", "unwind(last marker)"};
            return n[op];
        }
        void construct() override
        {
            marks.clear();
            h.a = ::new (h.raw) obj(std::size_t(128), g_store);
        }
        void destroy() override
        {
            marks.clear();
            h.kill();
        }
        void abandon() override
        {
            h.a = nullptr;
        }
        int apply(int op, shadow& s) override
        {
            static const std::size_t sz[] = {5, 24, 40}, al[] = {1, 8, 16};
            if (op <= 2)
            {
                void* p = nullptr;
                try
                {
                    p = h.a->allocate(sz[op], al[op]);
                }
                catch (std::exception&)
                {
                }
                if (!p)
                {
                    ++s.alloc_failed;
                    return 1;
                }
                s.on_alloc(p, sz[op], op, 1, sz[op]);
                return 1;
            }
            if (op == 3)
            {
                if (marks.size() >= 2)
                    return 0;
                marks.push_back({h.a->top(), s.lives.size()});
                return 1;
            }
            if (marks.empty())
                return 0;
            auto m = marks.back();
            marks.pop_back();
            h.a->unwind(m.first);
            while (s.lives.size() > m.second)
            {
                s.discard(s.lives.back().p, s.lives.back().n);
                s.lives.pop_back();
            }
            return 1;
        }
    };

    //--- iteration_allocator<2>
    struct iter_sys : sys
    {
        using obj = fm::iteration_allocator<2, fm::static_block_allocator>;
        holder<obj> h;
        const char* name() override
        {
            return "iteration_allocator";
        }
        u8* store() override
        {
            return reinterpret_cast<u8*>(&g_store);
        }
        std::size_t store_size() override
        {
            return STORE;
        }
        int nops() override
        {
            return 4;
        }
        std::string opname(int op) override
        {
            static const char* n[] = {"allocate(5,1)", "allocate(24,8)", "allocate(40,16)", "next_iteration"};
            return n[op];
        }
        void construct() override
        {
            h.a = ::new (h.raw) obj(std::size_t(384), g_store);
        }
        void destroy() override
        {
            h.kill();
        }
        void abandon() override
        {
            h.a = nullptr;
        }
        int apply(int op, shadow& s) override
        {
            static const std::size_t sz[] = {5, 24, 40}, al[] = {1, 8, 16};
            if (op <= 2)
            {
                void* p = nullptr;
                try
                {
                    p = h.a->allocate(sz[op], al[op]);
                }
                catch (std::exception&)
                {
                }
                if (!p)
                {
                    ++s.alloc_failed;
                    return 1;
                }
                s.on_alloc(p, sz[op], op, 1, sz[op], int(h.a->cur_iteration()));
                return 1;
            }
            h.a->next_iteration();
            int cur = int(h.a->cur_iteration());
            for (std::size_t i = 0; i < s.lives.size();)
                if (s.lives[i].iter == cur)
                {
                    s.discard(s.lives[i].p, s.lives[i].n);
                    s.lives.erase(s.lives.begin() + long(i));
                }
                else
                    ++i;
            return 1;
        }
    };

    //--- static_allocator
    struct static_sys : sys
    {
        using obj = fm::static_allocator;
        holder<obj> h;
        const char* name() override
        {
            return "static_allocator";
        }
        u8* store() override
        {
            return reinterpret_cast<u8*>(&g_small_store);
        }
        std::size_t store_size() override
        {
            return 192;
        }
        int nops() override
        {
            return 5;
        }
        std::string opname(int op) override
        {
            static const char* n[] = {"allocate_node(5,1)", "allocate_node(24,8)", "allocate_node(40,16)", "deallocate_node(live[0])",
                                      "deallocate_node(live[last])"};
            return n[op];
        }
        void construct() override
        {
            h.a = ::new (h.raw) obj(g_small_store);
        }
        void destroy() override
        {
            h.kill();
        }
        void abandon() override
        {
            h.a = nullptr;
        }
        int apply(int op, shadow& s) override
        {
            static const std::size_t sz[] = {5, 24, 40}, al[] = {1, 8, 16};
            using T = fm::allocator_traits<obj>;
            if (op <= 2)
            {
                void* p = nullptr;
                try
                {
                    p = T::allocate_node(*h.a, sz[op], al[op]);
                }
                catch (std::exception&)
                {
                }
                if (!p)
                {
                    ++s.alloc_failed;
                    return 1;
                }
                s.on_alloc(p, sz[op], op, 1, sz[op]);
                return 1;
            }
            if (s.lives.empty() || (op == 4 && s.lives.size() < 2))
                return 0;
            std::size_t k = op == 3 ? 0 : s.lives.size() - 1;
            live        l = s.lives[k];
            s.lives.erase(s.lives.begin() + long(k));
            T::deallocate_node(*h.a, l.p, l.n, al[l.what]);
            s.discard(l.p, l.n); // no pool: nothing is promised about released memory
            return 1;
        }
    };


    //--- nearly exhausted stacks: first operation leaves exactly k bytes, then small requests (sizes 1..3, alignments 1, 8, 16)
    struct edge_sys : sys
    {
        bool        prefilled = false;
        std::size_t K() const
        {
            return 2 * FENCE_CFG + 18;
        }
        virtual int         paths()                                             = 0; // request interfaces
        virtual const char* path_name(int)                                      = 0;
        virtual std::size_t remaining()                                         = 0;
        virtual void*       request(int path, std::size_t sz, std::size_t al)   = 0; // nullptr = refused
        virtual void*       fill(std::size_t sz)                                = 0; // alignment 1, must succeed
        virtual int         cur_iter()
        {
            return 0;
        }
        int nops() override
        {
            return int(K()) + 9 * paths();
        }
        std::string opname(int op) override
        {
            if (op < int(K()))
                return fmt("fill up, leave %d bytes", op);
            int r = op - int(K());
            static const std::size_t al[] = {1, 8, 16};
            return fmt("%s(%d,%zu)", path_name(r / 9), r % 9 / 3 + 1, al[r % 3]);
        }
        int depth(bool thorough) override
        {
            return thorough ? 4 : 3;
        }
        int apply(int op, shadow& s) override
        {
            if (op < int(K()))
            {
                if (prefilled)
                    return 0;
                std::size_t rem = remaining(), k = std::size_t(op);
                if (rem < k + 2 * FENCE_CFG + 1)
                    return 0;
                std::size_t sz = rem - k - 2 * FENCE_CFG;
                void*       p  = nullptr;
                try
                {
                    p = fill(sz);
                }
                catch (std::exception&)
                {
                }
                prefilled = true;
                if (!p)
                {
                    ++s.alloc_failed;
                    return 1;
                }
                s.on_alloc(p, sz, 0, 1, sz, cur_iter());
                return 1;
            }
            int                      r    = op - int(K());
            static const std::size_t al[] = {1, 8, 16};
            std::size_t              sz   = std::size_t(r % 9 / 3 + 1);
            void*                    p    = nullptr;
            try
            {
                p = request(r / 9, sz, al[r % 3]);
            }
            catch (std::exception&)
            {
            }
            if (!p)
            {
                ++s.alloc_failed;
                return 1;
            }
            s.on_alloc(p, sz, 1, 1, sz, cur_iter());
            return 1;
        }
    };

    struct static_edge_sys : edge_sys
    {
        using obj = fm::static_allocator;
        holder<obj> h;
        const char* name() override
        {
            return "static_allocator (nearly full)";
        }
        u8* store() override
        {
            return reinterpret_cast<u8*>(&g_small_store);
        }
        std::size_t store_size() override
        {
            return 192;
        }
        int paths() override
        {
            return 1;
        }
        const char* path_name(int) override
        {
            return "allocate_node";
        }
        void construct() override
        {
            prefilled = false;
            h.a       = ::new (h.raw) obj(g_small_store);
        }
        void destroy() override
        {
            h.kill();
        }
        void abandon() override
        {
            h.a = nullptr;
        }
        std::size_t remaining() override
        {
            return h.a->max_node_size();
        }
        void* request(int, std::size_t sz, std::size_t al) override
        {
            return fm::allocator_traits<obj>::allocate_node(*h.a, sz, al);
        }
        void* fill(std::size_t sz) override
        {
            return fm::allocator_traits<obj>::allocate_node(*h.a, sz, 1);
        }
    };

    template <class Upstream>
    struct stack_edge_sys : edge_sys
    {
        using obj = fm::memory_stack<Upstream>;
        holder<obj> h;
        static constexpr bool is_vm = std::is_same<Upstream, fm::virtual_memory_allocator>::value;
        const char* name() override
        {
            return is_vm ? "memory_stack<virtual_memory_allocator> (nearly full)" : "memory_stack (nearly full)";
        }
        u8* store() override
        {
            return is_vm ? static_cast<u8*>(h.a->arena_.current_block().memory) : reinterpret_cast<u8*>(&g_block_store);
        }
        std::size_t store_size() override
        {
            return is_vm ? h.a->arena_.current_block().size : 128;
        }
        void prepare() override
        {
            if (!is_vm)
                edge_sys::prepare();
        }
        void check_outside(shadow& s) override
        {
            // over the low-level allocator the bytes behind the block are its fence: the library's own check on release
            // (counting buffer overflow handler) is the observer
            if (!is_vm)
                edge_sys::check_outside(s);
        }
        int paths() override
        {
            return is_vm ? 1 : 2; // over virtual memory only the non-growing interface (one block = the shadow map)
        }
        const char* path_name(int p) override
        {
            return p == 0 ? "try_allocate" : "allocate";
        }
        void construct() override
        {
            prefilled = false;
            construct_impl(std::integral_constant<bool, is_vm>());
        }
        void construct_impl(std::true_type)
        {
            h.a = ::new (h.raw) obj(std::size_t(256));
        }
        void construct_impl(std::false_type)
        {
            h.a = ::new (h.raw) obj(std::size_t(128), g_block_store); // a second block does not exist: allocate() throws
        }
        void destroy() override
        {
            h.kill();
        }
        void abandon() override
        {
            h.a = nullptr;
        }
        std::size_t remaining() override
        {
            return h.a->capacity_left();
        }
        void* request(int path, std::size_t sz, std::size_t al) override
        {
            return path == 0 ? h.a->try_allocate(sz, al) : h.a->allocate(sz, al);
        }
        void* fill(std::size_t sz) override
        {
            return h.a->allocate(sz, 1);
        }
    };

    struct iter_edge_sys : edge_sys
    {
        using obj = fm::iteration_allocator<2, fm::static_block_allocator>;
        holder<obj> h;
        const char* name() override
        {
            return "iteration_allocator (nearly full, other iteration live)";
        }
        u8* store() override
        {
            return reinterpret_cast<u8*>(&g_store);
        }
        std::size_t store_size() override
        {
            return STORE;
        }
        int paths() override
        {
            return 2;
        }
        const char* path_name(int p) override
        {
            return p == 0 ? "try_allocate" : "allocate";
        }
        void construct() override
        {
            prefilled = false;
            h.a       = ::new (h.raw) obj(std::size_t(384), g_store);
        }
        // the second half of the block holds a live allocation, the walk then fills the first half
        void setup(shadow& s) override
        {
            h.a->next_iteration();
            void* p = h.a->allocate(24, 8);
            s.on_alloc(p, 24, 0, 1, 24, 1);
            h.a->next_iteration();
        }
        void destroy() override
        {
            h.kill();
        }
        void abandon() override
        {
            h.a = nullptr;
        }
        int cur_iter() override
        {
            return int(h.a->cur_iteration());
        }
        std::size_t remaining() override
        {
            return h.a->capacity_left();
        }
        void* request(int path, std::size_t sz, std::size_t al) override
        {
            return path == 0 ? h.a->try_allocate(sz, al) : h.a->allocate(sz, al);
        }
        void* fill(std::size_t sz) override
        {
            return h.a->allocate(sz, 1);
        }
    };

    static sys* make(const std::string& kind)
    {
        const std::size_t L = sizeof(void*);
        if (kind == "pool_node")
            return new pool_sys<fm::node_pool>("memory_pool<node_pool>", 16, 96, L);
        if (kind == "pool_array")
            return new pool_sys<fm::array_pool>("memory_pool<array_pool>", 24, 128, L);
        if (kind == "pool_small")
            return new pool_sys<fm::small_node_pool>("memory_pool<small_node_pool>", 4, 64, 1);
        if (kind == "stack")
            return new stack_sys;
        if (kind == "iteration")
            return new iter_sys;
        if (kind == "static")
            return new static_sys;
        if (kind == "static_edge")
            return new static_edge_sys;
        if (kind == "stack_edge")
            return new stack_edge_sys<fm::static_block_allocator>;
        if (kind == "stack_vm_edge")
            return new stack_edge_sys<fm::virtual_memory_allocator>;
        if (kind == "iter_edge")
            return new iter_edge_sys;
        if (kind == "coll_node_id")
            return new coll_sys<fm::node_pool, fm::identity_buckets>("memory_pool_collection<node_pool,identity>", 24, 1024, 16, 24, L);
        if (kind == "coll_array_log2")
            return new coll_sys<fm::array_pool, fm::log2_buckets>("memory_pool_collection<array_pool,log2>", 32, 1024, 16, 24, L);
        if (kind == "coll_small_id")
            return new coll_sys<fm::small_node_pool, fm::identity_buckets>("memory_pool_collection<small_node_pool,identity>", 8, 1024, 3,
                                                                          8, 1);
        if (kind == "coll_node_log2")
            return new coll_sys<fm::node_pool, fm::log2_buckets>("memory_pool_collection<node_pool,log2>", 64, 1024, 9, 40, L);
        return nullptr;
    }

    struct walker
    {
        sys*                    s = nullptr;
        shadow                  sh;
        int                     depth = 5;
        std::vector<int>        seq;
        long long               replays = 0, aborted = 0;
        std::string             kind;

        // replays seq from scratch on a fresh allocator; 0 = last op not applicable, 1 = evaluated, -1 = contained failure
        int replay(bool verbose, int* outcome)
        {
            s->prepare();
            sh.reset(nullptr, 0);
            g_nrep          = 0;
            volatile int rc = 1;
            int          o;
            ++replays;
            VERIF_GUARDED(o, {
                s->construct();
                sh.reset(s->store(), s->store_size());
                s->setup(sh);
                for (std::size_t i = 0; i < seq.size(); ++i)
                {
                    sh.report = i + 1 == seq.size();
                    if (sh.report)
                        sh.clear_verdicts(); // violations of a prefix were judged when the prefix was the whole sequence
                    int r = s->apply(seq[i], sh);
                    if (verbose)
                        std::printf("  %zu: %-28s %s  (live %zu)\n", i, s->opname(seq[i]).c_str(), r ? "" : "[not applicable]",
                                    sh.lives.size());
                    if (!r)
                    {
                        rc = 0;
                        break;
                    }
                }
                if (rc)
                {
                    sh.check_all();
                    s->check_outside(sh);
                }
                s->destroy();
            });
            *outcome = o;
            if (o != OUT_OK)
            {
                s->abandon();
                return -1;
            }
            // the harness wrote only into memory it was given: the library's fence check must stay silent
            if (rc && g_nrep != 0)
                sh.fail("spurious-report",
                        fmt("%d buffer overflow report(s) (first: block of %zu bytes, write_ptr block%+ld) although the harness only wrote "
                            "inside its allocations",
                            g_nrep, g_rep[0].size, long(static_cast<const u8*>(g_rep[0].ptr) - static_cast<const u8*>(g_rep[0].mem))));
            return rc;
        }

        void account()
        {
            R.extra["allocations"] += sh.allocs;
            R.extra["allocations_failed"] += sh.alloc_failed;
            R.extra["releases_to_pool"] += sh.frees;
            R.extra["discards"] += sh.discards;
            R.extra["new_bytes_checked"] += sh.new_bytes;
            R.extra["freed_bytes_checked"] += sh.freed_bytes;
            R.extra["live_bytes_checked"] += sh.live_bytes;
        }

        // breadth first over sequence length, so that the first violation reported is a shortest one
        void walk()
        {
            std::vector<std::vector<int>> frontier{std::vector<int>()}, next;
            for (int d = 1; d <= depth && !frontier.empty(); ++d)
            {
                next.clear();
                for (auto& prefix : frontier)
                    for (int op = 0; op < s->nops(); ++op)
                    {
                        seq = prefix;
                        seq.push_back(op);
                        if (step() && d < depth)
                            next.push_back(seq);
                    }
                frontier.swap(next);
            }
            seq.clear();
        }

        // evaluates seq; true if it is applicable and can be extended
        bool step()
        {
            int out;
            int r = replay(false, &out);
            if (r == 0)
            {
                ++R.excluded;
                return false;
            }
            if (r < 0)
            {
                ++aborted;
                R.herror(std::string(s->name()) + ": " + outcome_name(out) + " during valid sequence " + seq_str());
                return false;
            }
            ++R.evaluations;
            account();
            R.classes.insert(sh.state_key());
            if (sh.v.bad())
            {
                std::vector<verdict> first = sh.all;
                int                  out2;
                int                  r2 = replay(false, &out2); // re-check once
                for (auto& v1 : first)
                {
                    bool again = false;
                    for (auto& v2 : sh.all)
                        again = again || std::string(v2.tag) == v1.tag;
                    if (r2 == 1 && again)
                    {
                        if (v1.harness_problem)
                            R.herror(std::string(v1.tag) + ": " + v1.detail + " sequence " + seq_str());
                        else
                            R.violation(v1.tag, std::string(s->name()) + " after [" + names() + "]: " + v1.detail, seq_str());
                    }
                    else
                        R.herror(std::string("verdict ") + v1.tag + " not reproducible for sequence " + seq_str());
                }
                return false; // everything behind a violating state would repeat it
            }
            if (R.samples.size() < 4 && int(seq.size()) == depth && R.evaluations % 97 == 1)
                R.samples.push_back("\"" + json_escape(names()) + "\"");
            return true;
        }
        std::string seq_str() const
        {
            jarr a;
            for (int x : seq)
                a.raw(std::to_string(x));
            return a.done();
        }
        std::string names() const
        {
            std::string r;
            for (std::size_t i = 0; i < seq.size(); ++i)
                r += (i ? "; " : "") + s->opname(seq[i]);
            return r;
        }
    };
} // namespace arena

static int arena_main(const std::string& kind, bool thorough, const char* replay)
{
    install_handlers();
    install_guards(2000);
    arena::walker w;
    w.kind = kind;
    w.s    = arena::make(kind);
    if (!w.s)
    {
        std::printf("unknown --kind %s\n", kind.c_str());
        return 2;
    }
    if (replay)
    {
        for (auto x : parse_ints(replay))
            w.seq.push_back(int(x));
        for (int x : w.seq)
            if (x < 0 || x >= w.s->nops())
            {
                std::printf("bad op %d\n", x);
                return 2;
            }
        std::printf("replay %s (fill %d, fence %zu): %s\n", w.s->name(), int(FILL), FENCE_CFG, w.names().c_str());
        int out;
        int r = w.replay(true, &out);
        if (r < 0)
        {
            std::printf("  %s inside the library\n=> violates\n", outcome_name(out));
            return 1;
        }
        if (r == 0)
        {
            std::printf("  sequence not applicable\n");
            return 2;
        }
        if (w.sh.v.bad())
        {
            for (auto& x : w.sh.all)
                std::printf("  VIOLATION [%s] %s\n", x.tag, x.detail.c_str());
            std::printf("=> violates\n");
            return 1;
        }
        std::printf("  new bytes checked %lld, freed bytes checked %lld, live bytes checked %lld\n=> ok\n", w.sh.new_bytes,
                    w.sh.freed_bytes, w.sh.live_bytes);
        return 0;
    }
    w.depth = w.s->depth(thorough);
    w.walk();
    R.extra["depth"]            = w.depth;
    R.extra["alphabet"]         = w.s->nops();
    R.extra["replays"]          = w.replays;
    R.extra["contained_aborts"] = w.aborted;
    R.rule = "all sequences of the allocator's operation alphabet (2-3 allocation shapes, release of the k-th live allocation / "
             "unwind / next_iteration) up to the stated depth, each replayed from scratch on a fresh allocator in static storage; "
             "sequences whose last operation is not applicable are excluded; a case class is the shadow map (which bytes are "
             "live / released / don't care) the sequence ends in";
    return 0;
}

//=== main ==================================================================================================
int main(int argc, char** argv)
{
    std::string mode = "low", alloc = "heap", kind = "stack", tier = "quick", out;
    const char* replay = nullptr;
    int         si = 0, sn = 1;
    bool        lite = false; // enumerate the quick domain whatever the tier
    for (int i = 1; i < argc; ++i)
    {
        std::string a = argv[i];
        auto        next = [&]() -> const char* { return i + 1 < argc ? argv[++i] : ""; };
        if (a == "--mode")
            mode = next();
        else if (a == "--alloc")
            alloc = next();
        else if (a == "--kind")
            kind = next();
        else if (a == "--tier")
            tier = next();
        else if (a == "--out")
            out = next();
        else if (a == "--replay")
            replay = next();
        else if (a == "--lite")
            lite = true;
        else if (a == "--shard")
            std::sscanf(next(), "%d/%d", &si, &sn);
        else
        {
            std::fprintf(stderr, "unknown argument %s\n", a.c_str());
            return 2;
        }
    }
    if (sn < 1 || si < 0 || si >= sn)
        return 2;
    const bool thorough = tier == "thorough" && !lite;
    double     t0       = now_s();
    int        rc       = 2;
    if (mode == "low")
    {
        if (alloc == "heap")
            rc = low_main<fm::heap_allocator>(thorough, si, sn, replay);
        else if (alloc == "malloc")
            rc = low_main<fm::malloc_allocator>(thorough, si, sn, replay);
        else if (alloc == "new")
            rc = low_main<fm::new_allocator>(thorough, si, sn, replay);
        else if (alloc == "virtual")
            rc = low_main<fm::virtual_memory_allocator>(thorough, si, sn, replay);
    }
    else if (mode == "arena")
        rc = arena_main(kind, thorough, replay);
    if (replay || rc != 0)
        return rc;

    jarr samples, viols, herr;
    for (auto& s : R.samples)
        samples.raw(s);
    for (auto& v : R.viols)
        viols.raw(jobj().str("tag", v.tag).str("detail", v.detail).raw("input", v.input).done());
    for (auto& e : R.herr)
        herr.str(e);
    jobj extra;
    for (auto& kv : R.extra)
        extra.num(kv.first, kv.second);
    for (auto& kv : R.viol_count)
        extra.num("violations_" + kv.first, kv.second);
    extra.num("fill", FILL ? 1 : 0).num("fence_configured", (long long)FENCE_CFG);
    jobj o;
    o.num("evaluations", R.evaluations)
        .num("distinct_nontrivial", (long long)R.classes.size())
        .str("rule", R.rule)
        .raw("samples", samples.done())
        .boolean("exhaustive", R.exhaustive)
        .num("excluded", R.excluded)
        .dbl("wall_s", now_s() - t0)
        .raw("violations", viols.done())
        .raw("harness_errors", herr.done())
        .raw("extra", extra.done());
    std::string js = o.done();
    if (out.empty())
        std::printf("%s\n", js.c_str());
    else
    {
        FILE* f = std::fopen(out.c_str(), "w");
        if (!f)
            return 2;
        std::fputs(js.c_str(), f);
        std::fputc('\n', f);
        std::fclose(f);
    }
    return 0;
}
