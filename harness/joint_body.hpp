// C11: joint allocations stay inside the object's single block and it is freed whole.
//
// Exhaustive enumeration on the real joint_ptr / joint_allocator / joint_array code:
//   * joint types generated from member layouts x element (size,alignment) pairs,
//   * objects (element counts, additional size around the exact fit),
//   * operation sequences over two joint_ptr slots bound to two distinct instrumented upstreams.
// The oracle is a boring reference model (aligned bump fit + ownership table) compared with what the
// instrumented upstream allocators and the instrumented element type observe.
//
// This file is the whole harness; it is compiled through h_joint.cpp (all 675 joint types in one TU) and through
// h_joint_p0..p3.cpp (a quarter of the types each, so that the compile time is spread over cores).
//
//   h_joint [--part k --of N] [--depth d] --tier quick|thorough --out file
//   h_joint --replay '{"type":"L1/s1a1/s8a8","n1":1,"n2":1,"add":9,"ops":[0,13]}'
#ifndef VERIF_JOINT_PARTS
#define VERIF_JOINT_PARTS 1
#define VERIF_JOINT_PART 0
#endif
#include "../engine/core.hpp"

#include <cstddef>
#include <new>
#include <type_traits>
#include <utility>
#include <vector>

#include <foonathan/memory/joint_allocator.hpp>
#include <foonathan/memory/std_allocator.hpp>

namespace fm = foonathan::memory;
using namespace verif;

namespace
{
    //=== first failure of the current sequence ===//
    struct failure
    {
        bool set;
        bool harness; // true: divergence of the reference model / harness resource, not a property violation
        char tag[48];
        char detail[512];
    };
    failure g_fail;

    void fail(const char* tag, const char* f, ...)
    {
        if (g_fail.set)
            return;
        g_fail.set     = true;
        g_fail.harness = false;
        std::snprintf(g_fail.tag, sizeof g_fail.tag, "%s", tag);
        va_list ap;
        va_start(ap, f);
        std::vsnprintf(g_fail.detail, sizeof g_fail.detail, f, ap);
        va_end(ap);
    }
    void harness_fail(const char* tag, const char* f, ...)
    {
        if (g_fail.set)
            return;
        g_fail.set     = true;
        g_fail.harness = true;
        std::snprintf(g_fail.tag, sizeof g_fail.tag, "%s", tag);
        va_list ap;
        va_start(ap, f);
        std::vsnprintf(g_fail.detail, sizeof g_fail.detail, f, ap);
        va_end(ap);
    }

    //=== instrumented upstream allocators ===//
    constexpr std::size_t GUARD  = 32;
    constexpr std::size_t ARENA  = 8192;
    constexpr int         MAXBLK = 24;
    constexpr u8          G_PRE = 0xA7, G_POST = 0xB9, F_NEW = 0xC3, F_FREED = 0xD5;

    alignas(64) u8 g_arena[2][ARENA];
    u8 g_livemap[2][ARENA]; // 0 free, 2 first byte of a live element, 1 other byte of a live element
    long        g_live_in_arena = 0; // elements alive inside the arenas
    long        g_live_outside  = 0; // harness temporaries (value passed to joint_array(size, val, j))
    long        g_elem_ctor = 0, g_elem_dtor = 0;
    std::size_t g_sizeofT = 0; // sizeof of the joint type of the running case

    struct block
    {
        u8*         addr;
        std::size_t size, align, hdr;
        bool        live;
    };

    struct upstream
    {
        using is_stateful = std::true_type;

        int         id;
        std::size_t residue; // blocks start at an address == residue (mod 16) when the requested alignment allows it
        std::size_t top;
        block       blk[MAXBLK];
        int         nblk;
        long        n_alloc, n_dealloc;

        u8* base() const
        {
            return g_arena[id];
        }

        void reset(int i, std::size_t res)
        {
            id      = i;
            residue = res;
            top     = 0;
            nblk    = 0;
            n_alloc = n_dealloc = 0;
        }

        // placement is a pure function of the history: bump, never reused inside one sequence
        u8* peek(std::size_t alignment) const
        {
            std::size_t a   = alignment > 16 ? alignment : 16;
            auto        p   = reinterpret_cast<std::uintptr_t>(base()) + top + GUARD;
            p               = (p + a - 1) / a * a;
            std::size_t res = residue % 16;
            if (alignment != 0 && res % alignment == 0)
                p += res;
            return reinterpret_cast<u8*>(p);
        }

        void* allocate_node(std::size_t size, std::size_t alignment)
        {
            u8* p = peek(alignment);
            if (nblk == MAXBLK || p + size + GUARD > base() + ARENA)
            {
                harness_fail("arena-exhausted", "upstream %c cannot serve %zu bytes", 'A' + id, size);
                throw std::bad_alloc();
            }
            std::memset(p - GUARD, G_PRE, GUARD);
            std::memset(p, F_NEW, size);
            std::memset(p + size, G_POST, GUARD);
            top         = std::size_t(p + size + GUARD - base());
            blk[nblk++] = block{p, size, alignment, g_sizeofT, true};
            ++n_alloc;
            return p;
        }

        int find(const void* p) const
        {
            for (int i = 0; i != nblk; ++i)
                if (blk[i].addr == p)
                    return i;
            return -1;
        }

        bool guards_ok(const block& b, long* where) const
        {
            static const u8 pre[GUARD]  = {G_PRE, G_PRE, G_PRE, G_PRE, G_PRE, G_PRE, G_PRE, G_PRE, G_PRE, G_PRE, G_PRE,
                                           G_PRE, G_PRE, G_PRE, G_PRE, G_PRE, G_PRE, G_PRE, G_PRE, G_PRE, G_PRE, G_PRE,
                                           G_PRE, G_PRE, G_PRE, G_PRE, G_PRE, G_PRE, G_PRE, G_PRE, G_PRE, G_PRE};
            static const u8 post[GUARD] = {G_POST, G_POST, G_POST, G_POST, G_POST, G_POST, G_POST, G_POST,
                                           G_POST, G_POST, G_POST, G_POST, G_POST, G_POST, G_POST, G_POST,
                                           G_POST, G_POST, G_POST, G_POST, G_POST, G_POST, G_POST, G_POST,
                                           G_POST, G_POST, G_POST, G_POST, G_POST, G_POST, G_POST, G_POST};
            if (std::memcmp(b.addr - GUARD, pre, GUARD) == 0 && std::memcmp(b.addr + b.size, post, GUARD) == 0)
                return true;
            for (std::size_t i = 0; i != GUARD; ++i)
            {
                if (b.addr[b.size + i] != G_POST)
                {
                    *where = long(b.size + i);
                    return false;
                }
                if (b.addr[-long(i) - 1] != G_PRE)
                {
                    *where = -long(i) - 1;
                    return false;
                }
            }
            return false;
        }

        void deallocate_node(void* p, std::size_t size, std::size_t alignment) noexcept;

        bool contains(const void* p) const
        {
            auto c = static_cast<const u8*>(p);
            return c >= base() && c < base() + ARENA;
        }
    };

    upstream g_up[2];

    void upstream::deallocate_node(void* p, std::size_t size, std::size_t alignment) noexcept
    {
        ++n_dealloc;
        int i = find(p);
        if (i < 0)
        {
            int j = g_up[1 - id].find(p);
            if (j >= 0)
                fail("release-wrong-upstream",
                     "block #%d of upstream %c (size %zu) was released to upstream %c (size %zu alignment %zu)", j,
                     'A' + (1 - id), g_up[1 - id].blk[j].size, 'A' + id, size, alignment);
            else
                fail("release-unknown-pointer", "upstream %c: release of %p (size %zu) which is not the start of a block",
                     'A' + id, p, size);
            return;
        }
        block& b = blk[i];
        if (!b.live)
        {
            fail("release-twice", "upstream %c: block #%d (size %zu) released a second time", 'A' + id, i, b.size);
            return;
        }
        if (size != b.size)
            fail("release-size", "upstream %c: block #%d allocated with size %zu (object %zu + %zu) released with size %zu",
                 'A' + id, i, b.size, b.hdr, b.size - b.hdr, size);
        if (alignment != b.align)
            fail("release-alignment", "upstream %c: block #%d allocated with alignment %zu released with alignment %zu",
                 'A' + id, i, b.align, alignment);
        long w;
        if (!guards_ok(b, &w))
            fail("guard-damaged", "upstream %c: byte at offset %ld of block #%d (size %zu) was overwritten", 'A' + id, w, i,
                 b.size);
        std::size_t off = std::size_t(b.addr - base());
        for (std::size_t k = 0; k != b.size; ++k)
            if (g_livemap[id][off + k])
            {
                fail("released-with-live-element",
                     "upstream %c: block #%d released while an element at offset %zu was never destroyed", 'A' + id, i, k);
                break;
            }
        b.live = false;
        std::memset(b.addr, F_FREED, b.size);
    }

    //=== instrumented element type ===//
    constexpr u8 DEFCODE = 0x5A;

    inline u8 pat(u8 code, std::size_t k)
    {
        return u8(code ^ u8(k * 0x1D));
    }

    void elem_reg(const void* p, std::size_t S, std::size_t A)
    {
        ++g_elem_ctor;
        for (int u = 0; u != 2; ++u)
            if (g_up[u].contains(p))
            {
                auto        c   = static_cast<const u8*>(p);
                std::size_t off = std::size_t(c - g_up[u].base());
                bool        in  = false;
                for (int i = 0; i != g_up[u].nblk; ++i)
                {
                    const block& b = g_up[u].blk[i];
                    if (b.live && c >= b.addr + b.hdr && c + S <= b.addr + b.size)
                        in = true;
                }
                if (!in)
                {
                    // describe relative to the nearest block start below
                    int best = -1;
                    for (int i = 0; i != g_up[u].nblk; ++i)
                        if (g_up[u].blk[i].addr <= c)
                            best = i;
                    if (best >= 0)
                        fail("element-outside-block",
                             "an element of size %zu was constructed at offset [%ld,%ld) of block #%d of upstream %c whose "
                             "joint memory is [%zu,%zu)%s",
                             S, long(c - g_up[u].blk[best].addr), long(c - g_up[u].blk[best].addr + S), best, 'A' + u,
                             g_up[u].blk[best].hdr, g_up[u].blk[best].size, g_up[u].blk[best].live ? "" : " (block already released)");
                    else
                        fail("element-outside-block", "an element was constructed in upstream %c outside every block", 'A' + u);
                }
                if (reinterpret_cast<std::uintptr_t>(p) % A != 0)
                    fail("element-misaligned", "an element with alignment %zu was constructed at address %% %zu == %zu", A, A,
                         std::size_t(reinterpret_cast<std::uintptr_t>(p) % A));
                for (std::size_t k = 0; k != S && off + k < ARENA; ++k)
                {
                    if (g_livemap[u][off + k])
                    {
                        fail("element-overlap", "an element was constructed over a live element (upstream %c arena offset %zu)",
                             'A' + u, off + k);
                        break;
                    }
                }
                for (std::size_t k = 0; k != S && off + k < ARENA; ++k)
                    g_livemap[u][off + k] = k == 0 ? 2 : 1;
                ++g_live_in_arena;
                return;
            }
        ++g_live_outside;
    }

    void elem_unreg(const void* p, std::size_t S)
    {
        ++g_elem_dtor;
        for (int u = 0; u != 2; ++u)
            if (g_up[u].contains(p))
            {
                std::size_t off = std::size_t(static_cast<const u8*>(p) - g_up[u].base());
                if (g_livemap[u][off] != 2)
                {
                    fail("element-destroyed-twice", "destructor ran at upstream %c arena offset %zu where no element is alive",
                         'A' + u, off);
                    return;
                }
                for (std::size_t k = 0; k != S && off + k < ARENA; ++k)
                    g_livemap[u][off + k] = 0;
                --g_live_in_arena;
                return;
            }
        --g_live_outside;
    }

    // the k-th construction (default / value / copy / move, counted from arming) of a throwing element type throws
    struct boom
    {
    };
    long g_throw_at = 0, g_ctor_seq = 0;
    bool g_boom_fired = false;
    template <bool Thr>
    inline void maybe_throw()
    {
        if (Thr && ++g_ctor_seq == g_throw_at)
        {
            g_boom_fired = true;
            throw boom();
        }
    }

    template <std::size_t S, std::size_t A, bool Thr>
    struct alignas(A) elem_t
    {
        static constexpr std::size_t size_v = S, align_v = A;
        static constexpr bool        throwing_v = Thr;
        unsigned char                b[S];

        elem_t() noexcept(!Thr)
        {
            maybe_throw<Thr>(); // throws before the element exists
            for (std::size_t k = 0; k != S; ++k)
                b[k] = pat(DEFCODE, k);
            elem_reg(this, S, A);
        }
        explicit elem_t(u8 code) noexcept(!Thr)
        {
            maybe_throw<Thr>();
            for (std::size_t k = 0; k != S; ++k)
                b[k] = pat(code, k);
            elem_reg(this, S, A);
        }
        elem_t(const elem_t& o) noexcept(!Thr)
        {
            maybe_throw<Thr>();
            std::memcpy(b, o.b, S);
            elem_reg(this, S, A);
        }
        elem_t(elem_t&& o) noexcept(!Thr)
        {
            maybe_throw<Thr>();
            std::memcpy(b, o.b, S);
            elem_reg(this, S, A);
        }
        elem_t& operator=(const elem_t& o) noexcept
        {
            std::memcpy(b, o.b, S);
            return *this;
        }
        ~elem_t() noexcept
        {
            elem_unreg(this, S);
        }
    };
    template <std::size_t S, std::size_t A>
    using elem = elem_t<S, A, false>;
    template <std::size_t S, std::size_t A>
    using telem = elem_t<S, A, true>;
    static_assert(sizeof(elem<1, 1>) == 1 && sizeof(elem<16, 2>) == 16 && alignof(elem<16, 16>) == 16 && sizeof(elem<8, 4>) == 8, "");

    //=== joint types generated from member layouts ===//
    constexpr unsigned MAXN = 96;

    struct spec
    {
        unsigned  n1, n2;
        const u8 *c1, *c2;
    };

    struct code_iter // plain input iterator without a distance: forces the bump path of joint_array's range constructor
    {
        const u8* p;
        u8        operator*() const
        {
            return *p;
        }
        code_iter& operator++()
        {
            ++p;
            return *this;
        }
        code_iter operator++(int)
        {
            auto t = *this;
            ++p;
            return t;
        }
        friend bool operator==(code_iter a, code_iter b)
        {
            return a.p == b.p;
        }
        friend bool operator!=(code_iter a, code_iter b)
        {
            return a.p != b.p;
        }
    };

    template <class E>
    using jalloc = fm::std_allocator<E, fm::joint_allocator>;
    template <class E>
    using jvec = std::vector<E, jalloc<E>>;

    template <class E, class J>
    jalloc<E> mkalloc(J& j)
    {
        fm::joint_allocator ja(j);
        return jalloc<E>(ja);
    }

    struct view
    {
        const void* obj;
        const void* alloc;
        const u8 *  d1, *d2;
        std::size_t n1, n2;     // element counts
        std::size_t cap1, cap2; // elements of memory handed out
    };

    // layout 0: joint_array (size constructor, default elements) + joint_array (range constructor, bump path)
    template <class E1, class E2>
    struct JT0 : fm::joint_type<JT0<E1, E2>>
    {
        using base = fm::joint_type<JT0<E1, E2>>;
        fm::joint_array<E1> a;
        fm::joint_array<E2> b;
        JT0(fm::joint j, const spec& s) : base(j), a(s.n1, *this), b(code_iter{s.c2}, code_iter{s.c2 + s.n2}, *this) {}
        JT0(fm::joint j, const JT0& o) : base(j), a(o.a, *this), b(o.b, *this) {}
        JT0(fm::joint j, JT0&& o) : base(j), a(std::move(o.a), *this), b(std::move(o.b), *this) {}
        void look(view& v) const
        {
            v.d1 = reinterpret_cast<const u8*>(a.data()), v.n1 = v.cap1 = a.size();
            v.d2 = reinterpret_cast<const u8*>(b.data()), v.n2 = v.cap2 = b.size();
        }
    };
    // layout 1: joint_array (range constructor) + vector<_, joint_allocator> (reserve + emplace_back, as the repo's test)
    template <class E1, class E2>
    struct JT1 : fm::joint_type<JT1<E1, E2>>
    {
        using base = fm::joint_type<JT1<E1, E2>>;
        fm::joint_array<E1> a;
        jvec<E2>            v;
        JT1(fm::joint j, const spec& s) : base(j), a(code_iter{s.c1}, code_iter{s.c1 + s.n1}, *this), v(mkalloc<E2>(*this))
        {
            v.reserve(s.n2);
            for (unsigned i = 0; i != s.n2; ++i)
                v.emplace_back(s.c2[i]);
        }
        JT1(fm::joint j, const JT1& o) : base(j), a(o.a, *this), v(o.v, mkalloc<E2>(*this)) {}
        JT1(fm::joint j, JT1&& o) : base(j), a(std::move(o.a), *this), v(std::move(o.v), mkalloc<E2>(*this)) {}
        void look(view& w) const
        {
            w.d1 = reinterpret_cast<const u8*>(a.data()), w.n1 = w.cap1 = a.size();
            w.d2 = reinterpret_cast<const u8*>(v.data()), w.n2 = v.size(), w.cap2 = v.capacity();
        }
    };
    // layout 2: vector<_, joint_allocator> first (sized constructor) + joint_array (size + value constructor)
    template <class E1, class E2>
    struct JT2 : fm::joint_type<JT2<E1, E2>>
    {
        using base = fm::joint_type<JT2<E1, E2>>;
        jvec<E1>            v;
        fm::joint_array<E2> b;
        JT2(fm::joint j, const spec& s) : base(j), v(s.n1, mkalloc<E1>(*this)), b(s.n2, E2(s.c2[0]), *this) {}
        JT2(fm::joint j, const JT2& o) : base(j), v(o.v, mkalloc<E1>(*this)), b(o.b, *this) {}
        JT2(fm::joint j, JT2&& o) : base(j), v(std::move(o.v), mkalloc<E1>(*this)), b(std::move(o.b), *this) {}
        void look(view& w) const
        {
            w.d1 = reinterpret_cast<const u8*>(v.data()), w.n1 = v.size(), w.cap1 = v.capacity();
            w.d2 = reinterpret_cast<const u8*>(b.data()), w.n2 = w.cap2 = b.size();
        }
    };

    // layout 3: joint_array (initializer_list constructor, always 2 elements) + joint_array (size constructor)
    template <class E1, class E2>
    struct JT3 : fm::joint_type<JT3<E1, E2>>
    {
        using base = fm::joint_type<JT3<E1, E2>>;
        fm::joint_array<E1> a;
        fm::joint_array<E2> b;
        JT3(fm::joint j, const spec& s) : base(j), a({E1(s.c1[0]), E1(s.c1[1])}, *this), b(s.n2, *this) {}
        JT3(fm::joint j, const JT3& o) : base(j), a(o.a, *this), b(o.b, *this) {}
        JT3(fm::joint j, JT3&& o) : base(j), a(std::move(o.a), *this), b(std::move(o.b), *this) {}
        void look(view& v) const
        {
            v.d1 = reinterpret_cast<const u8*>(a.data()), v.n1 = v.cap1 = a.size();
            v.d2 = reinterpret_cast<const u8*>(b.data()), v.n2 = v.cap2 = b.size();
        }
    };

    //=== type erased per-type operations (thin wrappers around the library calls) ===//
    struct type_ops
    {
        int         layout;
        std::size_t s1, a1, s2, a2, sizeofT, alignofT;
        void (*init)(void*, upstream&);
        void (*create)(void*, upstream&, std::size_t, const spec&);
        void (*moveobj)(void*, void*, upstream&, std::size_t);
        void (*clone)(void*, void*, upstream&);
        void (*pmove)(void*, void*);
        void (*assign)(void*, void*);
        void (*reset)(void*);
        void (*null)(void*);
        void (*swap)(void*, void*);
        void (*destroy)(void*);
        void (*look)(void*, view&);
        bool throwing; // element constructors can be made to throw
    };

    constexpr std::size_t SLOT_BYTES = 32;

    template <class T>
    struct impl
    {
        using JP = fm::joint_ptr<T, upstream>;
        static_assert(sizeof(JP) <= SLOT_BYTES, "slot storage too small");
        static JP& P(void* s)
        {
            return *static_cast<JP*>(s);
        }
        static void init(void* s, upstream& u)
        {
            ::new (s) JP(u);
        }
        static void create(void* s, upstream& u, std::size_t add, const spec& sp)
        {
            P(s) = fm::allocate_joint<T>(u, fm::joint_size(add), sp);
        }
        static void moveobj(void* d, void* s, upstream& u, std::size_t add)
        {
            P(d) = fm::allocate_joint<T>(u, fm::joint_size(add), std::move(*P(s)));
        }
        static void clone(void* d, void* s, upstream& u)
        {
            P(d) = fm::clone_joint(u, *P(s));
        }
        static void pmove(void* d, void* s)
        {
            P(d).~JP();
            ::new (d) JP(std::move(P(s)));
        }
        static void assign(void* d, void* s)
        {
            P(d) = std::move(P(s));
        }
        static void reset(void* s)
        {
            P(s).reset();
        }
        static void null(void* s)
        {
            P(s) = nullptr;
        }
        static void swap_(void* a, void* b)
        {
            swap(P(a), P(b));
        }
        static void destroy(void* s)
        {
            P(s).~JP();
        }
        static void look(void* s, view& v)
        {
            JP& p   = P(s);
            v.obj   = p.get();
            v.alloc = &p.get_allocator();
            v.d1 = v.d2 = nullptr;
            v.n1 = v.n2 = v.cap1 = v.cap2 = 0;
            if (p.get())
                p->look(v);
        }
    };

    template <int L, class E1, class E2>
    struct pick;
    template <class E1, class E2>
    struct pick<0, E1, E2>
    {
        using type = JT0<E1, E2>;
    };
    template <class E1, class E2>
    struct pick<1, E1, E2>
    {
        using type = JT1<E1, E2>;
    };
    template <class E1, class E2>
    struct pick<2, E1, E2>
    {
        using type = JT2<E1, E2>;
    };

    template <class E1, class E2>
    struct pick<3, E1, E2>
    {
        using type = JT3<E1, E2>;
    };

    template <std::size_t I>
    struct elem_at;
#define VERIF_E(i, s, a)                                                                                               \
    template <>                                                                                                        \
    struct elem_at<i>                                                                                                  \
    {                                                                                                                  \
        using type = elem<s, a>;                                                                                       \
    };
    // all (size, alignment) with size, alignment in {1,2,4,8,16} and size a multiple of alignment
    VERIF_E(0, 1, 1)
    VERIF_E(1, 2, 1)
    VERIF_E(2, 4, 1)
    VERIF_E(3, 8, 1)
    VERIF_E(4, 16, 1)
    VERIF_E(5, 2, 2)
    VERIF_E(6, 4, 2)
    VERIF_E(7, 8, 2)
    VERIF_E(8, 16, 2)
    VERIF_E(9, 4, 4)
    VERIF_E(10, 8, 4)
    VERIF_E(11, 16, 4)
    VERIF_E(12, 8, 8)
    VERIF_E(13, 16, 8)
    VERIF_E(14, 16, 16)
    template <int L, class E1, class E2>
    constexpr type_ops make_ops_for()
    {
        using T = typename pick<L, E1, E2>::type;
        using I = impl<T>;
        return type_ops{L,          E1::size_v, E1::align_v, E2::size_v, E2::align_v, sizeof(T), alignof(T),
                        &I::init,   &I::create, &I::moveobj, &I::clone,  &I::pmove,   &I::assign, &I::reset,
                        &I::null,   &I::swap_,  &I::destroy, &I::look,   E1::throwing_v || E2::throwing_v};
    }
#ifndef VERIF_JOINT_EXT
    constexpr std::size_t NELEM = 15, NLAYOUT = 3, NTYPES_ALL = NLAYOUT * NELEM * NELEM;
    // this translation unit instantiates the joint types with global index K == PART (mod PARTS)
    constexpr std::size_t PARTS = VERIF_JOINT_PARTS, PART = VERIF_JOINT_PART;
    constexpr std::size_t NTYPES = (NTYPES_ALL - PART + PARTS - 1) / PARTS;

    template <std::size_t J>
    constexpr type_ops make_ops()
    {
        constexpr std::size_t K = J * PARTS + PART;
        static_assert(K < NTYPES_ALL, "");
        using E1 = typename elem_at<(K % (NELEM * NELEM)) / NELEM>::type;
        using E2 = typename elem_at<K % NELEM>::type;
        return make_ops_for<int(K / (NELEM * NELEM)), E1, E2>();
    }
    template <std::size_t... J>
    const type_ops* make_table(std::index_sequence<J...>)
    {
        static const type_ops t[] = {make_ops<J>()...};
        return t;
    }
    const type_ops* g_types = make_table(std::make_index_sequence<NTYPES>{});
#else
    // extension TU (h_joint_x): joint types whose element constructors can throw, all four layouts
    const type_ops  g_types_x[] = {
        make_ops_for<0, telem<1, 1>, telem<8, 8>>(),   make_ops_for<1, telem<1, 1>, telem<8, 8>>(),
        make_ops_for<2, telem<1, 1>, telem<8, 8>>(),   make_ops_for<3, telem<1, 1>, telem<8, 8>>(),
        make_ops_for<0, telem<4, 4>, telem<2, 2>>(),   make_ops_for<1, telem<4, 4>, telem<2, 2>>(),
        make_ops_for<2, telem<4, 4>, telem<2, 2>>(),   make_ops_for<3, telem<4, 4>, telem<2, 2>>(),
        make_ops_for<0, telem<16, 16>, telem<4, 2>>(), make_ops_for<1, telem<16, 16>, telem<4, 2>>(),
        make_ops_for<2, telem<16, 16>, telem<4, 2>>(), make_ops_for<3, telem<16, 16>, telem<4, 2>>(),
    };
    constexpr std::size_t NTYPES  = sizeof(g_types_x) / sizeof(g_types_x[0]);
    const type_ops*       g_types = g_types_x;
#endif

    std::string type_name(std::size_t k)
    {
        const type_ops& t = g_types[k];
        return fmt("%sL%d/s%zua%zu/s%zua%zu", t.throwing ? "T" : "", t.layout, t.s1, t.a1, t.s2, t.a2);
    }

    //=== reference model ===//
    struct req
    {
        std::size_t size, align;
    };

    // creation == true: requests made by the constructor from a spec; false: by the copy / move-with-allocator constructor
    int requests(const type_ops& t, bool creation, std::size_t n1, std::size_t n2, req* r)
    {
        int n = 0;
        // member 1
        bool m1_array = t.layout != 2;
        bool m2_array = t.layout != 1;
        // joint_array: the size constructors and the copy/move constructors always ask the stack (also for 0 elements),
        // the range constructor asks only when the range is not empty; a vector asks only for a non-empty buffer
        bool m1_always = m1_array && (!creation || t.layout == 0 || t.layout == 3);
        bool m2_always = m2_array && (!creation || t.layout == 2 || t.layout == 3);
        if (m1_always || n1 > 0)
            r[n++] = req{n1 * t.s1, t.a1};
        if (m2_always || n2 > 0)
            r[n++] = req{n2 * t.s2, t.a2};
        return n;
    }

    // aligned bump allocation inside [mem, mem+cap): does the request list fit, and how much is used afterwards
    bool model_fit(std::uintptr_t mem, std::size_t cap, const req* r, int n, std::size_t* used)
    {
        std::uintptr_t top = mem, end = mem + cap;
        for (int i = 0; i != n; ++i)
        {
            std::uintptr_t al = (top + r[i].align - 1) / r[i].align * r[i].align;
            if (al > end || r[i].size > end - al)
                return false;
            top = al + r[i].size;
        }
        if (used)
            *used = std::size_t(top - mem);
        return true;
    }

    std::size_t need_at(const type_ops& t, std::size_t residue, std::size_t n1, std::size_t n2)
    {
        req r[2];
        int n = requests(t, true, n1, n2, r);
        // mem address == residue + sizeof(T) (mod 16); 1<<20 is a multiple of every alignment
        std::uintptr_t mem = (std::uintptr_t(1) << 20) + residue + t.sizeofT;
        std::size_t    used = 0;
        model_fit(mem, std::size_t(1) << 16, r, n, &used);
        return used;
    }

    constexpr int MAXOBJ = 16;
    struct mobj
    {
        bool     live;
        int      up, blk;
        unsigned n1, n2;
        bool     moved_from;
        u8       c1[MAXN], c2[MAXN];
    };

    //=== operations ===//
    enum
    {
        K_CREATE = 0,
        K_CREATE_OVER,
        K_MOVEOBJ,
        K_CLONE,
        OP_PMOVE  = 16,
        OP_ASSIGN = 18,
        OP_RESET  = 20,
        OP_NULL   = 22,
        OP_SWAP   = 24,
        OP_DESTROY = 25,
        NOPS      = 27
    };

    std::string op_name(int op)
    {
        if (op < 16)
        {
            int  k = op / 4, i = (op / 2) % 2;
            char X = 'A' + op % 2;
            switch (k)
            {
            case K_CREATE:
                return fmt("p%d = allocate_joint<T>(%c, joint_size(add), n1, n2)", i, X);
            case K_CREATE_OVER:
                return fmt("p%d = allocate_joint<T>(%c, joint_size(add), n1, n2 one past capacity)", i, X);
            case K_MOVEOBJ:
                return fmt("p%d = allocate_joint<T>(%c, move(*p%d))", i, X, 1 - i);
            default:
                return fmt("p%d = clone_joint(%c, *p%d)", i, X, 1 - i);
            }
        }
        if (op < 18)
            return fmt("destroy p%d; new joint_ptr p%d(move(p%d))", op - 16, op - 16, 1 - (op - 16));
        if (op < 20)
            return fmt("p%d = move(p%d)", op - 18, 1 - (op - 18));
        if (op < 22)
            return fmt("p%d.reset()", op - 20);
        if (op < 24)
            return fmt("p%d = nullptr", op - 22);
        if (op == 24)
            return "swap(p0, p1)";
        return fmt("destroy p%d; new null joint_ptr p%d(%c)", op - 25, op - 25, 'A' + (op - 25));
    }

    struct the_case
    {
        std::size_t type;
        unsigned    n1, n2;
        std::size_t add;
        int         cls; // class index used for the distinct-case counter
        int         throw_op = -1; // index of the operation during which the throw_at-th element construction throws
        long        throw_at = 0;
    };

    struct run_stats
    {
        u64 ops = 0, allocating_ops = 0, threw = 0, clones_ok = 0, clones_refused = 0, moveobj_ok = 0, moveobj_refused = 0,
            creates_ok = 0, creates_refused = 0, cross_upstream_assign = 0, releases = 0, skipped = 0,
            refused_with_padding = 0, clones_refused_same_residue = 0, ctor_throws = 0;
    };
    run_stats g_stats;

    // distinct (type, object class, op, abstract pre-state, outcome) tuples that reached the oracle
    constexpr std::size_t NCLS = 64;
    std::vector<u8>       g_seen;
    u64                   g_distinct = 0;
    void                  note_class(const the_case& c, int op, int pre, int outcome)
    {
        std::size_t idx = (((c.type * NCLS + std::size_t(c.cls)) * NOPS + std::size_t(op)) * 36 + std::size_t(pre)) * 3
                          + std::size_t(outcome);
        u8 bit = u8(1u << (idx & 7));
        if (!(g_seen[idx >> 3] & bit))
        {
            g_seen[idx >> 3] |= bit;
            ++g_distinct;
        }
    }

    struct runner
    {
        const type_ops* t;
        the_case        c;
        alignas(16) u8 slot[2][SLOT_BYTES];
        int  mslot[2];
        mobj objs[MAXOBJ];
        int  nobj;
        long exp_alloc[2], exp_dealloc[2];
        int  serial;
        bool verbose;
        bool skipped_last;

        void begin(const type_ops* tt, const the_case& cc, bool verb)
        {
            t       = tt;
            c       = cc;
            verbose = verb;
            // forget everything of the previous sequence (which may have been abandoned half way)
            for (int u = 0; u != 2; ++u)
            {
                std::size_t used = g_up[u].top + 64 < ARENA ? g_up[u].top + 64 : ARENA;
                std::memset(g_livemap[u], 0, used);
                g_up[u].reset(u, u == 0 ? 0 : 8);
            }
            g_live_in_arena = g_live_outside = 0;
            g_fail.set                       = false;
            g_sizeofT                        = t->sizeofT;
            nobj                             = 0;
            serial                           = 0;
            boom_fired_in_armed_op = false;
            g_throw_at             = 0;
            mslot[0] = mslot[1] = -1;
            exp_alloc[0] = exp_alloc[1] = exp_dealloc[0] = exp_dealloc[1] = 0;
            t->init(slot[0], g_up[0]);
            t->init(slot[1], g_up[1]);
        }

        int slot_state(int s) const // 0 null, 1 owns block of A, 2 of B; +3 if moved-from
        {
            if (mslot[s] < 0)
                return 0;
            const mobj& o = objs[mslot[s]];
            return 1 + o.up + (o.moved_from ? 3 : 0);
        }
        int pre_state() const
        {
            return slot_state(0) * 6 + slot_state(1);
        }

        u8 expected_code(const mobj& o, int member, unsigned i) const
        {
            if (member == 1)
                return t->layout == 1 || t->layout == 3 ? o.c1[i] : DEFCODE; // L0.a, L2.v default constructed
            return t->layout == 2 ? o.c2[0] : t->layout == 3 ? DEFCODE : o.c2[i]; // L2.b copies of one value
        }

        void fill_codes(mobj& o)
        {
            ++serial;
            for (unsigned i = 0; i != MAXN; ++i)
            {
                o.c1[i] = u8(0x21 + serial * 37 + i * 3);
                o.c2[i] = u8(0x83 + serial * 11 + i * 5);
            }
        }

        void kill(int m)
        {
            if (m >= 0)
            {
                objs[m].live = false;
                ++exp_dealloc[objs[m].up];
                ++g_stats.releases;
            }
        }

        // the oracle evaluated after every operation
        int         after_code_;
        const char* aft() const // text of the operation just executed, formatted only when something failed
        {
            static char buf[160];
            std::snprintf(buf, sizeof buf, "%s",
                          after_code_ == -1 ? "destroying p0 at the end" :
                          after_code_ == -2 ? "destroying p1 at the end" :
                                              op_name(after_code_).c_str());
            return buf;
        }
        void check_state(int after_code)
        {
            after_code_ = after_code;
            if (g_fail.set)
                return;
            view        v[2];
            std::size_t elems = 0;
            int         liveblk[2] = {0, 0};
            for (int s = 0; s != 2; ++s)
            {
                t->look(slot[s], v[s]);
                int m = mslot[s];
                if ((m < 0) != (v[s].obj == nullptr))
                    return fail("ownership-mismatch", "after %s: p%d %s an object but must %s", aft(), s,
                                v[s].obj ? "owns" : "does not own", m < 0 ? "be null" : "own one");
                if (m < 0)
                    continue;
                const mobj&     o = objs[m];
                const upstream& u = g_up[o.up];
                const block&    b = u.blk[o.blk];
                ++liveblk[o.up];
                if (v[s].obj != b.addr)
                    return fail("ownership-mismatch", "after %s: p%d points to %p, its object lives in block #%d of upstream %c at %p",
                                aft(), s, v[s].obj, o.blk, 'A' + o.up, (void*)b.addr);
                if (!b.live)
                    return fail("owner-of-released-block", "after %s: p%d owns an object whose block #%d of upstream %c was released",
                                aft(), s, o.blk, 'A' + o.up);
                if (v[s].alloc != &u)
                    return fail("allocator-binding",
                                "after %s: p%d owns the object in block #%d of upstream %c but get_allocator() refers to %s", aft(), s,
                                o.blk, 'A' + o.up,
                                v[s].alloc == &g_up[1 - o.up] ? (o.up ? "upstream A" : "upstream B") : "something else");
                const u8*   lo    = b.addr + t->sizeofT;
                const u8*   hi    = b.addr + b.size;
                const u8*   d[2]  = {v[s].d1, v[s].d2};
                std::size_t n[2]  = {v[s].n1, v[s].n2};
                std::size_t cp[2] = {v[s].cap1, v[s].cap2};
                std::size_t es[2] = {t->s1, t->s2}, ea[2] = {t->a1, t->a2};
                for (int k = 0; k != 2; ++k)
                {
                    if (!d[k])
                    {
                        if (cp[k] != 0 || n[k] != 0)
                            return fail("piece-null", "after %s: member %d of p%d reports %zu elements but a null pointer", aft(),
                                        k + 1, s, n[k]);
                        continue;
                    }
                    if (d[k] < lo || d[k] > hi || std::size_t(hi - d[k]) < cp[k] * es[k])
                        return fail("piece-outside-block",
                                    "after %s: member %d of p%d received [%ld,%ld) (offsets from the block start) but the joint memory "
                                    "of its block (upstream %c #%d) is [%zu,%zu)",
                                    aft(), k + 1, s, long(d[k] - b.addr), long(d[k] - b.addr + long(cp[k] * es[k])), 'A' + o.up, o.blk,
                                    t->sizeofT, b.size);
                    if (reinterpret_cast<std::uintptr_t>(d[k]) % ea[k] != 0)
                        return fail("piece-misaligned", "after %s: member %d of p%d (alignment %zu) received address %% %zu == %zu", aft(),
                                    k + 1, s, ea[k], ea[k], std::size_t(reinterpret_cast<std::uintptr_t>(d[k]) % ea[k]));
                }
                if (d[0] && d[1] && cp[0] && cp[1])
                {
                    const u8 *e0 = d[0] + cp[0] * es[0], *e1 = d[1] + cp[1] * es[1];
                    if (d[0] < e1 && d[1] < e0)
                        return fail("pieces-overlap", "after %s: members of p%d overlap: [%ld,%ld) and [%ld,%ld)", aft(), s,
                                    long(d[0] - b.addr), long(e0 - b.addr), long(d[1] - b.addr), long(e1 - b.addr));
                }
                elems += n[0] + n[1];
                if (!o.moved_from)
                {
                    if (n[0] != o.n1 || n[1] != o.n2)
                        return fail("content-mismatch", "after %s: p%d holds %zu+%zu elements, expected %u+%u", aft(), s, n[0], n[1], o.n1,
                                    o.n2);
                    for (int k = 0; k != 2; ++k)
                        for (std::size_t i = 0; i != n[k]; ++i)
                        {
                            u8 code = expected_code(o, k + 1, unsigned(i));
                            for (std::size_t j = 0; j != es[k]; ++j)
                                if (d[k][i * es[k] + j] != pat(code, j))
                                    return fail("content-mismatch",
                                                "after %s: element %zu of member %d of p%d (block #%d of upstream %c) byte %zu is 0x%02x, "
                                                "expected 0x%02x",
                                                aft(), i, k + 1, s, o.blk, 'A' + o.up, j, d[k][i * es[k] + j], pat(code, j));
                        }
                }
            }
            if (v[0].obj && v[0].obj == v[1].obj)
                return fail("double-ownership", "after %s: both pointers own %p", aft(), v[0].obj);
            for (int u = 0; u != 2; ++u)
            {
                if (g_up[u].n_alloc != exp_alloc[u])
                    return fail("upstream-allocation-count", "after %s: upstream %c served %ld allocations, expected %ld (one per object)",
                                aft(), 'A' + u, g_up[u].n_alloc, exp_alloc[u]);
                if (g_up[u].n_dealloc != exp_dealloc[u])
                    return fail("upstream-release-count",
                                "after %s: upstream %c saw %ld releases, expected %ld (one per destroyed object, to the upstream that "
                                "allocated it)",
                                aft(), 'A' + u, g_up[u].n_dealloc, exp_dealloc[u]);
                int live = 0;
                for (int i = 0; i != g_up[u].nblk; ++i)
                {
                    const block& b = g_up[u].blk[i];
                    live += b.live;
                    long w;
                    if (!g_up[u].guards_ok(b, &w))
                        return fail("guard-damaged", "after %s: byte at offset %ld of block #%d (size %zu) of upstream %c was overwritten",
                                    aft(), w, i, b.size, 'A' + u);
                }
                if (live != liveblk[u])
                    return fail("block-not-released", "after %s: upstream %c has %d outstanding blocks, %d objects are owned", aft(),
                                'A' + u, live, liveblk[u]);
            }
            if (g_live_in_arena != long(elems))
                return fail("element-balance", "after %s: %ld elements are alive in joint memory, the owned objects hold %zu", aft(),
                            g_live_in_arena, elems);
            if (g_live_outside != 0)
                return fail("element-balance", "after %s: %ld temporary elements outside joint memory were not destroyed", aft(),
                            g_live_outside);
        }

        // one allocating operation (create / create-over / move-with-allocator / clone) into slot i on upstream X
        void allocating(int op, int kind, int i, int X)
        {
            upstream& u   = g_up[X];
            int       src = mslot[1 - i];
            if ((kind == K_MOVEOBJ || kind == K_CLONE) && src < 0)
            {
                skipped_last = true; // operator* on a null joint_ptr is outside the contract
                return;
            }
            spec sp;
            mobj fresh;
            fresh.live = true, fresh.up = X, fresh.moved_from = false;
            std::size_t add = c.add;
            req         r[2];
            int         nr = 0;
            if (kind == K_CREATE || kind == K_CREATE_OVER)
            {
                fill_codes(fresh);
                fresh.n1 = c.n1, fresh.n2 = c.n2;
                if (kind == K_CREATE_OVER)
                {
                    // smallest count of the second member that does not fit where the block is going to be placed
                    std::uintptr_t mem = reinterpret_cast<std::uintptr_t>(u.peek(t->alignofT)) + t->sizeofT;
                    for (;;)
                    {
                        nr = requests(*t, true, fresh.n1, fresh.n2, r);
                        if (!model_fit(mem, add, r, nr, nullptr))
                            break;
                        if (++fresh.n2 >= MAXN)
                        {
                            skipped_last = true;
                            return;
                        }
                    }
                }
                sp = spec{fresh.n1, fresh.n2, fresh.c1, fresh.c2};
                nr = requests(*t, true, fresh.n1, fresh.n2, r);
            }
            else
            {
                // what the copy / move constructor is going to request is determined by the source's current sizes
                view sv;
                t->look(slot[1 - i], sv);
                fresh    = objs[src]; // contents of (a copy of) a moved-from object are unspecified: the flag is inherited
                fresh.up = X;
                nr       = requests(*t, false, sv.n1, sv.n2, r);
            }
            long a0 = u.n_alloc, d0 = u.n_dealloc, oa0 = g_up[1 - X].n_alloc;
            int  nblk0 = u.nblk;
            long live0 = g_live_in_arena;
            int  threw = 0;
            g_boom_fired = false;
            g_ctor_seq   = 0;
            g_throw_at   = c.throw_op == step ? c.throw_at : 0;
            try
            {
                if (kind == K_CREATE || kind == K_CREATE_OVER)
                    t->create(slot[i], u, add, sp);
                else if (kind == K_MOVEOBJ)
                    t->moveobj(slot[i], slot[1 - i], u, add);
                else
                    t->clone(slot[i], slot[1 - i], u);
            }
            catch (const fm::out_of_fixed_memory&)
            {
                threw = 1;
            }
            catch (const boom&)
            {
                threw = 3;
            }
            catch (...)
            {
                threw = 2;
            }
            g_throw_at = 0;
            boom_fired_in_armed_op = g_boom_fired;
            ++g_stats.allocating_ops;
            if (g_fail.set)
                return;
            if (kind == K_MOVEOBJ)
                objs[src].moved_from = true;
            const char* what = kind == K_CLONE ? "clone_joint" : kind == K_MOVEOBJ ? "allocate_joint(move)" : "allocate_joint";
            if (u.n_alloc != a0 + 1 || g_up[1 - X].n_alloc != oa0 || u.nblk != nblk0 + 1)
                return fail("upstream-allocation-count", "%s made %ld allocations on upstream %c and %ld on the other one, expected exactly 1 and 0",
                            what, u.n_alloc - a0, 'A' + X, g_up[1 - X].n_alloc - oa0);
            ++exp_alloc[X];
            const block& b = u.blk[nblk0];
            if (b.align != t->alignofT)
                return fail("allocation-alignment", "%s asked the upstream for alignment %zu, alignof(T) is %zu", what, b.align, t->alignofT);
            if (kind != K_CLONE && b.size != t->sizeofT + add)
                return fail("allocation-size", "%s asked the upstream for %zu bytes, sizeof(T)+additional is %zu+%zu", what, b.size,
                            t->sizeofT, add);
            if (b.size < t->sizeofT)
                return fail("allocation-size", "%s asked the upstream for %zu bytes, sizeof(T) is %zu", what, b.size, t->sizeofT);
            std::uintptr_t mem  = reinterpret_cast<std::uintptr_t>(b.addr) + t->sizeofT;
            bool           fits = model_fit(mem, b.size - t->sizeofT, r, nr, nullptr);
            int            outcome = threw ? 1 : 0;
            note_class(c, op, pre_state_before, outcome);
            if (threw == 2)
                return fail("wrong-exception", "%s threw something that is not out_of_fixed_memory", what);
            if (g_boom_fired != (threw == 3))
                return fail("exception-lost", "%s: an element constructor threw, but %s", what,
                            threw == 1 ? "out_of_fixed_memory came out" : "no exception came out");
            if (threw == 3)
                ++g_stats.ctor_throws;
            if (threw != 3 && !threw && !fits)
                return fail("no-throw-on-overflow",
                            "%s: members requesting %s do not fit into %zu bytes of joint memory at address %% 16 == %zu, but no "
                            "out_of_fixed_memory was thrown",
                            what, req_text(r, nr).c_str(), b.size - t->sizeofT, std::size_t(mem % 16));
            if (threw == 1 && fits)
                return harness_fail("model-mismatch",
                                    "%s threw out_of_fixed_memory although members requesting %s fit into %zu bytes at address %% 16 == %zu "
                                    "according to the reference model",
                                    what, req_text(r, nr).c_str(), b.size - t->sizeofT, std::size_t(mem % 16));
            if (threw)
            {
                last_threw = true;
                ++g_stats.threw;
                // did it fail only because of alignment padding?
                std::size_t raw = 0;
                for (int k = 0; k != nr; ++k)
                    raw += r[k].size;
                if (threw == 1 && raw <= b.size - t->sizeofT)
                    ++g_stats.refused_with_padding;
                if (threw == 3)
                    ;
                else if (kind == K_CLONE)
                {
                    ++g_stats.clones_refused;
                    const mobj& so = objs[src];
                    if (reinterpret_cast<std::uintptr_t>(g_up[so.up].blk[so.blk].addr) % 16 == reinterpret_cast<std::uintptr_t>(b.addr) % 16)
                        ++g_stats.clones_refused_same_residue;
                }
                else if (kind == K_MOVEOBJ)
                    ++g_stats.moveobj_refused;
                else
                    ++g_stats.creates_refused;
                if (b.live)
                    return fail("block-not-released", "%s threw but the block it had allocated (size %zu) was not released", what, b.size);
                ++exp_dealloc[X];
                if (u.n_dealloc != d0 + 1)
                    return fail("upstream-release-count", "%s threw and released %ld blocks, expected 1", what, u.n_dealloc - d0);
                if (kind != K_MOVEOBJ && g_live_in_arena != live0)
                    return fail("element-balance", "%s threw and left %ld elements alive (before: %ld)", what, g_live_in_arena, live0);
                return; // slot i keeps what it had
            }
            if (kind == K_CLONE)
                ++g_stats.clones_ok;
            else if (kind == K_MOVEOBJ)
                ++g_stats.moveobj_ok;
            else
                ++g_stats.creates_ok;
            if (nobj == MAXOBJ)
                return harness_fail("model-capacity", "too many objects in one sequence");
            kill(mslot[i]);
            fresh.blk  = nblk0;
            objs[nobj] = fresh;
            mslot[i]   = nobj++;
        }

        static std::string req_text(const req* r, int n)
        {
            std::string s;
            for (int i = 0; i != n; ++i)
                s += fmt("%s(%zu bytes, alignment %zu)", i ? " then " : "", r[i].size, r[i].align);
            return n ? s : "nothing";
        }

        int  pre_state_before;
        bool last_threw;
        int  step;                   // index of the running operation in the sequence
        bool boom_fired_in_armed_op; // did the armed construction number exist

        // returns false when the operation was skipped (precondition not met)
        bool apply(int op, int step_index)
        {
            step             = step_index;
            skipped_last     = false;
            last_threw       = false;
            pre_state_before = pre_state();
            ++g_stats.ops;
            if (op < 16)
            {
                allocating(op, op / 4, (op / 2) % 2, op % 2);
                if (skipped_last)
                {
                    ++g_stats.skipped;
                    return false;
                }
            }
            else
            {
                if (op < 18)
                {
                    int i = op - 16;
                    t->pmove(slot[i], slot[1 - i]);
                    kill(mslot[i]);
                    mslot[i]     = mslot[1 - i];
                    mslot[1 - i] = -1;
                }
                else if (op < 20)
                {
                    int i = op - 18;
                    if (mslot[1 - i] >= 0 && (mslot[i] < 0 || objs[mslot[i]].up != objs[mslot[1 - i]].up))
                        ++g_stats.cross_upstream_assign;
                    t->assign(slot[i], slot[1 - i]);
                    kill(mslot[i]);
                    mslot[i]     = mslot[1 - i];
                    mslot[1 - i] = -1;
                }
                else if (op < 22)
                {
                    t->reset(slot[op - 20]);
                    kill(mslot[op - 20]);
                    mslot[op - 20] = -1;
                }
                else if (op < 24)
                {
                    t->null(slot[op - 22]);
                    kill(mslot[op - 22]);
                    mslot[op - 22] = -1;
                }
                else if (op == 24)
                {
                    t->swap(slot[0], slot[1]);
                    std::swap(mslot[0], mslot[1]);
                }
                else
                {
                    int i = op - 25;
                    t->destroy(slot[i]);
                    kill(mslot[i]);
                    mslot[i] = -1;
                    t->init(slot[i], g_up[i]);
                }
                note_class(c, op, pre_state_before, 2);
            }
            if (verbose)
                std::printf("  %-60s -> %s%s\n", op_name(op).c_str(),
                            !last_threw ? "" : boom_fired_in_armed_op && c.throw_op == step ? "element constructor threw; " : "threw out_of_fixed_memory; ",
                            g_fail.set ? g_fail.tag : describe().c_str());
            check_state(op);
            return true;
        }

        std::string describe()
        {
            std::string s;
            for (int k = 0; k != 2; ++k)
            {
                if (mslot[k] < 0)
                    s += fmt("p%d=null ", k);
                else
                {
                    const mobj&  o = objs[mslot[k]];
                    const block& b = g_up[o.up].blk[o.blk];
                    view         v;
                    t->look(slot[k], v);
                    s += fmt("p%d=%c#%d(size %zu=%zu+%zu, base%%16=%zu%s; m1=[%ld,+%zu) m2=[%ld,+%zu)) ", k, 'A' + o.up, o.blk, b.size,
                             t->sizeofT, b.size - t->sizeofT, std::size_t(reinterpret_cast<std::uintptr_t>(b.addr) % 16),
                             o.moved_from ? ", moved-from" : "", v.d1 ? long(v.d1 - b.addr) : -1L, v.cap1 * t->s1,
                             v.d2 ? long(v.d2 - b.addr) : -1L, v.cap2 * t->s2);
                }
            }
            return s;
        }

        // destroy slot 0 first (a clone in slot 1 must survive its source), then slot 1; everything must be balanced
        void teardown()
        {
            if (g_fail.set)
                return;
            for (int i = 0; i != 2; ++i)
            {
                t->destroy(slot[i]);
                kill(mslot[i]);
                mslot[i] = -1;
                t->init(slot[i], g_up[i]);
                check_state(i == 0 ? -1 : -2);
                if (g_fail.set)
                    return;
            }
            t->destroy(slot[0]);
            t->destroy(slot[1]);
            for (int u = 0; u != 2; ++u)
                if (g_up[u].n_alloc != g_up[u].n_dealloc)
                    return fail("block-not-released", "at the end upstream %c served %ld allocations and %ld releases", 'A' + u,
                                g_up[u].n_alloc, g_up[u].n_dealloc);
            if (g_live_in_arena != 0 || g_live_outside != 0)
                return fail("element-balance", "at the end %ld elements are still alive", g_live_in_arena + g_live_outside);
        }
    };

    runner g_run;

    enum
    {
        RES_OK = 0,
        RES_SKIPPED,
        RES_VIOLATION,
        RES_HARNESS
    };

    // runs one sequence on fresh objects; contains abort / crash / hang
    int run_sequence(const the_case& c, const int* ops, int n, bool verbose, std::string* tag, std::string* detail)
    {
        volatile int  result = RES_OK;
        int           out    = OUT_OK;
        volatile bool skipped = false;
        VERIF_GUARDED(out, {
            g_run.begin(&g_types[c.type], c, verbose);
            for (int k = 0; k != n && !g_fail.set; ++k)
                if (!g_run.apply(ops[k], k))
                {
                    skipped = true;
                    break;
                }
            g_run.teardown(); // also after a skipped operation: the prefix has to end balanced
        });
        if (out != OUT_OK)
        {
            if (!g_fail.set)
                fail(out == OUT_ABORTED ? "aborted" : out == OUT_CRASHED ? "crashed" : "hung",
                     "the library %s during a sequence that respects every documented precondition", outcome_name(out));
        }
        if (g_fail.set)
        {
            *tag   = g_fail.tag;
            *detail = g_fail.detail;
            result = g_fail.harness ? RES_HARNESS : RES_VIOLATION;
        }
        else if (skipped)
            result = RES_SKIPPED;
        return result;
    }

    std::string case_json(const the_case& c, const int* ops, int n)
    {
        jarr a;
        for (int i = 0; i != n; ++i)
            a.raw(std::to_string(ops[i]));
        jarr names;
        for (int i = 0; i != n; ++i)
            names.str(op_name(ops[i]));
        return jobj()
            .str("type", type_name(c.type))
            .num("n1", c.n1)
            .num("n2", c.n2)
            .num("add", (long long)c.add)
            .raw("ops", a.done())
            .num("throw_op", c.throw_op)
            .num("throw_at", c.throw_at)
            .raw("text", names.done())
            .done();
    }

    //=== enumeration ===//
    struct totals
    {
        u64                      sequences = 0, skipped = 0, violations_total = 0, objects = 0, types = 0, sweep_sequences = 0,
            history_sequences = 0;
        std::vector<std::string> viol, herr, samples;
        std::vector<std::string> seen_tags;
        int                      max_depth = 0;
    };
    totals g_tot;

    void report(const the_case& c, const int* ops, int n, int res, const std::string& tag, const std::string& detail)
    {
        // re-check: run the same case once more, the verdict has to be identical
        std::string tag2, detail2;
        int         res2 = run_sequence(c, ops, n, false, &tag2, &detail2);
        if (res2 != res || tag2 != tag)
        {
            if (g_tot.herr.size() < 20)
                g_tot.herr.push_back(fmt("verdict not reproducible for %s: first [%s] then [%s]", case_json(c, ops, n).c_str(), tag.c_str(),
                                         res2 == RES_OK ? "ok" : tag2.c_str()));
            return;
        }
        if (res == RES_HARNESS)
        {
            if (g_tot.herr.size() < 20)
                g_tot.herr.push_back(fmt("[%s] %s; case %s", tag.c_str(), detail.c_str(), case_json(c, ops, n).c_str()));
            return;
        }
        ++g_tot.violations_total;
        for (auto& s : g_tot.seen_tags)
            if (s == tag)
                return; // one (shortest-first) witness per tag and job
        g_tot.seen_tags.push_back(tag);
        g_tot.viol.push_back(jobj().str("tag", tag).str("detail", type_name(c.type) + ": " + detail).raw("input", case_json(c, ops, n)).done());
    }

    void one(const the_case& c, const int* ops, int n, bool* was_skipped)
    {
        std::string tag, detail;
        int         res = run_sequence(c, ops, n, false, &tag, &detail);
        ++g_tot.sequences;
        *was_skipped = res == RES_SKIPPED;
        if (res == RES_SKIPPED)
            ++g_tot.skipped;
        if (res == RES_VIOLATION || res == RES_HARNESS)
            report(c, ops, n, res, tag, detail);
    }

    // Exception unwinding dominates the run time, so the create that must throw is enumerated on one upstream per slot
    // (p0 on A, p1 on B); the slot it targets can still own nothing, a block of A or a block of B. --replay accepts all 27.
    bool in_alphabet(int op)
    {
        return !(op / 4 == K_CREATE_OVER && (op / 2) % 2 != op % 2);
    }
    int alphabet_size()
    {
        int n = 0;
        for (int op = 0; op != NOPS; ++op)
            n += in_alphabet(op);
        return n;
    }

    // all sequences of length 1..depth; a sequence whose last operation is outside the contract is not extended
    void dfs(const the_case& c, int* ops, int len, int depth)
    {
        for (int op = 0; op != NOPS; ++op)
        {
            if (!in_alphabet(op))
                continue;
            ops[len] = op;
            bool skipped;
            one(c, ops, len + 1, &skipped);
            ++g_tot.history_sequences;
            if (g_tot.samples.size() < 4 && len + 1 == depth && !skipped && (g_tot.sequences % 977) == 0)
                g_tot.samples.push_back(case_json(c, ops, len + 1));
            if (!skipped && len + 1 < depth)
                dfs(c, ops, len + 1, depth);
        }
    }

    int code(int kind, int i, int X)
    {
        return kind * 4 + i * 2 + X;
    }

    void enumerate_type(std::size_t ti, bool quick, int depth_main, int depth_rest)
    {
        const type_ops& t = g_types[ti];
        ++g_tot.types;
        // --- sweep: every object (counts x additional sizes around the exact fit), fixed life cycles
        static const unsigned q_n1[] = {0, 1, 3}, q_n2[] = {0, 1, 2}, t_n[] = {0, 1, 2, 3};
        const unsigned *      n1s = quick ? q_n1 : t_n, *n2s = quick ? q_n2 : t_n;
        int                   nn1 = quick ? 3 : 4, nn2 = quick ? 3 : 4;
        const int             sweeps[4][3] = {
            {code(K_CREATE, 0, 0), code(K_CLONE, 1, 1), -1},
            {code(K_CREATE, 0, 1), code(K_MOVEOBJ, 1, 0), -1},
            {code(K_CREATE, 1, 1), code(K_CLONE, 0, 0), OP_RESET + 1},
            {code(K_CREATE, 1, 0), code(K_MOVEOBJ, 0, 1), OP_NULL + 1},
        };
        for (int i1 = 0; i1 != nn1; ++i1)
            for (int i2 = 0; i2 != nn2; ++i2)
            {
                unsigned    n1 = n1s[i1], n2 = n2s[i2];
                std::size_t need[2] = {need_at(t, 0, n1, n2), need_at(t, 8, n1, n2)};
                std::vector<std::size_t> adds;
                auto                     push = [&](long v) {
                    if (v < 0)
                        return;
                    for (auto a : adds)
                        if (a == std::size_t(v))
                            return;
                    adds.push_back(std::size_t(v));
                };
                push(0);
                for (int k = 0; k != 2; ++k)
                {
                    for (long d = -15; d <= 15; ++d)
                        push(long(need[k]) + d);
                    push(long(need[k]) - long(t.s1));
                    push(long(need[k]) + long(t.s1));
                    push(long(need[k]) - long(t.s2));
                    push(long(need[k]) + long(t.s2));
                }
                push(long(need[0] > need[1] ? need[0] : need[1]) + 64);
                for (auto add : adds)
                {
                    ++g_tot.objects;
                    the_case c{ti, n1, n2, add, 0};
                    int      rel = add < need[0] ? 0 : add == need[0] ? 1 : 2;
                    c.cls        = 8 + (i1 * 4 + i2) * 3 + rel;
                    for (auto& sw : sweeps)
                    {
                        int  n = sw[2] < 0 ? 2 : 3;
                        bool skipped;
                        one(c, sw, n, &skipped);
                        ++g_tot.sweep_sequences;
                        if (g_tot.samples.size() < 2 && add == need[0] && n1 == 1 && n2 == 1)
                            g_tot.samples.push_back(case_json(c, sw, n));
                    }
                }
            }
        // --- histories: all operation sequences on representative objects
        struct rep
        {
            unsigned n1, n2;
            int      slack; // -1: additional size 0
            int      depth;
        };
        std::vector<rep> reps;
        reps.push_back(rep{2, 1, 0, depth_main});  // exact fit (for the block residue that needs more padding)
        reps.push_back(rep{1, 2, 24, depth_rest}); // generous
        if (!quick)
        {
            reps.push_back(rep{0, 0, -1, depth_rest}); // empty members, no additional memory at all
            reps.push_back(rep{3, 0, 0, depth_rest});  // only the first member
            reps.push_back(rep{0, 3, 1, depth_rest});  // only the second member, one spare byte
        }
        int cls = 0;
        for (auto& r : reps)
        {
            std::size_t n0 = need_at(t, 0, r.n1, r.n2), n8 = need_at(t, 8, r.n1, r.n2);
            std::size_t add = r.slack < 0 ? 0 : (n0 > n8 ? n0 : n8) + std::size_t(r.slack);
            the_case    c{ti, r.n1, r.n2, add, cls++};
            ++g_tot.objects;
            int ops[8];
            if (r.depth > g_tot.max_depth)
                g_tot.max_depth = r.depth;
            dfs(c, ops, 0, r.depth);
        }
    }

#ifdef VERIF_JOINT_EXT
    //=== (F) element constructors that throw: every joint_array / vector construction form, every throwing position ===//
    struct throw_totals
    {
        u64 runs = 0, fired = 0, cases = 0;
    };
    throw_totals g_ttot;

    void enumerate_throw_type(std::size_t ti)
    {
        const type_ops& t = g_types[ti];
        ++g_tot.types;
        struct tseq
        {
            int ops[3];
            int n, throw_op;
        };
        const tseq seqs[] = {
            {{code(K_CREATE, 0, 0), -1, -1}, 1, 0},                                     // constructor of T from a spec
            {{code(K_CREATE, 0, 0), code(K_CLONE, 1, 1), -1}, 2, 1},                    // copy with allocator, other upstream
            {{code(K_CREATE, 0, 0), code(K_CLONE, 1, 0), -1}, 2, 1},                    // copy with allocator, same upstream
            {{code(K_CREATE, 0, 1), code(K_MOVEOBJ, 1, 0), -1}, 2, 1},                  // move with allocator
            {{code(K_CREATE, 0, 0), code(K_CLONE, 1, 0), code(K_CLONE, 1, 0)}, 3, 2},   // target slot already owns a clone
            {{code(K_CREATE, 1, 1), code(K_CREATE, 1, 0), -1}, 2, 1},                   // target slot already owns an object
        };
        for (unsigned n1 = 0; n1 != 4; ++n1)
            for (unsigned n2 = 0; n2 != 4; ++n2)
            {
                if (t.layout == 3 && n1 != 2)
                    continue; // the initializer_list form has a fixed length
                std::size_t n0 = need_at(t, 0, n1, n2), n8 = need_at(t, 8, n1, n2);
                std::size_t exact = n0 > n8 ? n0 : n8;
                for (std::size_t add : {exact, exact + 16})
                    for (auto& sq : seqs)
                    {
                        ++g_ttot.cases;
                        ++g_tot.objects;
                        for (long k = 1; k <= 80; ++k)
                        {
                            the_case c{ti, n1, n2, add, int(k < 40 ? k : 40) + 8};
                            c.throw_op = sq.throw_op;
                            c.throw_at = k;
                            bool skipped;
                            one(c, sq.ops, sq.n, &skipped);
                            ++g_ttot.runs;
                            bool fired = g_run.boom_fired_in_armed_op;
                            g_ttot.fired += fired;
                            if (g_tot.samples.size() < 3 && fired && k == 2 && n1 == 2 && n2 == 1)
                                g_tot.samples.push_back(case_json(c, sq.ops, sq.n));
                            if (!fired)
                                break; // k is past the last construction: this run was the control without a throw
                        }
                    }
            }
    }

    //=== (E) histories on the joint memory of ONE object: growing vectors, raw nodes in every release order, arrays ===//
    template <class Ea, class Eb>
    struct JG : fm::joint_type<JG<Ea, Eb>>
    {
        jvec<Ea> v0;
        jvec<Eb> v1;
        JG(fm::joint j) : fm::joint_type<JG<Ea, Eb>>(j), v0(mkalloc<Ea>(*this)), v1(mkalloc<Eb>(*this)) {}
    };
    using garr = fm::joint_array<elem<1, 1>>;

    struct grow_ops
    {
        std::size_t s[2], a[2], sizeofT, alignofT;
        void (*create)(void*, upstream&, std::size_t);
        void (*destroy)(void*);
        void (*push)(void*, int, u8);
        void (*shrink)(void*, int);
        void (*vlook)(void*, int, const u8**, std::size_t*, std::size_t*);
        void* (*alloc)(void*, std::size_t, std::size_t);
        void (*dealloc)(void*, void*, std::size_t, std::size_t);
        void (*mkarray)(void*, void*);
        void (*vassign)(void*, void*, int, bool); // dst.v = src.v / std::move(src.v) between two joint objects
        bool (*valloc_own)(void*, int);           // does v.get_allocator() refer to this object's joint memory
        void (*reset)(void*);
    };
    template <class Ea, class Eb>
    struct gimpl
    {
        using T  = JG<Ea, Eb>;
        using JP = fm::joint_ptr<T, upstream>;
        static JP& P(void* s)
        {
            return *static_cast<JP*>(s);
        }
        static void create(void* s, upstream& u, std::size_t add)
        {
            ::new (s) JP(fm::allocate_joint<T>(u, fm::joint_size(add)));
        }
        static void destroy(void* s)
        {
            P(s).~JP();
        }
        static void push(void* s, int v, u8 c)
        {
            if (v == 0)
                P(s)->v0.emplace_back(c);
            else
                P(s)->v1.emplace_back(c);
        }
        static void shrink(void* s, int v)
        {
            if (v == 0)
                P(s)->v0.shrink_to_fit();
            else
                P(s)->v1.shrink_to_fit();
        }
        static void vlook(void* s, int v, const u8** d, std::size_t* n, std::size_t* c)
        {
            if (v == 0)
                *d = reinterpret_cast<const u8*>(P(s)->v0.data()), *n = P(s)->v0.size(), *c = P(s)->v0.capacity();
            else
                *d = reinterpret_cast<const u8*>(P(s)->v1.data()), *n = P(s)->v1.size(), *c = P(s)->v1.capacity();
        }
        static void* alloc(void* s, std::size_t size, std::size_t al)
        {
            fm::joint_allocator ja(*P(s));
            return ja.allocate_node(size, al);
        }
        static void dealloc(void* s, void* p, std::size_t size, std::size_t al)
        {
            fm::joint_allocator ja(*P(s));
            ja.deallocate_node(p, size, al);
        }
        static void mkarray(void* s, void* st)
        {
            ::new (st) garr(3, *P(s));
        }
        static void vassign(void* d, void* s, int v, bool mv)
        {
            if (v == 0)
            {
                if (mv)
                    P(d)->v0 = std::move(P(s)->v0);
                else
                    P(d)->v0 = P(s)->v0;
            }
            else
            {
                if (mv)
                    P(d)->v1 = std::move(P(s)->v1);
                else
                    P(d)->v1 = P(s)->v1;
            }
        }
        static bool valloc_own(void* s, int v)
        {
            fm::joint_allocator own(*P(s));
            return v == 0 ? P(s)->v0.get_allocator().get_allocator() == own : P(s)->v1.get_allocator().get_allocator() == own;
        }
        static void reset(void* s)
        {
            P(s).reset();
        }
        static grow_ops make()
        {
            return grow_ops{{Ea::size_v, Eb::size_v}, {Ea::align_v, Eb::align_v}, sizeof(T), alignof(T), &create, &destroy, &push,
                            &shrink, &vlook, &alloc, &dealloc, &mkarray, &vassign, &valloc_own, &reset};
        }
    };
    const grow_ops g_gtypes[] = {gimpl<elem<1, 1>, elem<2, 2>>::make(), gimpl<elem<2, 1>, elem<4, 4>>::make(),
                                 gimpl<elem<4, 2>, elem<1, 1>>::make()};
    constexpr int  NGTYPES   = 3;
    std::string    gtype_name(int g)
    {
        return fmt("G/s%zua%zu+s%zua%zu", g_gtypes[g].s[0], g_gtypes[g].a[0], g_gtypes[g].s[1], g_gtypes[g].a[1]);
    }

    constexpr int         GOPS = 15, NRAWSZ = 7, MAXRAW = 3, MAXARR = 2, MAXVCAP = 16;
    const std::size_t     g_rawsz[NRAWSZ][2] = {{1, 1}, {3, 1}, {4, 4}, {8, 8}, {15, 1}, {16, 16}, {24, 8}};
    std::string           gop_name(int op)
    {
        if (op < 2)
            return fmt("push_back on v%d until it reallocates", op);
        if (op < 4)
            return fmt("v%d.shrink_to_fit()", op - 2);
        if (op < 4 + NRAWSZ)
            return fmt("joint_allocator::allocate_node(%zu, %zu)", g_rawsz[op - 4][0], g_rawsz[op - 4][1]);
        if (op < 4 + NRAWSZ + MAXRAW)
            return fmt("joint_allocator::deallocate_node(oldest live raw node #%d)", op - 4 - NRAWSZ);
        return "joint_array<1 byte>(3, *p)";
    }

    struct grow_case
    {
        int         gtype, up;
        std::size_t add;
    };

    struct grow_stats
    {
        u64 sequences = 0, skipped = 0, ops = 0, reallocations = 0, growth_refused = 0, shrinks = 0, raw_allocs = 0,
            raw_refused = 0, raw_releases_last = 0, raw_releases_not_last = 0, arrays = 0, arrays_refused = 0,
            vector_release_not_last = 0, succeeded_beyond_model = 0, violations_total = 0;
    };
    grow_stats g_gs;

    std::vector<u8> g_gseen;
    u64             g_gdistinct = 0;

    struct grow_runner
    {
        const grow_ops* t;
        grow_case       c;
        alignas(16) u8 slot[SLOT_BYTES];
        alignas(16) u8 arrst[MAXARR][sizeof(garr)];
        int  narr;
        bool created;
        struct raw
        {
            u8*         p;
            std::size_t size, align;
            u8          code;
        } raws[MAXRAW];
        int nraw, rawserial;
        // reference model: aligned bump, only the last allocation is reclaimed
        std::size_t mtop;
        struct mvec
        {
            long        off;
            std::size_t cap, size;
        } mv[2];
        bool        model_valid;
        const u8*   mem;
        std::size_t cap;
        bool        verbose, last_threw;

        static u8 vcode(int v, std::size_t i)
        {
            return u8(0x31 + v * 0x40 + i * 7);
        }
        long m_alloc(std::size_t size, std::size_t al)
        {
            std::uintptr_t top = reinterpret_cast<std::uintptr_t>(mem) + mtop, end = reinterpret_cast<std::uintptr_t>(mem) + cap;
            std::uintptr_t a   = (top + al - 1) / al * al;
            if (a > end || size > end - a)
                return -1;
            mtop = std::size_t(a + size - reinterpret_cast<std::uintptr_t>(mem));
            return long(a - reinterpret_cast<std::uintptr_t>(mem));
        }
        bool m_dealloc(long off, std::size_t size)
        {
            if (std::size_t(off) + size == mtop)
            {
                mtop = std::size_t(off);
                return true;
            }
            return false;
        }

        void begin(const grow_ops* tt, const grow_case& cc, bool verb)
        {
            t = tt, c = cc, verbose = verb;
            for (int u = 0; u != 2; ++u)
            {
                std::size_t used = g_up[u].top + 64 < ARENA ? g_up[u].top + 64 : ARENA;
                std::memset(g_livemap[u], 0, used);
                g_up[u].reset(u, u == 0 ? 0 : 8);
            }
            g_live_in_arena = g_live_outside = 0;
            g_fail.set                       = false;
            g_throw_at                       = 0;
            g_sizeofT                        = t->sizeofT;
            narr = nraw = rawserial = 0;
            mtop                    = 0;
            mv[0] = mv[1] = mvec{-1, 0, 0};
            model_valid   = true;
            created       = false;
            t->create(slot, g_up[c.up], c.add);
            created        = true;
            const block& b = g_up[c.up].blk[0];
            mem            = b.addr + t->sizeofT;
            cap            = b.size - t->sizeofT;
            if (g_up[c.up].n_alloc != 1 || b.size != t->sizeofT + c.add || b.align != t->alignofT)
                fail("allocation-size", "allocate_joint asked the upstream for %zu bytes alignment %zu, expected %zu+%zu and %zu", b.size,
                     b.align, t->sizeofT, c.add, t->alignofT);
        }

        int pre_class() const
        {
            auto capc = [](std::size_t cp) { return cp == 0 ? 0 : cp == 1 ? 1 : cp == 2 ? 2 : cp <= 4 ? 3 : cp <= 8 ? 4 : 5; };
            return ((nraw * 6 + capc(mv[0].cap)) * 6 + capc(mv[1].cap)) * 3 + narr;
        }
        void note(int op, int pre, int outcome)
        {
            std::size_t cidx = std::size_t(c.gtype * 2 + c.up);
            std::size_t idx  = ((cidx * GOPS + std::size_t(op)) * 432 + std::size_t(pre)) * 3 + std::size_t(outcome);
            u8          bit  = u8(1u << (idx & 7));
            if (!(g_gseen[idx >> 3] & bit))
            {
                g_gseen[idx >> 3] |= bit;
                ++g_gdistinct;
            }
        }

        // physical oracle: every live piece inside the joint memory, aligned, pairwise disjoint, contents intact
        void check(int op)
        {
            if (g_fail.set)
                return;
            struct piece
            {
                const u8*   p;
                std::size_t n, al;
                const char* what;
                int         idx;
            } pc[MAXRAW + 2 + MAXARR];
            int         np    = 0;
            std::size_t elems = 0;
            const u8*   end   = mem + cap;
            for (int k = 0; k != nraw; ++k)
                pc[np++] = piece{raws[k].p, raws[k].size, raws[k].align, "raw node", k};
            for (int v = 0; v != 2; ++v)
            {
                const u8*   d;
                std::size_t n, cp;
                t->vlook(slot, v, &d, &n, &cp);
                elems += n;
                if (cp && !d)
                    return fail("piece-null", "after %s: v%d has capacity %zu but a null buffer", gop_name(op).c_str(), v, cp);
                if (cp)
                    pc[np++] = piece{d, cp * t->s[v], t->a[v], "buffer of vector", v};
                if (model_valid && (cp != mv[v].cap || n != mv[v].size))
                    return harness_fail("model-mismatch", "after %s: v%d has size %zu capacity %zu, the reference model says %zu / %zu",
                                        gop_name(op).c_str(), v, n, cp, mv[v].size, mv[v].cap);
                for (std::size_t i = 0; i != n; ++i)
                    for (std::size_t j = 0; j != t->s[v]; ++j)
                        if (d[i * t->s[v] + j] != pat(vcode(v, i), j))
                            return fail("content-corrupted", "after %s: element %zu of v%d (joint memory offset %ld) byte %zu is 0x%02x, expected 0x%02x",
                                        gop_name(op).c_str(), i, v, long(d - mem), j, d[i * t->s[v] + j], pat(vcode(v, i), j));
            }
            for (int k = 0; k != narr; ++k)
            {
                auto* ar = reinterpret_cast<garr*>(arrst[k]);
                pc[np++] = piece{reinterpret_cast<const u8*>(ar->data()), ar->size(), 1, "joint_array", k};
                elems += ar->size();
                if (ar->size() != 3)
                    return fail("content-corrupted", "after %s: joint_array #%d reports %zu elements", gop_name(op).c_str(), k, ar->size());
                for (std::size_t i = 0; i != 3; ++i)
                    if (reinterpret_cast<const u8*>(ar->data())[i] != pat(DEFCODE, 0))
                        return fail("content-corrupted", "after %s: element %zu of joint_array #%d was overwritten", gop_name(op).c_str(), i, k);
            }
            for (int k = 0; k != np; ++k)
            {
                if (pc[k].p < mem || pc[k].p > end || std::size_t(end - pc[k].p) < pc[k].n)
                    return fail("piece-outside-block", "after %s: %s %d is [%ld,%ld) but the joint memory is [0,%zu)", gop_name(op).c_str(),
                                pc[k].what, pc[k].idx, long(pc[k].p - mem), long(pc[k].p - mem) + long(pc[k].n), cap);
                if (reinterpret_cast<std::uintptr_t>(pc[k].p) % pc[k].al != 0)
                    return fail("piece-misaligned", "after %s: %s %d with alignment %zu is at address %% %zu == %zu", gop_name(op).c_str(),
                                pc[k].what, pc[k].idx, pc[k].al, pc[k].al, std::size_t(reinterpret_cast<std::uintptr_t>(pc[k].p) % pc[k].al));
                for (int l = 0; l != k; ++l)
                    if (pc[k].n && pc[l].n && pc[k].p < pc[l].p + pc[l].n && pc[l].p < pc[k].p + pc[k].n)
                        return fail("pieces-overlap", "after %s: %s %d [%ld,%ld) overlaps live %s %d [%ld,%ld) (joint memory offsets)",
                                    gop_name(op).c_str(), pc[k].what, pc[k].idx, long(pc[k].p - mem), long(pc[k].p - mem) + long(pc[k].n),
                                    pc[l].what, pc[l].idx, long(pc[l].p - mem), long(pc[l].p - mem) + long(pc[l].n));
            }
            for (int k = 0; k != nraw; ++k)
                for (std::size_t j = 0; j != raws[k].size; ++j)
                    if (raws[k].p[j] != pat(raws[k].code, j))
                        return fail("content-corrupted", "after %s: byte %zu of live raw node %d [%ld,+%zu) is 0x%02x, expected 0x%02x",
                                    gop_name(op).c_str(), j, k, long(raws[k].p - mem), raws[k].size, raws[k].p[j], pat(raws[k].code, j));
            if (g_live_in_arena != long(elems) || g_live_outside != 0)
                return fail("element-balance", "after %s: %ld elements alive in joint memory (+%ld outside), the containers hold %zu",
                            gop_name(op).c_str(), g_live_in_arena, g_live_outside, elems);
            const upstream& u = g_up[c.up];
            long            w;
            if (u.n_alloc != 1 || u.n_dealloc != 0 || g_up[1 - c.up].n_alloc != 0)
                return fail("upstream-allocation-count", "after %s: the upstream saw %ld allocations and %ld releases, expected 1 and 0",
                            gop_name(op).c_str(), u.n_alloc, u.n_dealloc);
            if (!u.guards_ok(u.blk[0], &w))
                return fail("guard-damaged", "after %s: byte at offset %ld of the block (size %zu) was overwritten", gop_name(op).c_str(), w,
                            u.blk[0].size);
        }

        void outcome_vs_model(int op, int threw, bool fits, const char* what)
        {
            if (threw == 2)
                return fail("wrong-exception", "%s threw something that is not out_of_fixed_memory", what);
            if (!model_valid)
                return;
            if (threw && fits)
                return harness_fail("model-mismatch", "%s threw out_of_fixed_memory although it fits the reference model (top %zu of %zu)", what,
                                    mtop, cap);
            if (!threw && !fits)
            {
                // not a verdict by itself: the physical checks decide whether the piece really had room
                ++g_gs.succeeded_beyond_model;
                model_valid = false;
            }
            (void)op;
        }

        bool apply(int op)
        {
            ++g_gs.ops;
            last_threw = false;
            int pre    = pre_class();
            int threw  = 0;
            if (op < 2)
            {
                int         v = op;
                const u8*   d;
                std::size_t n, cp;
                t->vlook(slot, v, &d, &n, &cp);
                if (cp >= MAXVCAP)
                    return false;
                try
                {
                    std::size_t guard = 0;
                    do
                    {
                        t->push(slot, v, vcode(v, n));
                        ++n;
                    } while (n <= cp && ++guard < 64);
                }
                catch (const fm::out_of_fixed_memory&)
                {
                    threw = 1;
                }
                catch (...)
                {
                    threw = 2;
                }
                bool fits = true;
                if (model_valid)
                {
                    std::size_t c0 = mv[v].cap, nc = c0 + (c0 > 1 ? c0 : 1);
                    long        o  = m_alloc(nc * t->s[v], t->a[v]);
                    fits           = o >= 0;
                    if (fits)
                    {
                        if (c0 && !m_dealloc(mv[v].off, c0 * t->s[v]))
                            ++g_gs.vector_release_not_last;
                        mv[v] = mvec{o, nc, c0 + 1};
                    }
                    else
                        mv[v].size = c0;
                }
                if (threw)
                    ++g_gs.growth_refused;
                else
                    ++g_gs.reallocations;
                outcome_vs_model(op, threw, fits, "push_back");
            }
            else if (op < 4)
            {
                int v = op - 2;
                try
                {
                    t->shrink(slot, v);
                }
                catch (...)
                {
                    threw = 2; // libstdc++ swallows a failing reallocation in shrink_to_fit
                }
                if (model_valid && mv[v].size != mv[v].cap)
                {
                    if (mv[v].size == 0)
                    {
                        m_dealloc(mv[v].off, mv[v].cap * t->s[v]);
                        mv[v] = mvec{-1, 0, 0};
                    }
                    else
                    {
                        long o = m_alloc(mv[v].size * t->s[v], t->a[v]);
                        if (o >= 0)
                        {
                            if (!m_dealloc(mv[v].off, mv[v].cap * t->s[v]))
                                ++g_gs.vector_release_not_last;
                            mv[v].off = o, mv[v].cap = mv[v].size;
                        }
                    }
                }
                ++g_gs.shrinks;
                if (threw)
                    fail("wrong-exception", "shrink_to_fit threw");
            }
            else if (op < 4 + NRAWSZ)
            {
                if (nraw == MAXRAW)
                    return false;
                std::size_t size = g_rawsz[op - 4][0], al = g_rawsz[op - 4][1];
                void*       p    = nullptr;
                try
                {
                    p = t->alloc(slot, size, al);
                }
                catch (const fm::out_of_fixed_memory&)
                {
                    threw = 1;
                }
                catch (...)
                {
                    threw = 2;
                }
                bool fits = true;
                if (model_valid)
                    fits = m_alloc(size, al) >= 0;
                outcome_vs_model(op, threw, fits, "joint_allocator::allocate_node");
                if (!threw)
                {
                    if (!p)
                        return fail("piece-null", "allocate_node returned a null pointer"), true;
                    raw& r = raws[nraw++];
                    r      = raw{static_cast<u8*>(p), size, al, u8(0x9B + 29 * ++rawserial)};
                    // only write into it when it really lies inside the block; the check below reports it otherwise
                    if (r.p >= mem && r.p <= mem + cap && std::size_t(mem + cap - r.p) >= size)
                        for (std::size_t j = 0; j != size; ++j)
                            r.p[j] = pat(r.code, j);
                    ++g_gs.raw_allocs;
                }
                else
                    ++g_gs.raw_refused;
            }
            else if (op < 4 + NRAWSZ + MAXRAW)
            {
                int k = op - 4 - NRAWSZ;
                if (k >= nraw)
                    return false;
                raw r = raws[k];
                t->dealloc(slot, r.p, r.size, r.align);
                if (model_valid)
                {
                    if (m_dealloc(long(r.p - mem), r.size))
                        ++g_gs.raw_releases_last;
                    else
                        ++g_gs.raw_releases_not_last;
                }
                for (int j = k; j + 1 < nraw; ++j)
                    raws[j] = raws[j + 1];
                --nraw;
            }
            else
            {
                if (narr == MAXARR)
                    return false;
                try
                {
                    t->mkarray(slot, arrst[narr]);
                }
                catch (const fm::out_of_fixed_memory&)
                {
                    threw = 1;
                }
                catch (...)
                {
                    threw = 2;
                }
                bool fits = true;
                if (model_valid)
                    fits = m_alloc(3, 1) >= 0;
                outcome_vs_model(op, threw, fits, "joint_array(3, *p)");
                if (!threw)
                    ++narr, ++g_gs.arrays;
                else
                    ++g_gs.arrays_refused;
            }
            last_threw = threw == 1;
            note(op, pre, threw ? 1 : 0);
            check(op);
            if (verbose)
                std::printf("  %-62s -> %s%s\n", gop_name(op).c_str(), last_threw ? "threw out_of_fixed_memory; " : "",
                            g_fail.set ? g_fail.tag : describe().c_str());
            return true;
        }

        std::string describe()
        {
            std::string s;
            for (int v = 0; v != 2; ++v)
            {
                const u8*   d;
                std::size_t n, cp;
                t->vlook(slot, v, &d, &n, &cp);
                s += cp ? fmt("v%d=[%ld,+%zu) %zu/%zu ", v, long(d - mem), cp * t->s[v], n, cp) : fmt("v%d=empty ", v);
            }
            for (int k = 0; k != nraw; ++k)
                s += fmt("raw%d=[%ld,+%zu) ", k, long(raws[k].p - mem), raws[k].size);
            for (int k = 0; k != narr; ++k)
                s += fmt("arr%d=[%ld,+3) ", k, long(reinterpret_cast<const u8*>(reinterpret_cast<garr*>(arrst[k])->data()) - mem));
            return s + fmt("(model top %zu of %zu)", mtop, cap);
        }

        void teardown()
        {
            if (g_fail.set || !created)
                return;
            while (narr)
                reinterpret_cast<garr*>(arrst[--narr])->~garr();
            t->destroy(slot);
            created = false;
            if (g_fail.set)
                return;
            const upstream& u = g_up[c.up];
            if (u.n_alloc != 1 || u.n_dealloc != 1 || u.blk[0].live)
                return fail("block-not-released", "at the end the upstream saw %ld allocations and %ld releases", u.n_alloc, u.n_dealloc);
            if (g_live_in_arena != 0 || g_live_outside != 0)
                return fail("element-balance", "at the end %ld elements are still alive", g_live_in_arena + g_live_outside);
        }
    };
    grow_runner g_grun;

    int grow_run(const grow_case& c, const int* ops, int n, bool verbose, std::string* tag, std::string* detail)
    {
        int           out     = OUT_OK;
        volatile bool skipped = false;
        VERIF_GUARDED(out, {
            g_grun.begin(&g_gtypes[c.gtype], c, verbose);
            for (int k = 0; k != n && !g_fail.set; ++k)
                if (!g_grun.apply(ops[k]))
                {
                    skipped = true;
                    break;
                }
            g_grun.teardown();
        });
        if (out != OUT_OK && !g_fail.set)
            fail(out == OUT_ABORTED ? "aborted" : out == OUT_CRASHED ? "crashed" : "hung",
                 "the library %s during a sequence that respects every documented precondition", outcome_name(out));
        if (g_fail.set)
        {
            *tag    = g_fail.tag;
            *detail = g_fail.detail;
            return g_fail.harness ? RES_HARNESS : RES_VIOLATION;
        }
        return skipped ? RES_SKIPPED : RES_OK;
    }

    std::string grow_json(const grow_case& c, const int* ops, int n)
    {
        jarr a, names;
        for (int i = 0; i != n; ++i)
            a.raw(std::to_string(ops[i])), names.str(gop_name(ops[i]));
        return jobj()
            .str("mode", "grow")
            .str("type", gtype_name(c.gtype))
            .num("up", c.up)
            .num("add", (long long)c.add)
            .raw("ops", a.done())
            .raw("text", names.done())
            .done();
    }

    bool grow_one(const grow_case& c, const int* ops, int n)
    {
        std::string tag, detail;
        int         res = grow_run(c, ops, n, false, &tag, &detail);
        ++g_gs.sequences;
        if (res == RES_SKIPPED)
            ++g_gs.skipped;
        if (res == RES_VIOLATION || res == RES_HARNESS)
        {
            std::string tag2, detail2;
            int         res2 = grow_run(c, ops, n, false, &tag2, &detail2);
            if (res2 != res || tag2 != tag)
            {
                if (g_tot.herr.size() < 20)
                    g_tot.herr.push_back(fmt("verdict not reproducible for %s: first [%s] then [%s]", grow_json(c, ops, n).c_str(), tag.c_str(),
                                             res2 == RES_OK ? "ok" : tag2.c_str()));
            }
            else if (res == RES_HARNESS)
            {
                if (g_tot.herr.size() < 20)
                    g_tot.herr.push_back(fmt("[%s] %s; case %s", tag.c_str(), detail.c_str(), grow_json(c, ops, n).c_str()));
            }
            else
            {
                ++g_gs.violations_total;
                bool seen = false;
                for (auto& s : g_tot.seen_tags)
                    seen = seen || s == tag;
                if (!seen)
                {
                    g_tot.seen_tags.push_back(tag);
                    g_tot.viol.push_back(
                        jobj().str("tag", tag).str("detail", gtype_name(c.gtype) + ": " + detail).raw("input", grow_json(c, ops, n)).done());
                }
            }
        }
        return res == RES_SKIPPED;
    }

    constexpr u64 GROW_VIOLATION_CAP = 2000;
    void grow_dfs(const grow_case& c, int* ops, int len, int depth)
    {
        for (int op = 0; op != GOPS; ++op)
        {
            if (g_gs.violations_total >= GROW_VIOLATION_CAP)
                return; // the check has failed anyway; the result is marked as not exhaustive
            ops[len]     = op;
            bool skipped = grow_one(c, ops, len + 1);
            if (g_tot.samples.size() < 6 && len + 1 == depth && !skipped && (g_gs.sequences % 4099) == 0)
                g_tot.samples.push_back(grow_json(c, ops, len + 1));
            if (!skipped && len + 1 < depth)
                grow_dfs(c, ops, len + 1, depth);
        }
    }

    const grow_case g_gcases[] = {{0, 0, 72}, {0, 1, 40}, {1, 0, 72}, {1, 1, 40}, {2, 0, 72}, {2, 1, 40}};

    void enumerate_grow(int depth, long part, long of)
    {
        long unit = 0;
        for (auto& gc : g_gcases)
            for (int first = 0; first != GOPS; ++first, ++unit)
            {
                if (unit % of != part)
                    continue;
                int ops[12];
                ops[0]       = first;
                bool skipped = grow_one(gc, ops, 1);
                if (!skipped && depth > 1)
                    grow_dfs(gc, ops, 1, depth);
            }
    }

    //=== (H) container assignment between the vector members of TWO joint objects ===//
    constexpr int COPS = 14, CMAXCODES = 40;
    std::string   cop_name(int op)
    {
        const char* o[2] = {"X", "Y"};
        if (op < 4)
            return fmt("%s.v%d = std::move(%s.v%d)", o[op / 2], op % 2, o[1 - op / 2], op % 2);
        if (op < 8)
            return fmt("%s.v%d = %s.v%d", o[(op - 4) / 2], op % 2, o[1 - (op - 4) / 2], op % 2);
        if (op < 12)
            return fmt("push_back on %s.v%d until it reallocates", o[(op - 8) / 2], op % 2);
        return fmt("joint_ptr of %s .reset()", o[op - 12]);
    }

    struct cross_case
    {
        int         gtype;
        std::size_t add[2]; // X lives in a block of upstream A, Y in a block of upstream B
    };

    struct cross_stats
    {
        u64 sequences = 0, skipped = 0, ops = 0, move_assign_ok = 0, copy_assign_ok = 0, assign_refused = 0, assign_reallocated = 0,
            assign_in_place = 0, reallocations = 0, growth_refused = 0, resets = 0, assign_after_which_source_was_reset = 0,
            succeeded_beyond_model = 0, violations_total = 0;
    };
    cross_stats g_cs;
    std::vector<u8> g_cseen;
    u64             g_cdistinct = 0;

    struct cross_runner
    {
        const grow_ops* t;
        cross_case      c;
        struct cvec
        {
            long        off;
            std::size_t cap, size;
            u8          codes[CMAXCODES];
        };
        struct cobj
        {
            alignas(16) u8 slot[SLOT_BYTES];
            bool        alive, created;
            const u8*   mem;
            std::size_t cap, mtop;
            cvec        mv[2];
            bool        was_assign_target;
        } o[2];
        bool model_valid, verbose, last_threw;
        int  serial;

        long m_alloc(cobj& ob, std::size_t size, std::size_t al)
        {
            std::uintptr_t base = reinterpret_cast<std::uintptr_t>(ob.mem);
            std::uintptr_t top = base + ob.mtop, end = base + ob.cap, a = (top + al - 1) / al * al;
            if (a > end || size > end - a)
                return -1;
            ob.mtop = std::size_t(a + size - base);
            return long(a - base);
        }
        void m_dealloc(cobj& ob, long off, std::size_t size)
        {
            if (std::size_t(off) + size == ob.mtop)
                ob.mtop = std::size_t(off);
        }

        void begin(const grow_ops* tt, const cross_case& cc, bool verb)
        {
            t = tt, c = cc, verbose = verb;
            for (int u = 0; u != 2; ++u)
            {
                std::size_t used = g_up[u].top + 64 < ARENA ? g_up[u].top + 64 : ARENA;
                std::memset(g_livemap[u], 0, used);
                g_up[u].reset(u, u == 0 ? 0 : 8);
            }
            g_live_in_arena = g_live_outside = 0;
            g_fail.set                       = false;
            g_throw_at                       = 0;
            g_sizeofT                        = t->sizeofT;
            model_valid                      = true;
            serial                           = 0;
            o[0].created = o[1].created = o[0].alive = o[1].alive = false;
            for (int k = 0; k != 2; ++k)
            {
                t->create(o[k].slot, g_up[k], c.add[k]);
                o[k].created = o[k].alive = true;
                const block& b            = g_up[k].blk[0];
                o[k].mem                  = b.addr + t->sizeofT;
                o[k].cap                  = b.size - t->sizeofT;
                o[k].mtop                 = 0;
                o[k].was_assign_target    = false;
                for (int v = 0; v != 2; ++v)
                    o[k].mv[v].off = -1, o[k].mv[v].cap = o[k].mv[v].size = 0;
                if (g_up[k].n_alloc != 1 || b.size != t->sizeofT + c.add[k] || b.align != t->alignofT)
                    fail("allocation-size", "allocate_joint asked upstream %c for %zu bytes alignment %zu", 'A' + k, b.size, b.align);
            }
        }

        int pre_class() const
        {
            auto capc = [](std::size_t cp) { return cp == 0 ? 0 : cp == 1 ? 1 : cp == 2 ? 2 : cp <= 4 ? 3 : cp <= 8 ? 4 : 5; };
            int  r    = 0;
            for (int k = 0; k != 2; ++k)
                r = r * 37 + (o[k].alive ? 1 + capc(o[k].mv[0].cap) * 6 + capc(o[k].mv[1].cap) : 0);
            return r; // < 37*37
        }
        void note(int op, int pre, int outcome)
        {
            std::size_t idx = ((std::size_t(c.gtype) * COPS + std::size_t(op)) * 1369 + std::size_t(pre)) * 3 + std::size_t(outcome);
            u8          bit = u8(1u << (idx & 7));
            if (!(g_cseen[idx >> 3] & bit))
            {
                g_cseen[idx >> 3] |= bit;
                ++g_cdistinct;
            }
        }

        void check(int op)
        {
            if (g_fail.set)
                return;
            std::size_t elems = 0;
            const char* nm[2] = {"X", "Y"};
            for (int k = 0; k != 2; ++k)
            {
                const upstream& u = g_up[k];
                long            w;
                if (u.n_alloc != 1 || u.n_dealloc != (o[k].alive ? 0 : 1))
                    return fail("upstream-release-count", "after %s: upstream %c saw %ld allocations and %ld releases, expected 1 and %d",
                                cop_name(op).c_str(), 'A' + k, u.n_alloc, u.n_dealloc, o[k].alive ? 0 : 1);
                if (!u.guards_ok(u.blk[0], &w))
                    return fail("guard-damaged", "after %s: byte at offset %ld of the block of %s (size %zu) was overwritten",
                                cop_name(op).c_str(), w, nm[k], u.blk[0].size);
                if (!o[k].alive)
                    continue;
                const u8*   pd[2];
                std::size_t pn[2];
                for (int v = 0; v != 2; ++v)
                {
                    const u8*   d;
                    std::size_t n, cp;
                    t->vlook(o[k].slot, v, &d, &n, &cp);
                    pd[v] = d, pn[v] = cp * t->s[v];
                    elems += n;
                    if (cp)
                    {
                        if (!d)
                            return fail("piece-null", "after %s: %s.v%d has capacity %zu but a null buffer", cop_name(op).c_str(), nm[k], v, cp);
                        const u8* end = o[k].mem + o[k].cap;
                        if (d < o[k].mem || d > end || std::size_t(end - d) < pn[v])
                        {
                            const cobj& other = o[1 - k];
                            bool        in_other = d >= other.mem && d <= other.mem + other.cap;
                            return fail("piece-outside-block",
                                        "after %s: the buffer of %s.v%d (%zu bytes) does not lie in the joint memory of %s's own block%s",
                                        cop_name(op).c_str(), nm[k], v, pn[v], nm[k],
                                        in_other ? (other.alive ? " but in the block of the other object" :
                                                                  " but in the RELEASED block of the other object") :
                                                   "");
                        }
                        if (reinterpret_cast<std::uintptr_t>(d) % t->a[v] != 0)
                            return fail("piece-misaligned", "after %s: the buffer of %s.v%d is misaligned", cop_name(op).c_str(), nm[k], v);
                    }
                    if (!t->valloc_own(o[k].slot, v))
                        return fail("allocator-propagated",
                                    "after %s: get_allocator() of %s.v%d no longer refers to the joint memory of %s (a joint_allocator must "
                                    "not propagate between objects)",
                                    cop_name(op).c_str(), nm[k], v, nm[k]);
                    if (model_valid && (cp != o[k].mv[v].cap || n != o[k].mv[v].size))
                        return harness_fail("model-mismatch", "after %s: %s.v%d has size %zu capacity %zu, the reference model says %zu / %zu",
                                            cop_name(op).c_str(), nm[k], v, n, cp, o[k].mv[v].size, o[k].mv[v].cap);
                    if (model_valid)
                        for (std::size_t i = 0; i != n; ++i)
                            for (std::size_t j = 0; j != t->s[v]; ++j)
                                if (d[i * t->s[v] + j] != pat(o[k].mv[v].codes[i], j))
                                    return fail("content-corrupted", "after %s: element %zu of %s.v%d byte %zu is 0x%02x, expected 0x%02x",
                                                cop_name(op).c_str(), i, nm[k], v, j, d[i * t->s[v] + j], pat(o[k].mv[v].codes[i], j));
                }
                if (pn[0] && pn[1] && pd[0] < pd[1] + pn[1] && pd[1] < pd[0] + pn[0])
                    return fail("pieces-overlap", "after %s: the buffers of %s.v0 and %s.v1 overlap", cop_name(op).c_str(), nm[k], nm[k]);
            }
            if (g_live_in_arena != long(elems) || g_live_outside != 0)
                return fail("element-balance", "after %s: %ld elements alive in joint memory (+%ld outside), the containers hold %zu",
                            cop_name(op).c_str(), g_live_in_arena, g_live_outside, elems);
        }

        void outcome_vs_model(int threw, bool fits, const char* what)
        {
            if (threw == 2)
                return fail("wrong-exception", "%s threw something that is not out_of_fixed_memory", what);
            if (!model_valid)
                return;
            if (threw && fits)
                return harness_fail("model-mismatch", "%s threw out_of_fixed_memory although it fits the reference model", what);
            if (!threw && !fits)
            {
                ++g_cs.succeeded_beyond_model; // the physical checks decide
                model_valid = false;
            }
        }

        bool apply(int op)
        {
            ++g_cs.ops;
            last_threw = false;
            int pre = pre_class(), threw = 0;
            if (op < 8)
            {
                bool  mv_ = op < 4;
                int   d = (op % 4) / 2, v = op % 2;
                cobj &dst = o[d], &src = o[1 - d];
                if (!dst.alive || !src.alive)
                    return false;
                try
                {
                    t->vassign(dst.slot, src.slot, v, mv_);
                }
                catch (const fm::out_of_fixed_memory&)
                {
                    threw = 1;
                }
                catch (...)
                {
                    threw = 2;
                }
                bool fits = true;
                if (model_valid)
                {
                    cvec &dv = dst.mv[v], &sv = src.mv[v];
                    if (sv.size > dv.cap)
                    {
                        long off = m_alloc(dst, sv.size * t->s[v], t->a[v]);
                        fits     = off >= 0;
                        if (fits)
                        {
                            if (dv.cap)
                                m_dealloc(dst, dv.off, dv.cap * t->s[v]);
                            dv.off = off, dv.cap = sv.size;
                            ++g_cs.assign_reallocated;
                        }
                    }
                    else
                        ++g_cs.assign_in_place;
                    if (fits)
                    {
                        dv.size = sv.size;
                        std::memcpy(dv.codes, sv.codes, sv.size);
                        if (mv_)
                            sv.size = 0;
                    }
                }
                if (threw)
                    ++g_cs.assign_refused;
                else
                    ++(mv_ ? g_cs.move_assign_ok : g_cs.copy_assign_ok), dst.was_assign_target = true;
                outcome_vs_model(threw, fits, mv_ ? "container move assignment" : "container copy assignment");
            }
            else if (op < 12)
            {
                int   k = (op - 8) / 2, v = op % 2;
                cobj& ob = o[k];
                if (!ob.alive)
                    return false;
                const u8*   d;
                std::size_t n, cp;
                t->vlook(ob.slot, v, &d, &n, &cp);
                if (cp >= MAXVCAP || n + 1 >= CMAXCODES)
                    return false;
                std::size_t pushed = 0;
                u8          codes[CMAXCODES];
                try
                {
                    do
                    {
                        u8 code = u8(0x21 + 7 * ++serial);
                        t->push(ob.slot, v, code);
                        codes[pushed++] = code;
                        ++n;
                    } while (n <= cp && pushed < 32);
                }
                catch (const fm::out_of_fixed_memory&)
                {
                    threw = 1;
                }
                catch (...)
                {
                    threw = 2;
                }
                bool fits = true;
                if (model_valid)
                {
                    cvec&       m  = ob.mv[v];
                    std::size_t c0 = m.cap, nc = c0 + (c0 > 1 ? c0 : 1);
                    long        off = m_alloc(ob, nc * t->s[v], t->a[v]);
                    fits            = off >= 0;
                    for (std::size_t i = 0; i != pushed && m.size < CMAXCODES; ++i)
                        m.codes[m.size++] = codes[i];
                    if (fits)
                    {
                        if (c0)
                            m_dealloc(ob, m.off, c0 * t->s[v]);
                        m.off = off, m.cap = nc;
                    }
                }
                if (threw)
                    ++g_cs.growth_refused;
                else
                    ++g_cs.reallocations;
                outcome_vs_model(threw, fits, "push_back");
            }
            else
            {
                int k = op - 12;
                if (!o[k].alive)
                    return false;
                t->reset(o[k].slot);
                o[k].alive = false;
                ++g_cs.resets;
                if (o[1 - k].alive && o[1 - k].was_assign_target)
                    ++g_cs.assign_after_which_source_was_reset;
            }
            last_threw = threw == 1;
            note(op, pre, threw ? 1 : 0);
            check(op);
            if (verbose)
                std::printf("  %-44s -> %s%s\n", cop_name(op).c_str(), last_threw ? "threw out_of_fixed_memory; " : "",
                            g_fail.set ? g_fail.tag : describe().c_str());
            return true;
        }

        std::string describe()
        {
            std::string s;
            for (int k = 0; k != 2; ++k)
            {
                if (!o[k].alive)
                {
                    s += fmt("%c: released  ", 'X' + k);
                    continue;
                }
                s += fmt("%c(%zu bytes):", 'X' + k, o[k].cap);
                for (int v = 0; v != 2; ++v)
                {
                    const u8*   d;
                    std::size_t n, cp;
                    t->vlook(o[k].slot, v, &d, &n, &cp);
                    s += cp ? fmt(" v%d=[%ld,+%zu) %zu/%zu", v, long(d - o[k].mem), cp * t->s[v], n, cp) : fmt(" v%d=empty", v);
                }
                s += "  ";
            }
            return s;
        }

        void teardown()
        {
            if (g_fail.set)
                return;
            for (int k = 0; k != 2; ++k)
            {
                if (o[k].alive)
                {
                    t->reset(o[k].slot);
                    o[k].alive = false;
                    check(12 + k); // the other object must be intact after this one is gone
                    if (g_fail.set)
                        return;
                }
            }
            for (int k = 0; k != 2; ++k)
                if (o[k].created)
                    t->destroy(o[k].slot), o[k].created = false;
            if (g_live_in_arena != 0 || g_live_outside != 0)
                return fail("element-balance", "at the end %ld elements are still alive", g_live_in_arena + g_live_outside);
            for (int k = 0; k != 2; ++k)
                if (g_up[k].n_alloc != 1 || g_up[k].n_dealloc != 1)
                    return fail("block-not-released", "at the end upstream %c saw %ld allocations and %ld releases", 'A' + k, g_up[k].n_alloc,
                                g_up[k].n_dealloc);
        }
    };
    cross_runner g_crun;

    int cross_run(const cross_case& c, const int* ops, int n, bool verbose, std::string* tag, std::string* detail)
    {
        int           out     = OUT_OK;
        volatile bool skipped = false;
        VERIF_GUARDED(out, {
            g_crun.begin(&g_gtypes[c.gtype], c, verbose);
            for (int k = 0; k != n && !g_fail.set; ++k)
                if (!g_crun.apply(ops[k]))
                {
                    skipped = true;
                    break;
                }
            g_crun.teardown();
        });
        if (out != OUT_OK && !g_fail.set)
            fail(out == OUT_ABORTED ? "aborted" : out == OUT_CRASHED ? "crashed" : "hung",
                 "the library %s during a sequence that respects every documented precondition", outcome_name(out));
        if (g_fail.set)
        {
            *tag    = g_fail.tag;
            *detail = g_fail.detail;
            return g_fail.harness ? RES_HARNESS : RES_VIOLATION;
        }
        return skipped ? RES_SKIPPED : RES_OK;
    }

    std::string cross_json(const cross_case& c, const int* ops, int n)
    {
        jarr a, names;
        for (int i = 0; i != n; ++i)
            a.raw(std::to_string(ops[i])), names.str(cop_name(ops[i]));
        return jobj()
            .str("mode", "cross")
            .str("type", gtype_name(c.gtype))
            .num("addx", (long long)c.add[0])
            .num("addy", (long long)c.add[1])
            .raw("ops", a.done())
            .raw("text", names.done())
            .done();
    }

    constexpr u64 CROSS_VIOLATION_CAP = 2000;
    bool          cross_one(const cross_case& c, const int* ops, int n)
    {
        std::string tag, detail;
        int         res = cross_run(c, ops, n, false, &tag, &detail);
        ++g_cs.sequences;
        if (res == RES_SKIPPED)
            ++g_cs.skipped;
        if (res == RES_VIOLATION || res == RES_HARNESS)
        {
            std::string tag2, detail2;
            int         res2 = cross_run(c, ops, n, false, &tag2, &detail2);
            if (res2 != res || tag2 != tag)
            {
                if (g_tot.herr.size() < 20)
                    g_tot.herr.push_back(fmt("verdict not reproducible for %s: first [%s] then [%s]", cross_json(c, ops, n).c_str(), tag.c_str(),
                                             res2 == RES_OK ? "ok" : tag2.c_str()));
            }
            else if (res == RES_HARNESS)
            {
                if (g_tot.herr.size() < 20)
                    g_tot.herr.push_back(fmt("[%s] %s; case %s", tag.c_str(), detail.c_str(), cross_json(c, ops, n).c_str()));
            }
            else
            {
                ++g_cs.violations_total;
                bool seen = false;
                for (auto& s : g_tot.seen_tags)
                    seen = seen || s == tag;
                if (!seen)
                {
                    g_tot.seen_tags.push_back(tag);
                    g_tot.viol.push_back(
                        jobj().str("tag", tag).str("detail", gtype_name(c.gtype) + ": " + detail).raw("input", cross_json(c, ops, n)).done());
                }
            }
        }
        return res == RES_SKIPPED;
    }

    void cross_dfs(const cross_case& c, int* ops, int len, int depth)
    {
        for (int op = 0; op != COPS; ++op)
        {
            if (g_cs.violations_total >= CROSS_VIOLATION_CAP)
                return;
            ops[len]     = op;
            bool skipped = cross_one(c, ops, len + 1);
            if (g_tot.samples.size() < 6 && len + 1 == depth && !skipped && (g_cs.sequences % 4099) == 0)
                g_tot.samples.push_back(cross_json(c, ops, len + 1));
            if (!skipped && len + 1 < depth)
                cross_dfs(c, ops, len + 1, depth);
        }
    }

    // X small / Y large (assignments into X overflow), both roomy, X large / Y small
    const cross_case g_ccases[] = {{0, {6, 96}}, {0, {64, 64}}, {1, {6, 96}}, {1, {20, 96}}, {2, {20, 96}}, {2, {96, 6}}};

    void enumerate_cross(int depth, long part, long of)
    {
        long unit = 0;
        for (auto& cc : g_ccases)
            for (int first = 0; first != COPS; ++first, ++unit)
            {
                if (unit % of != part)
                    continue;
                int ops[12];
                ops[0]       = first;
                bool skipped = cross_one(cc, ops, 1);
                if (!skipped && depth > 1)
                    cross_dfs(cc, ops, 1, depth);
            }
    }

    int grow_replay(const char* js);
#endif

    //=== tiny parser for the replay input ===//
    long json_num(const char* js, const char* key, long def)
    {
        std::string k = std::string("\"") + key + "\"";
        const char* p = std::strstr(js, k.c_str());
        if (!p)
            return def;
        p = std::strchr(p + k.size(), ':');
        return p ? std::strtol(p + 1, nullptr, 10) : def;
    }
    std::string json_str(const char* js, const char* key)
    {
        std::string k = std::string("\"") + key + "\"";
        const char* p = std::strstr(js, k.c_str());
        if (!p)
            return "";
        p = std::strchr(p + k.size(), ':');
        if (!p)
            return "";
        p = std::strchr(p, '"');
        if (!p)
            return "";
        const char* e = std::strchr(p + 1, '"');
        return e ? std::string(p + 1, e) : "";
    }

    int parse_ops(const char* js, int* ops, int max, int limit)
    {
        int         n = 0;
        const char* p = std::strstr(js, "\"ops\"");
        if (p && (p = std::strchr(p, '[')))
        {
            ++p;
            while (*p && *p != ']' && n < max)
            {
                char* e;
                long  v = std::strtol(p, &e, 10);
                if (e == p)
                    break;
                if (v < 0 || v >= limit)
                {
                    std::printf("bad operation code %ld\n", v);
                    return -1;
                }
                ops[n++] = int(v);
                p        = e;
                while (*p == ',' || *p == ' ')
                    ++p;
            }
        }
        return n;
    }

#ifdef VERIF_JOINT_EXT
    int cross_replay(const char* js)
    {
        std::string tn = json_str(js, "type");
        int         g  = -1;
        for (int k = 0; k != NGTYPES; ++k)
            if (gtype_name(k) == tn)
                g = k;
        if (g < 0)
        {
            std::printf("unknown type '%s'\n", tn.c_str());
            return 2;
        }
        cross_case c{g, {std::size_t(json_num(js, "addx", 0)), std::size_t(json_num(js, "addy", 0))}};
        int        ops[64];
        int        n = parse_ops(js, ops, 64, COPS);
        if (n < 0 || c.add[0] > 1024 || c.add[1] > 1024)
            return 2;
        std::printf("two joint objects with two vector<_, joint_allocator> members each (%s): X with %zu additional bytes in a block of "
                    "upstream A, Y with %zu in a block of upstream B; offsets are relative to the object's own joint memory\n",
                    tn.c_str(), c.add[0], c.add[1]);
        std::string tag, detail;
        int         res = cross_run(c, ops, n, true, &tag, &detail);
        if (res == RES_VIOLATION)
        {
            std::printf("VIOLATION [%s] %s\n", tag.c_str(), detail.c_str());
            return 1;
        }
        if (res == RES_HARNESS)
        {
            std::printf("HARNESS ERROR [%s] %s\n", tag.c_str(), detail.c_str());
            return 3;
        }
        std::printf(res == RES_SKIPPED ? "sequence ends with an operation that is not enabled (skipped)\n" : "no violation\n");
        return 0;
    }

    int grow_replay(const char* js)
    {
        std::string tn = json_str(js, "type");
        int         g  = -1;
        for (int k = 0; k != NGTYPES; ++k)
            if (gtype_name(k) == tn)
                g = k;
        if (g < 0)
        {
            std::printf("unknown type '%s'\n", tn.c_str());
            return 2;
        }
        grow_case c{g, int(json_num(js, "up", 0)) ? 1 : 0, std::size_t(json_num(js, "add", 0))};
        int       ops[64];
        int       n = parse_ops(js, ops, 64, GOPS);
        if (n < 0 || c.add > 1024)
            return 2;
        std::printf("joint object with two vector<_, joint_allocator> members (%s), sizeof(T)=%zu, additional size %zu, block from upstream %c "
                    "(placed at %d mod 16); offsets are relative to the start of the joint memory\n",
                    tn.c_str(), g_gtypes[g].sizeofT, c.add, 'A' + c.up, c.up ? 8 : 0);
        std::string tag, detail;
        int         res = grow_run(c, ops, n, true, &tag, &detail);
        if (res == RES_VIOLATION)
        {
            std::printf("VIOLATION [%s] %s\n", tag.c_str(), detail.c_str());
            return 1;
        }
        if (res == RES_HARNESS)
        {
            std::printf("HARNESS ERROR [%s] %s\n", tag.c_str(), detail.c_str());
            return 3;
        }
        std::printf(res == RES_SKIPPED ? "sequence ends with an operation that is not enabled (skipped)\n" : "no violation\n");
        return 0;
    }
#endif

    int replay(const char* js)
    {
#ifdef VERIF_JOINT_EXT
        if (json_str(js, "mode") == "grow")
            return grow_replay(js);
        if (json_str(js, "mode") == "cross")
            return cross_replay(js);
#endif
        std::string tn = json_str(js, "type");
        std::size_t ti = NTYPES;
        for (std::size_t k = 0; k != NTYPES; ++k)
            if (type_name(k) == tn)
                ti = k;
        if (ti == NTYPES)
        {
            std::printf("unknown type '%s'\n", tn.c_str());
            return 2;
        }
        the_case c{ti, unsigned(json_num(js, "n1", 0)), unsigned(json_num(js, "n2", 0)), std::size_t(json_num(js, "add", 0)), 0};
        if (c.n1 >= MAXN || c.n2 >= MAXN)
        {
            std::printf("counts too large\n");
            return 2;
        }
        c.throw_op = int(json_num(js, "throw_op", -1));
        c.throw_at = json_num(js, "throw_at", 0);
        int ops[64];
        int n = parse_ops(js, ops, 64, NOPS);
        if (n < 0)
            return 2;
        const type_ops& t = g_types[ti];
        std::printf("joint type %s: layout %d (%s), member 1 elements %zu bytes align %zu, member 2 elements %zu bytes align %zu, "
                    "sizeof(T)=%zu alignof(T)=%zu\n",
                    tn.c_str(), t.layout,
                    t.layout == 0 ? "joint_array(size) + joint_array(range)" :
                    t.layout == 1 ? "joint_array(range) + vector(reserve, emplace_back)" :
                    t.layout == 2 ? "vector(n) + joint_array(size, value)" :
                                    "joint_array(initializer_list of 2) + joint_array(size)",
                    t.s1, t.a1, t.s2, t.a2, t.sizeofT, t.alignofT);
        std::printf("object: %u + %u elements, additional size %zu; upstream A places blocks at 0 (mod 16), upstream B at 8 (mod 16)\n",
                    c.n1, c.n2, c.add);
        if (c.throw_op >= 0)
            std::printf("element construction no. %ld during operation %d throws\n", c.throw_at, c.throw_op);
        std::string tag, detail;
        int         res = run_sequence(c, ops, n, true, &tag, &detail);
        if (res == RES_VIOLATION)
        {
            std::printf("VIOLATION [%s] %s\n", tag.c_str(), detail.c_str());
            return 1;
        }
        if (res == RES_HARNESS)
        {
            std::printf("HARNESS ERROR [%s] %s\n", tag.c_str(), detail.c_str());
            return 3;
        }
        std::printf(res == RES_SKIPPED ? "sequence ends with an operation outside the contract (skipped)\n" : "no violation\n");
        return 0;
    }

    void silent_oom(const fm::allocator_info&, std::size_t) noexcept {}
} // namespace

int main(int argc, char** argv)
{
    std::string tier = "quick", out, rep, mode;
    long        part = 0, of = 1, depth = 0;
    for (int i = 1; i < argc; ++i)
    {
        std::string a = argv[i];
        auto        next = [&]() -> const char* { return i + 1 < argc ? argv[++i] : ""; };
        if (a == "--tier")
            tier = next();
        else if (a == "--out")
            out = next();
        else if (a == "--replay")
            rep = next();
        else if (a == "--part")
            part = std::atol(next());
        else if (a == "--of")
            of = std::atol(next());
        else if (a == "--depth")
            depth = std::atol(next());
        else if (a == "--mode")
            mode = next();
    }
    fm::out_of_memory::set_handler(silent_oom);
    install_guards(2000);
    g_seen.assign(NTYPES * NCLS * NOPS * 36 * 3 / 8 + 8, 0);
#ifdef VERIF_JOINT_EXT
    g_gseen.assign(6 * GOPS * 432 * 3 / 8 + 8, 0);
    g_cseen.assign(3 * COPS * 1369 * 3 / 8 + 8, 0);
#endif
    if (!rep.empty())
        return replay(rep.c_str());

    bool   quick = tier != "thorough";
    if (of < 1)
        of = 1;
    double t0 = now_s();
#ifdef VERIF_JOINT_EXT
    // extension TU: --mode throw (element constructors that throw) | grow (histories on one object's joint memory)
    if (depth > 8)
        depth = 8;
    int gdepth = depth > 0 ? int(depth) : (quick ? 5 : 6);
    if (mode == "throw" || mode.empty())
        for (std::size_t ti = 0; ti != NTYPES; ++ti)
            if (long(ti % std::size_t(of)) == part)
                enumerate_throw_type(ti);
    if (mode == "grow" || mode.empty())
        enumerate_grow(gdepth, part, of);
    if (mode == "cross" || mode.empty())
        enumerate_cross(gdepth, part, of);
    double wall = now_s() - t0;
    {
        jarr viol, herr, samples;
        for (auto& v : g_tot.viol)
            viol.raw(v);
        for (auto& e : g_tot.herr)
            herr.str(e);
        for (auto& s : g_tot.samples)
            samples.raw(s);
        jobj extra;
        extra.str("mode", mode.empty() ? "throw+grow" : mode)
            .num("throw_joint_types", (long long)g_tot.types)
            .num("throw_cases", (long long)g_ttot.cases)
            .num("throw_runs", (long long)g_ttot.runs)
            .num("throw_runs_where_a_constructor_threw", (long long)g_ttot.fired)
            .num("throw_exceptions_seen_by_the_caller", (long long)g_stats.ctor_throws)
            .num("element_constructions", (long long)g_elem_ctor)
            .num("element_destructions", (long long)g_elem_dtor)
            .num("grow_depth", (mode == "throw") ? 0 : gdepth)
            .num("grow_alphabet", GOPS)
            .num("grow_sequences", (long long)g_gs.sequences)
            .num("grow_sequences_ending_with_disabled_op", (long long)g_gs.skipped)
            .num("grow_operations", (long long)g_gs.ops)
            .num("vector_reallocations", (long long)g_gs.reallocations)
            .num("vector_growth_refused", (long long)g_gs.growth_refused)
            .num("vector_old_buffer_released_while_not_last", (long long)g_gs.vector_release_not_last)
            .num("shrink_to_fit_calls", (long long)g_gs.shrinks)
            .num("raw_nodes_allocated", (long long)g_gs.raw_allocs)
            .num("raw_nodes_refused", (long long)g_gs.raw_refused)
            .num("raw_releases_of_last_allocation", (long long)g_gs.raw_releases_last)
            .num("raw_releases_of_non_last_allocation", (long long)g_gs.raw_releases_not_last)
            .num("arrays_created", (long long)g_gs.arrays)
            .num("arrays_refused", (long long)g_gs.arrays_refused)
            .num("succeeded_although_reference_model_full", (long long)(g_gs.succeeded_beyond_model + g_cs.succeeded_beyond_model))
            .num("cross_depth", mode == "cross" || mode.empty() ? gdepth : 0)
            .num("cross_alphabet", COPS)
            .num("cross_sequences", (long long)g_cs.sequences)
            .num("cross_sequences_ending_with_disabled_op", (long long)g_cs.skipped)
            .num("cross_operations", (long long)g_cs.ops)
            .num("cross_move_assignments_ok", (long long)g_cs.move_assign_ok)
            .num("cross_copy_assignments_ok", (long long)g_cs.copy_assign_ok)
            .num("cross_assignments_threw_out_of_fixed_memory", (long long)g_cs.assign_refused)
            .num("cross_assignments_that_reallocated_the_target", (long long)g_cs.assign_reallocated)
            .num("cross_assignments_into_existing_capacity", (long long)g_cs.assign_in_place)
            .num("cross_reallocations_by_growth", (long long)g_cs.reallocations)
            .num("cross_growth_refused", (long long)g_cs.growth_refused)
            .num("cross_object_resets", (long long)g_cs.resets)
            .num("cross_other_object_reset_after_assignment", (long long)g_cs.assign_after_which_source_was_reset)
            .num("violating_sequences_total", (long long)(g_tot.violations_total + g_gs.violations_total + g_cs.violations_total));
        long long   evals = (long long)(g_tot.sequences - g_tot.skipped) + (long long)(g_gs.sequences - g_gs.skipped)
                          + (long long)(g_cs.sequences - g_cs.skipped);
        std::string js =
            jobj()
                .num("evaluations", evals)
                .num("distinct_nontrivial", (long long)(g_distinct + g_gdistinct + g_cdistinct))
                .str("rule",
                     "throw: 12 joint types (4 layouts incl. initializer_list, throwing element types) x element counts 0..3 x {exact, "
                     "+16} additional bytes x 6 life cycles x EVERY k: the k-th element construction (default/value/copy/move) of the armed "
                     "operation throws, k = 1..past the last construction; grow: ALL sequences up to the stated depth of 15 operations "
                     "(push_back until reallocation on 2 vectors, shrink_to_fit, joint_allocator::allocate_node of 7 (size,alignment), "
                     "deallocate_node of any live raw node, joint_array) on the joint memory of one object, 3 element-type pairs x 2 "
                     "(upstream, capacity); cross: ALL sequences up to the stated depth of 14 operations on TWO joint objects X (upstream A) "
                     "and Y (upstream B) with two vector members each: X.v = std::move(Y.v), X.v = Y.v in both directions and for both "
                     "members, push_back until reallocation on any of the 4 vectors, reset of either joint_ptr; 6 (element types, "
                     "capacities) cases incl. targets too small for the source; evaluations = sequences completely checked; distinct_nontrivial = distinct (type, class, "
                     "operation, abstract state before it, outcome) tuples")
                .raw("samples", samples.done())
                .boolean("exhaustive", g_gs.violations_total < GROW_VIOLATION_CAP && g_cs.violations_total < CROSS_VIOLATION_CAP)
                .num("excluded", (long long)(g_tot.skipped + g_gs.skipped + g_cs.skipped))
                .dbl("wall_s", wall)
                .raw("violations", viol.done())
                .raw("harness_errors", herr.done())
                .raw("extra", extra.done())
                .done();
        if (out.empty())
            std::printf("%s\n", js.c_str());
        else
        {
            FILE* f = std::fopen(out.c_str(), "w");
            if (!f)
                return 2;
            std::fputs(js.c_str(), f);
            std::fputc('\n', f);
            std::fclose(f);
        }
        return 0;
    }
#else
    if (depth > 6)
        depth = 6;
    int    depth_main = depth > 0 ? int(depth) : (quick ? 3 : 4);
    int    depth_rest = depth_main > 3 ? 3 : depth_main;
    for (std::size_t ti = 0; ti != NTYPES; ++ti)
        if (long(ti % std::size_t(of)) == part)
            enumerate_type(ti, quick, depth_main, depth_rest);
    double wall = now_s() - t0;
#endif

    jarr viol, herr, samples;
    for (auto& v : g_tot.viol)
        viol.raw(v);
    for (auto& e : g_tot.herr)
        herr.str(e);
    for (auto& s : g_tot.samples)
        samples.raw(s);
    jobj extra;
    extra.num("joint_types", (long long)g_tot.types)
        .num("objects", (long long)g_tot.objects)
        .num("sweep_sequences", (long long)g_tot.sweep_sequences)
        .num("history_sequences", (long long)g_tot.history_sequences)
        .num("history_depth", g_tot.max_depth)
        .num("history_alphabet", alphabet_size())
        .num("operations_executed", (long long)g_stats.ops)
        .num("allocating_operations", (long long)g_stats.allocating_ops)
        .num("creates_ok", (long long)g_stats.creates_ok)
        .num("creates_threw_out_of_fixed_memory", (long long)g_stats.creates_refused)
        .num("clones_ok", (long long)g_stats.clones_ok)
        .num("clones_threw_out_of_fixed_memory", (long long)g_stats.clones_refused)
        .num("clones_threw_with_same_block_alignment_as_source", (long long)g_stats.clones_refused_same_residue)
        .num("move_with_allocator_ok", (long long)g_stats.moveobj_ok)
        .num("move_with_allocator_threw", (long long)g_stats.moveobj_refused)
        .num("refused_only_because_of_alignment_padding", (long long)g_stats.refused_with_padding)
        .num("move_assignments_across_upstreams", (long long)g_stats.cross_upstream_assign)
        .num("objects_released", (long long)g_stats.releases)
        .num("element_constructions", (long long)g_elem_ctor)
        .num("element_destructions", (long long)g_elem_dtor)
        .num("sequences_ending_outside_contract", (long long)g_tot.skipped)
        .num("violating_sequences_total", (long long)g_tot.violations_total);
    std::string js =
        jobj()
            .num("evaluations", (long long)(g_tot.sequences - g_tot.skipped))
            .num("distinct_nontrivial", (long long)g_distinct)
            .str("rule",
                 "case = (joint type from 3 member layouts x 15x15 element (size,alignment) pairs; element counts; additional size; "
                 "operation sequence over two joint_ptr slots and two instrumented upstreams); sweep: every count pair x every "
                 "additional size in {0, exact fit -15..+15 bytes, +-1 element, generous} x 4 fixed life cycles (create, clone or "
                 "move-with-allocator across upstreams, destroy source first); histories: ALL sequences of the 25-operation alphabet "
                 "up to the stated depth on representative objects of every type. evaluations = sequences whose every step respected "
                 "the documented preconditions and was checked by the oracle; distinct_nontrivial = distinct (type, object class, "
                 "operation, ownership state of both slots before it, outcome ok/threw) tuples that reached the oracle")
            .raw("samples", samples.done())
            .boolean("exhaustive", true)
            .num("excluded", (long long)g_tot.skipped)
            .dbl("wall_s", wall)
            .raw("violations", viol.done())
            .raw("harness_errors", herr.done())
            .raw("extra", extra.done())
            .done();
    if (out.empty())
        std::printf("%s\n", js.c_str());
    else
    {
        FILE* f = std::fopen(out.c_str(), "w");
        if (!f)
            return 2;
        std::fputs(js.c_str(), f);
        std::fputc('\n', f);
        std::fclose(f);
    }
    return 0;
}
